"""Shared machinery for the pycoin Lean-proof checks (run under /venv/bin/python, PYTHONPATH=/repo)."""
from __future__ import annotations

import hashlib
import json
import os
import random
import re
import subprocess
import sys
import time
from pathlib import Path

VERIF = Path(__file__).resolve().parent.parent
LEAN = VERIF / "lean"
REPO = Path(os.environ.get("PYCOIN_REPO", "/repo"))
DRV = LEAN / ".lake" / "build" / "bin" / "drv"
ALLOWED_AXIOMS = {"propext", "Classical.choice", "Quot.sound"}
FORBIDDEN = re.compile(r"\b(sorry|admit|native_decide|bv_decide|implemented_by|unsafe)\b|^\s*axiom\s|maxHeartbeats\s+0\b", re.M)


class Infra(Exception):
    """infrastructure failure: exit 2, never a VIOLATION"""


def hx(b: bytes) -> str:
    return b.hex() if b else "-"


def unhx(s: str) -> bytes:
    return b"" if s == "-" else bytes.fromhex(s)


def show_list(xs, f=str) -> str:
    xs = list(xs)
    return ",".join(f(x) for x in xs) if xs else "~"


def run_driver(lines: list[str]) -> list[str]:
    """Pipe request lines through the Lean model driver; one answer per line."""
    if not lines:
        return []
    for l in lines:
        if "\n" in l:
            raise Infra("newline inside op line: %r" % l[:80])
    if not DRV.exists():
        raise Infra("driver binary missing: run ./check --setup")
    p = subprocess.run([str(DRV)], input=("\n".join(lines) + "\n").encode(), capture_output=True, timeout=3600)
    if p.returncode != 0:
        raise Infra("driver exited %d: %s" % (p.returncode, p.stderr.decode()[-500:]))
    out = p.stdout.decode().split("\n")
    if out and out[-1] == "":
        out.pop()
    if len(out) != len(lines):
        raise Infra("driver answered %d lines for %d requests" % (len(out), len(lines)))
    return out


def exc_tag(e: BaseException) -> str:
    return type(e).__name__


def guarded(f, *a, **k):
    """call f; return ('ok', value) or ('err', ExceptionClassName)"""
    try:
        return ("ok", f(*a, **k))
    except Exception as e:  # noqa: BLE001
        return ("err", exc_tag(e))


class Case:
    """one correspondence case: the op line sent to the model, what the implementation answered,
    and optionally the verdict of the property oracle on the implementation alone"""

    __slots__ = ("op", "impl", "oracle", "nontrivial", "meta", "kind")

    def __init__(self, op, impl, oracle=None, nontrivial=True, meta=None, kind=""):
        self.op = op
        self.impl = impl
        self.oracle = oracle  # None (no direct oracle) | True (property held) | str (how it failed)
        self.nontrivial = nontrivial
        self.meta = meta or {}
        self.kind = kind or op.split(" ", 1)[0]


class Ctx:
    def __init__(self, pid: str, tier: str, seed: int):
        self.pid = pid
        self.tier = tier
        self.seed = seed
        self.rng = random.Random("%s/%d" % (pid, seed))
        self.t0 = time.time()
        self.cases: list[Case] = []
        self.violations: list[dict] = []  # {what, input, expected, observed, kind, known}
        self.known_hits: dict[str, int] = {}
        self.notes: list[str] = []
        self.kind_hist: dict[str, int] = {}
        self.extra_cov: dict = {}
        self.samples: list = []

    @property
    def thorough(self) -> bool:
        return self.tier == "thorough"

    def n(self, quick: int, thorough: int) -> int:
        """case budget for the tier (VERIF_SCALE multiplies it, for soak runs)"""
        k = thorough if self.thorough else quick
        if os.environ.get("VERIF_ESCALATE") == "1" and not self.thorough:
            # the regeneration tie is broken on this run: look harder through the correspondence (bounded: 6x quick)
            k = min(thorough, 6 * quick)
        return max(1, int(k * float(os.environ.get("VERIF_SCALE", "1"))))

    def add(self, op, impl, oracle=None, nontrivial=True, meta=None, kind=""):
        c = Case(op, impl, oracle, nontrivial, meta, kind)
        self.cases.append(c)
        return c

    def violation(self, what: str, inp, expected=None, observed=None, kind="oracle", detail=None):
        self.violations.append(
            {"what": what, "input": inp, "expected": expected, "observed": observed, "kind": kind, "detail": detail}
        )

    def note(self, s: str):
        self.notes.append(s)


def diff_cases(ctx: Ctx):
    """send every case to the model; a disagreement is a broken correspondence"""
    outs = run_driver([c.op for c in ctx.cases])
    diffs = []
    for c, o in zip(ctx.cases, outs):
        ctx.kind_hist[c.kind] = ctx.kind_hist.get(c.kind, 0) + 1
        if o == "bad-op":
            raise Infra("model driver does not understand: %s" % c.op[:200])
        if c.impl is not None and o != c.impl:
            diffs.append((c, o))
        if isinstance(c.oracle, str):
            ctx.violation(c.oracle, c.op, expected="property holds", observed=c.impl, kind="oracle", detail=c.meta)
    return diffs


# ---------------------------------------------------------------- known findings

def load_known(pid: str):
    """known_findings/<pid>.json: {"findings": [{"key","what","witness"}], "fixed": ["fixed: property=<id> <commit> <what failed>"]}
    committed, never written at run time"""
    p = VERIF / "known_findings" / (pid + ".json")
    if not p.exists():
        return {"findings": [], "fixed": []}
    return json.loads(p.read_text())


# ---------------------------------------------------------------- lean build / audit

def sh(cmd, cwd=None, timeout=3600, env=None):
    p = subprocess.run(cmd, cwd=cwd, capture_output=True, text=True, timeout=timeout, env=env)
    return p.returncode, p.stdout + p.stderr


def strip_comments(src: str) -> str:
    # nested block comments
    out = []
    i = 0
    depth = 0
    n = len(src)
    while i < n:
        if src.startswith("/-", i):
            depth += 1
            i += 2
        elif depth and src.startswith("-/", i):
            depth -= 1
            i += 2
        elif depth:
            i += 1
        elif src.startswith("--", i):
            j = src.find("\n", i)
            i = n if j < 0 else j
        else:
            out.append(src[i])
            i += 1
    return "".join(out)


def forbidden_tokens() -> list[str]:
    hits = []
    for f in sorted((LEAN / "Pycoin").rglob("*.lean")) + sorted((LEAN / "Driver").rglob("*.lean")):
        src = strip_comments(f.read_text())
        # string literals may legitimately contain words; drop them
        src = re.sub(r'"(?:[^"\\]|\\.)*"', '""', src)
        for m in FORBIDDEN.finditer(src):
            hits.append("%s: %s" % (f.relative_to(LEAN), m.group(0).strip()))
    return hits


def lake_build(targets: list[str]):
    rc, out = sh(["lake", "build"] + targets, cwd=LEAN, timeout=7200)
    return rc, out


THEOREM_RE = re.compile(r"^\s*theorem\s+((?:C\d\d)_[A-Za-z0-9_'.]+)", re.M)
NAMESPACE_RE = re.compile(r"^\s*namespace\s+(\S+)", re.M)


def property_theorems(pid: str) -> list[str]:
    """fully qualified names of the property theorems in Props/<pid>.lean (name starts with `<pid>_`)"""
    f = LEAN / "Pycoin" / "Props" / (pid + ".lean")
    src = strip_comments(f.read_text())
    names = []
    ns_stack: list[str] = []
    for line in src.split("\n"):
        m = re.match(r"\s*namespace\s+(\S+)", line)
        if m:
            ns_stack.append(m.group(1))
            continue
        m = re.match(r"\s*end\s+(\S+)", line)
        if m and ns_stack and ns_stack[-1] == m.group(1):
            ns_stack.pop()
            continue
        m = re.match(r"\s*(?:private\s+|protected\s+)?theorem\s+(%s_[A-Za-z0-9_'.]+)" % pid, line)
        if m:
            names.append(".".join(ns_stack + [m.group(1)]))
    return names


def audit(pid: str):
    """elaborate Props/<pid> and print the axioms of each property theorem.
    returns (theorems, ok_names, problems)"""
    names = property_theorems(pid)
    if not names:
        return [], [], ["no property theorems found in Props/%s.lean" % pid]
    d = LEAN / ".lake" / "audit"
    d.mkdir(parents=True, exist_ok=True)
    f = d / (pid + ".lean")
    f.write_text("import Pycoin.Props.%s\n" % pid + "".join("#print axioms %s\n" % n for n in names))
    rc, out = sh(["lake", "env", "lean", str(f)], cwd=LEAN, timeout=3600)
    ok, problems = [], []
    # messages may wrap over lines: normalise
    flat = re.sub(r"\s+", " ", out)
    for n in names:
        m = re.search(r"'%s' depends on axioms: \[([^\]]*)\]" % re.escape(n), flat)
        if m:
            axs = {a.strip() for a in m.group(1).split(",") if a.strip()}
            bad = axs - ALLOWED_AXIOMS
            if bad:
                problems.append("%s uses axioms %s" % (n, sorted(bad)))
            else:
                ok.append(n)
        elif re.search(r"'%s' does not depend on any axioms" % re.escape(n), flat):
            ok.append(n)
        else:
            problems.append("%s: no axiom report (%s)" % (n, out.strip()[-300:]))
    return names, ok, problems


def theorem_statements(pid: str, limit=6) -> list[str]:
    f = LEAN / "Pycoin" / "Props" / (pid + ".lean")
    src = strip_comments(f.read_text())
    res = []
    for m in re.finditer(r"theorem\s+(%s_[A-Za-z0-9_'.]+)(.*?):=" % pid, src, re.S):
        res.append(("theorem " + m.group(1) + re.sub(r"\s+", " ", m.group(2))).strip()[:400])
        if len(res) >= limit:
            break
    return res


def file_fingerprint(paths) -> str:
    h = hashlib.sha256()
    for p in paths:
        p = Path(p)
        if p.exists():
            h.update(p.read_bytes())
    return h.hexdigest()[:16]
