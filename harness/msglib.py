"""Shared by the C14 and C16 harness modules: text form of p2p message field values on the line protocol, an
independent (hand-written, protocol-documentation) reference layout table and wire encoder, canonical dumps of what
pycoin's parser returns, and block/transaction builders.

Value text (no spaces):
    int            123
    bytes          x<hex>            (x alone = empty)
    bool / None    T  F  N
    PeerAddress    A<services>_<iphex16>_<port>
    InvItem        V<type>_<hash hex>
    Tx             t<hex of the transaction bytes>
    Block          b<hex of the block bytes>      header-only Block:  h<hex of the 80 bytes>
    array          [v,v,v]           ([] = empty)
    tuple          (v/v)
fields:            name=value;name=value          (~ = no fields)
"""
from __future__ import annotations

import hashlib
import io
import struct

from txlib import compact_size, ref_wire, build_tx, NETS

BTC = NETS["btc"]


def dsha(b: bytes) -> bytes:
    return hashlib.sha256(hashlib.sha256(b).digest()).digest()


# ------------------------------------------------------------------ time limit for implementation calls

class Hang(BaseException):
    """the implementation did not return within the time limit (e.g. an array count far beyond the data: `f.read(32)`
    succeeds on an exhausted stream, so a `[#]` array loops `count` times)"""


def _alarm(_sig, _frm):
    raise Hang()


def limited(fn, *a, seconds=3.0, **k):
    import signal
    old = signal.signal(signal.SIGALRM, _alarm)
    signal.setitimer(signal.ITIMER_REAL, seconds)
    try:
        return fn(*a, **k)
    finally:
        signal.setitimer(signal.ITIMER_REAL, 0)
        signal.signal(signal.SIGALRM, old)



# ------------------------------------------------------------------ reference layouts (Bitcoin protocol docs, pycoin's field names)
# element types: u8 u32 u64 u48 varint varstr hash bool optbool netaddr inv tx block header;  [t] array, [(t,t)] array of tuples
REF = {
    "version": [("version", "u32"), ("services", "u64"), ("timestamp", "u64"), ("remote_address", "netaddr"),
                ("local_address", "netaddr"), ("nonce", "u64"), ("subversion", "varstr"), ("last_block_index", "u32"),
                ("relay", "optbool")],
    "verack": [],
    "addr": [("date_address_tuples", ["u32", "netaddr"])],
    "inv": [("items", ["inv"])],
    "getdata": [("items", ["inv"])],
    "notfound": [("items", ["inv"])],
    "reject": [("message", "varstr"), ("code", "u8"), ("reason", "varstr"), ("data", "hash")],
    "getblocks": [("version", "u32"), ("hashes", ["hash"]), ("hash_stop", "hash")],
    "getheaders": [("version", "u32"), ("hashes", ["hash"]), ("hash_stop", "hash")],
    "sendheaders": [],
    "tx": [("tx", "tx")],
    "block": [("block", "block")],
    "headers": [("headers", ["header", "varint"])],
    "getaddr": [],
    "mempool": [],
    "feefilter": [("fee_filter_value", "u64")],
    "sendcmpct": [("enabled", "bool"), ("version", "u64")],
    "cmpctblock": [("header_hash", "hash"), ("nonce", "u64"), ("short_ids", ["u48"]), ("prefilled_txs", ["varint", "tx"])],
    "getblocktxn": [("header_hash", "hash"), ("indices", ["varint"])],
    "blocktxn": [("header_hash", "hash"), ("txs", ["tx"])],
    "sendaddrv2": [],
    "ping": [("nonce", "u64")],
    "pong": [("nonce", "u64")],
    "filterload": [("filter", ["u8"]), ("hash_function_count", "u32"), ("tweak", "u32"), ("flags", "bool")],
    "filteradd": [("data", ["u8"])],
    "filterclear": [],
    "merkleblock": [("header", "header"), ("total_transactions", "u32"), ("hashes", ["hash"]), ("flags", ["u8"])],
    "alert": [("payload", "varstr"), ("signature", "varstr")],
}
ALERT_REF = [("version", "u32"), ("relayUntil", "u64"), ("expiration", "u64"), ("id", "u32"), ("cancel", "u32"),
             ("setCancel", ["u32"]), ("minVer", "u32"), ("maxVer", "u32"), ("setSubVer", ["varstr"]), ("priority", "u32"),
             ("comment", "varstr"), ("statusBar", "varstr"), ("reserved", "varstr")]

INT_BITS = {"u8": 8, "u32": 32, "u48": 48, "u64": 64, "varint": 64}


# ------------------------------------------------------------------ harness-side values
# int | bytes | bool | None | ("A", services, ip16, port) | ("V", type, hash) | ("t", bytes) | ("b", bytes) | ("h", bytes)
# | list (array) | tuple of plain values (tuple)

def show_val(v) -> str:
    if v is None:
        return "N"
    if v is True:
        return "T"
    if v is False:
        return "F"
    if isinstance(v, int):
        return str(v)
    if isinstance(v, (bytes, bytearray)):
        return "x" + bytes(v).hex()
    if isinstance(v, list):
        return "[" + ",".join(show_val(x) for x in v) + "]"
    if isinstance(v, tuple):
        tag = v[0]
        if tag == "A":
            return "A%d_%s_%d" % (v[1], v[2].hex(), v[3])
        if tag == "V":
            return "V%d_%s" % (v[1], v[2].hex())
        if tag in ("t", "b", "h"):
            return tag + v[1].hex()
        if tag == "T":
            return "(" + "/".join(show_val(x) for x in v[1:]) + ")"
    raise ValueError("cannot show %r" % (v,))


def tup(*xs):
    return ("T",) + tuple(xs)


def parse_val(s: str):
    if s == "N":
        return None
    if s == "T":
        return True
    if s == "F":
        return False
    c = s[0]
    if c == "x":
        return bytes.fromhex(s[1:])
    if c == "[":
        inner = s[1:-1]
        return [parse_val(x) for x in inner.split(",")] if inner else []
    if c == "(":
        return ("T",) + tuple(parse_val(x) for x in s[1:-1].split("/"))
    if c == "A":
        a, b, p = s[1:].split("_")
        return ("A", int(a), bytes.fromhex(b), int(p))
    if c == "V":
        a, b = s[1:].split("_")
        return ("V", int(a), bytes.fromhex(b))
    if c in "tbh":
        return (c, bytes.fromhex(s[1:]))
    return int(s)


def show_fields(fields) -> str:
    return ";".join("%s=%s" % (k, show_val(v)) for k, v in fields) or "~"


def parse_fields(s: str):
    if s == "~":
        return []
    out = []
    for item in s.split(";"):
        k, v = item.split("=", 1)
        out.append((k, parse_val(v)))
    return out


# ------------------------------------------------------------------ harness value -> real pycoin object, and back

def to_py(v, net=BTC):
    from pycoin.message.PeerAddress import PeerAddress
    from pycoin.message.InvItem import InvItem
    if isinstance(v, list):
        # array elements that are tuples are handed over alternately as Python tuples and lists (both are "tuples" to pack)
        out = [to_py(x, net) for x in v]
        return [list(x) if (i % 2 == 1 and isinstance(x, tuple)) else x for i, x in enumerate(out)]
    if isinstance(v, tuple):
        tag = v[0]
        if tag == "A":
            return PeerAddress(v[1], v[2], v[3])
        if tag == "V":
            return InvItem(v[1], v[2], dont_check=True)
        if tag == "t":
            return net.tx.parse(io.BytesIO(v[1]))
        if tag == "b":
            return net.block.parse(io.BytesIO(v[1]))
        if tag == "h":
            return net.block.parse_as_header(io.BytesIO(v[1]))
        if tag == "T":
            return tuple(to_py(x, net) for x in v[1:])
    return v


def _stream(obj, meth="stream") -> bytes:
    f = io.BytesIO()
    getattr(obj, meth)(f)
    return f.getvalue()


def dump_py(v, top=True) -> str:
    """canonical text of a value returned by pycoin's parser (sequences at field level are arrays, nested ones tuples)"""
    from pycoin.message.PeerAddress import PeerAddress
    from pycoin.message.InvItem import InvItem
    from pycoin.block import Block
    if v is None:
        return "N"
    if v is True:
        return "T"
    if v is False:
        return "F"
    if isinstance(v, int):
        return str(v)
    if isinstance(v, (bytes, bytearray)):
        return "x" + bytes(v).hex()
    if isinstance(v, PeerAddress):
        return "A%d_%s_%d" % (v.services, v.ip_bin.hex(), v.port)
    if isinstance(v, InvItem):
        return "V%d_%s" % (v.item_type, v.data.hex())
    if isinstance(v, Block):
        return ("b" + v.as_bin().hex()) if v.txs else ("h" + _stream(v, "stream_header").hex())
    if hasattr(v, "txs_in") and hasattr(v, "stream"):
        return "t" + _stream(v).hex()
    if isinstance(v, (tuple, list)):
        if top:
            return "[" + ",".join(dump_py(x, False) for x in v) + "]"
        return "(" + "/".join(dump_py(x, False) for x in v) + ")"
    if isinstance(v, dict):
        return "{" + "&".join("%s=%s" % (k, dump_py(x)) for k, x in v.items()) + "}"
    raise ValueError("cannot dump %r" % type(v))


def dump_dict(d: dict, names) -> str:
    """fields in layout order, then whatever a post-processor added (`+name=value`)"""
    parts = ["%s=%s" % (k, dump_py(d[k])) for k in names if k in d]
    parts += ["+%s=%s" % (k, dump_py(d[k])) for k in d if k not in names]
    return ";".join(parts) or "~"


# ------------------------------------------------------------------ independent wire encoder (protocol documentation)

class OutOfType(Exception):
    pass


def ref_enc(t, v) -> bytes:
    if isinstance(t, list):  # array
        if not isinstance(v, list):
            raise OutOfType
        out = [compact_size(len(v))]
        for e in v:
            if len(t) == 1:
                out.append(ref_enc(t[0], e))
            else:
                if not (isinstance(e, tuple) and e[0] == "T" and len(e) == len(t) + 1):
                    raise OutOfType
                out += [ref_enc(ti, ei) for ti, ei in zip(t, e[1:])]
        return b"".join(out)
    if t in ("u8", "u32", "u64"):
        if not (isinstance(v, int) and not isinstance(v, bool) and 0 <= v < 2 ** INT_BITS[t]):
            raise OutOfType
        return v.to_bytes(INT_BITS[t] // 8, "little")
    if t == "u48":
        if not (isinstance(v, int) and not isinstance(v, bool) and 0 <= v < 2 ** 48):
            raise OutOfType
        return v.to_bytes(6, "little")
    if t == "varint":
        if not (isinstance(v, int) and not isinstance(v, bool) and 0 <= v < 2 ** 64):
            raise OutOfType
        return compact_size(v)
    if t == "varstr":
        if not isinstance(v, bytes):
            raise OutOfType
        return compact_size(len(v)) + v
    if t == "hash":
        if not (isinstance(v, bytes) and len(v) == 32):
            raise OutOfType
        return v
    if t == "bool":
        if v is True:
            return b"\x01"
        if v is False:
            return b"\x00"
        raise OutOfType
    if t == "optbool":
        if v is None:
            return b""
        return ref_enc("bool", v)
    if t == "netaddr":  # net_addr without the time field: services LE64, 16-byte IPv6/IPv4-mapped, port big-endian
        if not (isinstance(v, tuple) and v[0] == "A" and 0 <= v[1] < 2 ** 64 and len(v[2]) == 16 and 0 <= v[3] < 2 ** 16):
            raise OutOfType
        return v[1].to_bytes(8, "little") + v[2] + v[3].to_bytes(2, "big")
    if t == "inv":
        if not (isinstance(v, tuple) and v[0] == "V" and 0 <= v[1] < 2 ** 32 and len(v[2]) == 32):
            raise OutOfType
        return v[1].to_bytes(4, "little") + v[2]
    if t in ("tx", "block", "header"):
        tag = {"tx": "t", "block": "b", "header": "h"}[t]
        if not (isinstance(v, tuple) and v[0] == tag):
            raise OutOfType
        return v[1]
    raise ValueError(t)


def ref_pack(layout, fields) -> bytes:
    d = dict(fields)
    return b"".join(ref_enc(t, d[k]) for k, t in layout)


# ------------------------------------------------------------------ builders

def header_bytes(version, prev, root, timestamp, difficulty, nonce) -> bytes:
    return struct.pack("<L", version) + prev + root + struct.pack("<LLL", timestamp, difficulty, nonce)


def ref_merkle(hashes):
    hs = list(hashes)
    while len(hs) > 1:
        if len(hs) % 2:
            hs.append(hs[-1])
        hs = [dsha(hs[i] + hs[i + 1]) for i in range(0, len(hs), 2)]
    return hs[0]


def random_tx_fields(rng, segwit_ok=True, nin=None, nout=None):
    nin = nin or rng.choice([1, 1, 2, 3])
    nout = nout or rng.choice([1, 2, 3])
    ins = []
    wit_any = segwit_ok and rng.random() < 0.35
    for _ in range(nin):
        wit = [rng.randbytes(rng.choice([0, 1, 33, 72])) for _ in range(rng.randint(1, 3))] if wit_any else []
        ins.append((rng.randbytes(32), rng.choice([0, 1, 0xFFFFFFFF, rng.randrange(2 ** 32)]), rng.randbytes(rng.choice([0, 1, 25, 107])),
                    rng.choice([0, 0xFFFFFFFF, 0xFFFFFFFE, rng.randrange(2 ** 32)]), wit))
    outs = [(rng.choice([0, 1, 546, 21 * 10 ** 14, rng.randrange(2 ** 63)]), rng.randbytes(rng.choice([0, 22, 25, 34]))) for _ in range(nout)]
    return (rng.choice([1, 2, rng.randrange(2 ** 32)]), rng.choice([0, 1, rng.randrange(2 ** 32)]), ins, outs)


def tx_hash_legacy(fields) -> bytes:
    from txlib import ref_legacy
    return dsha(ref_legacy(fields))


def random_block(rng, ntx, segwit_ok=True, bad_root=False, fat=None):
    """(block bytes, header bytes, tx bytes list, txids) built with the independent encoders only; `fat` = (position, number
    of inputs, number of outputs) of one transaction whose counts need the 3-byte form of the variable-length integer"""
    txf = [random_tx_fields(rng, segwit_ok) for _ in range(ntx)]
    if fat:
        txf[fat[0] % ntx] = random_tx_fields(rng, segwit_ok and fat[3], nin=fat[1], nout=fat[2])
    txids = [tx_hash_legacy(f) for f in txf]
    root = ref_merkle(txids)
    if bad_root:
        r = bytearray(root)
        r[rng.randrange(32)] ^= 1 << rng.randrange(8)
        root = bytes(r)
    hdr = header_bytes(rng.choice([1, 2, 0x20000000, rng.randrange(2 ** 32)]), rng.randbytes(32), root,
                       rng.randrange(2 ** 32), rng.choice([0x1D00FFFF, rng.randrange(2 ** 32)]), rng.randrange(2 ** 32))
    txb = [ref_wire(f) for f in txf]
    return hdr + compact_size(ntx) + b"".join(txb), hdr, txb, txids


# ------------------------------------------------------------------ fresh-interpreter histories (fork server)
# A "zygote" child imports pycoin's networks and this module but never packs or parses anything.  For every history it
# forks; the grandchild runs the calls in order in that pristine state, prints one JSON line of answers and exits.

HIST_NETS = ["btc", "ltc", "btg", "bch", "grs", "doge", "xtg"]

ZYGOTE_SRC = r'''
import sys, os, json, signal
sys.path.insert(0, %(harness)r)
import msglib as M
from pycoin.networks.registry import network_for_netcode
NETS = {}
for code in M.HIST_NETS:
    try:
        NETS[code] = network_for_netcode(code.upper())
    except Exception:
        pass
sys.stdout.write("ready " + ",".join(sorted(NETS)) + "\n"); sys.stdout.flush()
for line in sys.stdin:
    steps = json.loads(line)
    pid = os.fork()
    if pid == 0:
        signal.signal(signal.SIGALRM, lambda *_: (sys.stdout.write(json.dumps(["HANG"]) + "\n"), sys.stdout.flush(), os._exit(0)))
        signal.alarm(30)
        out = [M.run_step(NETS, st) for st in steps]
        sys.stdout.write(json.dumps(out) + "\n"); sys.stdout.flush()
        os._exit(0)
    os.waitpid(pid, 0)
'''


def run_step(nets, st: str) -> str:
    """one `net:pack:name:fields` / `net:parse:name:hex` call on the real API; the answer in the driver's form"""
    net_code, kind, name, arg = st.split(":")
    net = nets[net_code]
    try:
        if kind == "pack":
            fields = parse_fields(arg)
            try:
                kwargs = {k: to_py(v, net) for k, v in fields}
            except Exception:  # noqa: BLE001
                return "err:build"
            data = net.message.pack(name, **kwargs)
            return data.hex() or "-"
        data = b"" if arg == "-" else bytes.fromhex(arg)
        d = net.message.parse(name, data)
        return dump_dict(d, [n for n, _ in REF.get(name, [])])
    except Exception as e:  # noqa: BLE001
        return "err:" + type(e).__name__


class Zygote:
    def __init__(self):
        import os
        import subprocess
        import sys
        here = os.path.dirname(os.path.abspath(__file__))
        self.p = subprocess.Popen([sys.executable, "-c", ZYGOTE_SRC % {"harness": here}], stdin=subprocess.PIPE,
                                  stdout=subprocess.PIPE, env=dict(os.environ))
        first = self.p.stdout.readline().decode().strip()
        if not first.startswith("ready"):
            raise RuntimeError("history worker did not start: %r" % first)
        self.nets = first.split(" ", 1)[1].split(",") if " " in first else []

    def run(self, steps):
        import json
        self.p.stdin.write((json.dumps(steps) + "\n").encode())
        self.p.stdin.flush()
        line = self.p.stdout.readline()
        if not line:
            raise RuntimeError("history worker died")
        return json.loads(line)


_ZYGOTE = None


def zygote() -> "Zygote":
    global _ZYGOTE
    if _ZYGOTE is None:
        _ZYGOTE = Zygote()
    return _ZYGOTE


# ------------------------------------------------------------------ per-network reference encoders (headers / blocks)

def btg_header_bytes(version, prev, root, height, timestamp, bits, nonce32, solution) -> bytes:
    """Bitcoin Gold header (BTCGPU technical spec): version, prev, root, height, 28 reserved zero bytes, time, bits, 32-byte
    nonce, var-length Equihash solution"""
    return (struct.pack("<L", version) + prev + root + struct.pack("<L", height) + b"\0" * 28 + struct.pack("<LL", timestamp, bits)
            + nonce32 + compact_size(len(solution)) + solution)


def net_txid(code: str, fields) -> bytes:
    from txlib import ref_legacy
    b = ref_legacy(fields)
    return hashlib.sha256(b).digest() if code == "grs" else dsha(b)


def net_header(rng, code: str, root: bytes) -> bytes:
    if code == "btg":
        return btg_header_bytes(rng.choice([1, 0x20000000]), rng.randbytes(32), root, rng.choice([0, 491406, 491407, rng.randrange(2 ** 32)]),
                                rng.randrange(2 ** 32), 0x1D00FFFF, rng.randbytes(32), rng.randbytes(rng.choice([0, 100, 1344])))
    return header_bytes(rng.choice([1, 2, 0x20000000]), rng.randbytes(32), root, rng.randrange(2 ** 32), 0x1D00FFFF, rng.randrange(2 ** 32))


def net_block(rng, code: str, ntx: int):
    """(block bytes, header bytes) for the network's layout, independent encoders only"""
    txf = [random_tx_fields(rng) for _ in range(ntx)]
    root = ref_merkle([net_txid(code, f) for f in txf])
    hdr = net_header(rng, code, root)
    return hdr + compact_size(ntx) + b"".join(ref_wire(f) for f in txf), hdr
