"""Anchored-line coverage: which executable lines of a property's anchored files the run executed (parent + workers).

Measurement only (it goes into the evidence file and decides nothing): a line no case executes is a line whose mutation
no correspondence case can see, so the list of missed lines says where the tie between model and code is thin.
Lines are collected by harness/cov/sitecustomize.py (sys.monitoring) in every Python process the check starts."""
from __future__ import annotations

import ast
import json
import os
from pathlib import Path

import lib


def anchored_files(pid: str) -> list[str]:
    out: list[str] = []
    for l in open(lib.VERIF / "properties.jsonl"):
        d = json.loads(l)
        if d["id"] != pid:
            continue
        for f in d.get("anchors", {}).get("files", []):
            p = lib.REPO / f
            if p.is_dir():
                out += sorted(str(q.relative_to(lib.REPO)) for q in p.rglob("*.py"))
            elif p.exists():
                out.append(f)
    return sorted(set(out))


def _excluded_lines(tree: ast.Module) -> set[int]:
    """lines of `if __name__ == "__main__":` blocks and of embedded unittest classes: not library behaviour"""
    ex: set[int] = set()
    for node in tree.body:
        drop = False
        if isinstance(node, ast.If):
            t = node.test
            if (isinstance(t, ast.Compare) and isinstance(t.left, ast.Name) and t.left.id == "__name__"):
                drop = True
        if isinstance(node, ast.ClassDef) and any("TestCase" in ast.unparse(b) for b in node.bases):
            drop = True
        if drop:
            ex.update(range(node.lineno, (node.end_lineno or node.lineno) + 1))
    return ex


def executable(path: Path) -> tuple[set[int], dict[str, set[int]]]:
    """(executable lines, {qualified function name: its own lines}) of a source file"""
    src = path.read_text()
    tree = ast.parse(src)
    ex = _excluded_lines(tree)
    lines: set[int] = set()
    funcs: dict[str, set[int]] = {}

    def walk(co, qual):
        own = {ln for _, _, ln in co.co_lines() if ln is not None and ln > 0 and ln not in ex}
        if co.co_name != "<module>":
            own.discard(co.co_firstlineno)   # the `def` line belongs to the enclosing scope
            if own and not co.co_name.startswith("<"):
                funcs[qual] = own
        lines.update(own)
        for c in co.co_consts:
            if hasattr(c, "co_lines"):
                walk(c, (qual + "." if qual else "") + c.co_name)

    walk(compile(src, str(path), "exec"), "")
    return lines, funcs


def collect(cov_dir: str) -> dict[str, set[int]]:
    hit: dict[str, set[int]] = {}
    d = Path(cov_dir)
    if not d.is_dir():
        return hit
    for f in d.glob("*.txt"):
        for l in f.read_text(errors="replace").split("\n"):
            if ":" in l:
                fn, _, n = l.rpartition(":")
                if n.isdigit():
                    hit.setdefault(fn, set()).add(int(n))
    return hit


def _ranges(xs) -> str:
    xs = sorted(xs)
    out, i = [], 0
    while i < len(xs):
        j = i
        while j + 1 < len(xs) and xs[j + 1] == xs[j] + 1:
            j += 1
        out.append(str(xs[i]) if i == j else "%d-%d" % (xs[i], xs[j]))
        i = j + 1
    return ",".join(out)


def summary(pid: str, cov_dir: str | None) -> dict | None:
    if not cov_dir:
        return None
    hit = collect(cov_dir)
    if not hit:
        return None
    files = {}
    tot = got = 0
    never = []
    for f in anchored_files(pid):
        try:
            ex, funcs = executable(lib.REPO / f)
        except (SyntaxError, OSError):
            continue
        if not ex:
            continue
        h = hit.get(f, set()) & ex
        tot += len(ex)
        got += len(h)
        files[f] = {"executable": len(ex), "executed": len(h), "missed": _ranges(ex - h)}
        never += ["%s:%s" % (f, q) for q, own in sorted(funcs.items()) if not (own & h)]
    # files outside the property's anchors that the run imported: compact form, used by docs/covreport.py to tell which
    # lines NO check executes (a file anchored by one property is often exercised by the check of another)
    other = {}
    for f in sorted(hit):
        if f in files or not (lib.REPO / f).exists():
            continue
        try:
            ex, _ = executable(lib.REPO / f)
        except (SyntaxError, OSError):
            continue
        if ex:
            other[f] = {"executable": len(ex), "missed": _ranges(ex - hit[f])}
    return {"what": "executable lines of the property's anchored files executed by this run, in the harness process and "
                    "every worker process (sys.monitoring); import-time lines count as executed; measurement only",
            "executable": tot, "executed": got, "percent": round(100.0 * got / tot, 1) if tot else 0.0,
            "functions_never_entered": never, "files": files, "other_files": other}


# ---------------------------------------------------------------- source fingerprints (DESIGN section 2.3)

def fingerprint(pid: str) -> dict:
    """hash of the normalised AST (comments and layout dropped) of every anchored file of the property"""
    import hashlib
    res = {}
    for f in anchored_files(pid):
        try:
            res[f] = hashlib.sha256(ast.dump(ast.parse((lib.REPO / f).read_text())).encode()).hexdigest()[:16]
        except Exception as e:  # noqa: BLE001
            res[f] = "unparsable:" + type(e).__name__
    return res


def fingerprint_changed(pid: str) -> list[str]:
    """anchored files whose AST differs from fingerprints/<pid>.json (committed; rewritten by ./check --fingerprint).
    A changed fingerprint is NOT a violation: it makes the quick tier look harder on the run that follows the change."""
    p = lib.VERIF / "fingerprints" / (pid + ".json")
    if not p.exists():
        return []
    known = json.loads(p.read_text())
    now = fingerprint(pid)
    return sorted(f for f in set(known) | set(now) if known.get(f) != now.get(f))


def write_fingerprints():
    d = lib.VERIF / "fingerprints"
    d.mkdir(exist_ok=True)
    for l in open(lib.VERIF / "properties.jsonl"):
        pid = json.loads(l)["id"]
        (d / (pid + ".json")).write_text(json.dumps(fingerprint(pid), indent=1, sort_keys=True) + "\n")
