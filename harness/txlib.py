"""Shared by the C07 and C20 harness modules: the text form of transactions on the line protocol (see
lean/Pycoin/DriverLib/TxText.lean), construction of real pycoin Tx objects from it, canonical dumps, and an
independent Python rendering of the Bitcoin wire format (legacy and BIP144) used by oracles."""
from __future__ import annotations

import hashlib
import importlib
import struct

COINS = ["btc", "ltc", "grs", "bch", "btg"]
NETS = {c: importlib.import_module("pycoin.symbols." + c).network for c in COINS}
ZERO32 = b"\0" * 32
NULL_INDEX = 0xFFFFFFFF


def TX(coin):
    return NETS[coin].tx


# ------------------------------------------------------------------ bytes <-> text

def hx(b: bytes) -> str:
    return bytes(b).hex() if len(b) else "-"


def parse_bytes(s: str) -> bytes:
    out = []
    for part in s.split("+"):
        if part == "-":
            continue
        if part.startswith("r"):
            hh, n = part[1:].split("x")
            out.append(bytes.fromhex(hh) * int(n))
        else:
            out.append(bytes.fromhex(part))
    return b"".join(out)


def show_bytes_compact(b: bytes) -> str:
    """op-line form: long runs of one byte are written r<hh>x<n>"""
    if len(b) > 64 and len(set(b)) == 1:
        return "r%02xx%d" % (b[0], len(b))
    return hx(b)


# ------------------------------------------------------------------ fields <-> text
# fields = (version, lock, [(hash, index, script, sequence, [witness items])], [(value, script)])

def show_fields(f, compact=True) -> str:
    sb = show_bytes_compact if compact else hx
    v, lock, ins, outs = f
    si = "|".join("%s:%d:%s:%d:%s" % (sb(h), i, sb(s), q, ("/".join(sb(w) for w in wit) if wit else "~"))
                  for h, i, s, q, wit in ins) or "~"
    so = "|".join("%d:%s" % (val, sb(s)) for val, s in outs) or "~"
    return "%d;%d;%s;%s" % (v, lock, si, so)


def parse_fields(s: str):
    v, lock, ins_s, outs_s = s.split(";")
    ins, outs = [], []
    if ins_s != "~":
        for x in ins_s.split("|"):
            h, i, sc, q, w = x.split(":")
            wit = [] if w == "~" else [parse_bytes(y) for y in w.split("/")]
            ins.append((parse_bytes(h), int(i), parse_bytes(sc), int(q), wit))
    if outs_s != "~":
        for x in outs_s.split("|"):
            val, sc = x.split(":")
            outs.append((int(val), parse_bytes(sc)))
    return (int(v), int(lock), ins, outs)


def build_tx(coin, f, ids=None):
    """a real Tx of the coin's class; positions with the same id share one TxIn object"""
    T = TX(coin)
    v, lock, ins, outs = f
    objs = {}
    txs_in = []
    for pos, (h, i, s, q, wit) in enumerate(ins):
        key = pos if ids is None else ("id", ids[pos])
        if key not in objs:
            t = T.TxIn(h, i, s, q)
            t.witness = list(wit)
            objs[key] = t
        txs_in.append(objs[key])
    txs_out = [T.TxOut(val, s) for val, s in outs]
    return T(v, txs_in, txs_out, lock)


def fields_of(tx):
    return (tx.version, tx.lock_time,
            [(bytes(t.previous_hash), t.previous_index, bytes(t.script), t.sequence, [bytes(w) for w in t.witness]) for t in tx.txs_in],
            [(t.coin_value, bytes(t.script)) for t in tx.txs_out])


def dump_tx(tx) -> str:
    return show_fields(fields_of(tx), compact=False)


def show_unspents(us) -> str:
    return "|".join("none" if u is None else "%d:%s" % (u.coin_value, hx(u.script)) for u in us) or "~"


def parse_unspents_text(coin, s):
    if s == "~":
        return []
    T = TX(coin)
    res = []
    for x in s.split("|"):
        if x == "none":
            res.append(None)
        else:
            val, sc = x.split(":")
            res.append(T.TxOut(int(val), parse_bytes(sc)))
    return res


# ------------------------------------------------------------------ independent wire format (protocol documentation)

def compact_size(n: int) -> bytes:
    if n < 0xFD:
        return bytes([n])
    if n <= 0xFFFF:
        return b"\xfd" + n.to_bytes(2, "little")
    if n <= 0xFFFFFFFF:
        return b"\xfe" + n.to_bytes(4, "little")
    return b"\xff" + n.to_bytes(8, "little")


def fields_in_range(f) -> bool:
    v, lock, ins, outs = f
    if not (0 <= v < 2 ** 32 and 0 <= lock < 2 ** 32):
        return False
    for h, i, s, q, wit in ins:
        if len(h) != 32 or not (0 <= i < 2 ** 32 and 0 <= q < 2 ** 32):
            return False
    return all(0 <= val < 2 ** 64 for val, _ in outs)


def ref_legacy(f) -> bytes:
    v, lock, ins, outs = f
    b = [v.to_bytes(4, "little"), compact_size(len(ins))]
    for h, i, s, q, _w in ins:
        b += [h, i.to_bytes(4, "little"), compact_size(len(s)), s, q.to_bytes(4, "little")]
    b.append(compact_size(len(outs)))
    for val, s in outs:
        b += [val.to_bytes(8, "little"), compact_size(len(s)), s]
    b.append(lock.to_bytes(4, "little"))
    return b"".join(b)


def ref_bip144(f) -> bytes:
    v, lock, ins, outs = f
    b = [v.to_bytes(4, "little"), b"\x00\x01", compact_size(len(ins))]
    for h, i, s, q, _w in ins:
        b += [h, i.to_bytes(4, "little"), compact_size(len(s)), s, q.to_bytes(4, "little")]
    b.append(compact_size(len(outs)))
    for val, s in outs:
        b += [val.to_bytes(8, "little"), compact_size(len(s)), s]
    for _h, _i, _s, _q, wit in ins:
        b.append(compact_size(len(wit)))
        for w in wit:
            b += [compact_size(len(w)), w]
    b.append(lock.to_bytes(4, "little"))
    return b"".join(b)


def has_witness(f) -> bool:
    return any(len(wit) > 0 for *_x, wit in f[2])


def ref_wire(f) -> bytes:
    return ref_bip144(f) if has_witness(f) else ref_legacy(f)


def ref_digest(coin, b: bytes) -> bytes:
    """ids: double SHA-256; the Groestlcoin transaction class hashes once"""
    d = hashlib.sha256(b).digest()
    return d if coin == "grs" else hashlib.sha256(d).digest()
