"""Shared by the C07 and C20 harness modules: the text form of transactions on the line protocol (see
lean/Pycoin/DriverLib/TxText.lean), construction of real pycoin Tx objects from it, canonical dumps, and an
independent Python rendering of the Bitcoin wire format (legacy and BIP144) used by oracles."""
from __future__ import annotations

import hashlib
import importlib
import struct

COINS = ["btc", "ltc", "grs", "bch", "btg"]
NETS = {c: importlib.import_module("pycoin.symbols." + c).network for c in COINS}
ZERO32 = b"\0" * 32
NULL_INDEX = 0xFFFFFFFF


def TX(coin):
    return NETS[coin].tx


# ------------------------------------------------------------------ bytes <-> text

def hx(b: bytes) -> str:
    return bytes(b).hex() if len(b) else "-"


def parse_bytes(s: str) -> bytes:
    out = []
    for part in s.split("+"):
        if part == "-":
            continue
        if part.startswith("r"):
            hh, n = part[1:].split("x")
            out.append(bytes.fromhex(hh) * int(n))
        else:
            out.append(bytes.fromhex(part))
    return b"".join(out)


def show_bytes_compact(b: bytes) -> str:
    """op-line form: long runs of one byte are written r<hh>x<n>"""
    if len(b) > 64 and len(set(b)) == 1:
        return "r%02xx%d" % (b[0], len(b))
    return hx(b)


# ------------------------------------------------------------------ fields <-> text
# fields = (version, lock, [(hash, index, script, sequence, [witness items])], [(value, script)])

def show_fields(f, compact=True) -> str:
    sb = show_bytes_compact if compact else hx
    v, lock, ins, outs = f
    si = "|".join("%s:%d:%s:%d:%s" % (sb(h), i, sb(s), q, ("/".join(sb(w) for w in wit) if wit else "~"))
                  for h, i, s, q, wit in ins) or "~"
    so = "|".join("%d:%s" % (val, sb(s)) for val, s in outs) or "~"
    return "%d;%d;%s;%s" % (v, lock, si, so)


def parse_fields(s: str):
    v, lock, ins_s, outs_s = s.split(";")
    ins, outs = [], []
    if ins_s != "~":
        for x in ins_s.split("|"):
            h, i, sc, q, w = x.split(":")
            wit = [] if w == "~" else [parse_bytes(y) for y in w.split("/")]
            ins.append((parse_bytes(h), int(i), parse_bytes(sc), int(q), wit))
    if outs_s != "~":
        for x in outs_s.split("|"):
            val, sc = x.split(":")
            outs.append((int(val), parse_bytes(sc)))
    return (int(v), int(lock), ins, outs)


def build_tx(coin, f, ids=None):
    """a real Tx of the coin's class; positions with the same id share one TxIn object"""
    T = TX(coin)
    v, lock, ins, outs = f
    objs = {}
    txs_in = []
    for pos, (h, i, s, q, wit) in enumerate(ins):
        key = pos if ids is None else ("id", ids[pos])
        if key not in objs:
            t = T.TxIn(h, i, s, q)
            t.witness = list(wit)
            objs[key] = t
        txs_in.append(objs[key])
    txs_out = [T.TxOut(val, s) for val, s in outs]
    return T(v, txs_in, txs_out, lock)


def fields_of(tx):
    return (tx.version, tx.lock_time,
            [(bytes(t.previous_hash), t.previous_index, bytes(t.script), t.sequence, [bytes(w) for w in t.witness]) for t in tx.txs_in],
            [(t.coin_value, bytes(t.script)) for t in tx.txs_out])


def dump_tx(tx) -> str:
    return show_fields(fields_of(tx), compact=False)


def show_unspents(us) -> str:
    return "|".join("none" if u is None else "%d:%s" % (u.coin_value, hx(u.script)) for u in us) or "~"


def parse_unspents_text(coin, s):
    if s == "~":
        return []
    T = TX(coin)
    res = []
    for x in s.split("|"):
        if x == "none":
            res.append(None)
        else:
            val, sc = x.split(":")
            res.append(T.TxOut(int(val), parse_bytes(sc)))
    return res


# ------------------------------------------------------------------ independent wire format (protocol documentation)

def compact_size(n: int) -> bytes:
    if n < 0xFD:
        return bytes([n])
    if n <= 0xFFFF:
        return b"\xfd" + n.to_bytes(2, "little")
    if n <= 0xFFFFFFFF:
        return b"\xfe" + n.to_bytes(4, "little")
    return b"\xff" + n.to_bytes(8, "little")


def fields_in_range(f) -> bool:
    v, lock, ins, outs = f
    if not (0 <= v < 2 ** 32 and 0 <= lock < 2 ** 32):
        return False
    for h, i, s, q, wit in ins:
        if len(h) != 32 or not (0 <= i < 2 ** 32 and 0 <= q < 2 ** 32):
            return False
    return all(0 <= val < 2 ** 64 for val, _ in outs)


def ref_legacy(f) -> bytes:
    v, lock, ins, outs = f
    b = [v.to_bytes(4, "little"), compact_size(len(ins))]
    for h, i, s, q, _w in ins:
        b += [h, i.to_bytes(4, "little"), compact_size(len(s)), s, q.to_bytes(4, "little")]
    b.append(compact_size(len(outs)))
    for val, s in outs:
        b += [val.to_bytes(8, "little"), compact_size(len(s)), s]
    b.append(lock.to_bytes(4, "little"))
    return b"".join(b)


def ref_bip144(f) -> bytes:
    v, lock, ins, outs = f
    b = [v.to_bytes(4, "little"), b"\x00\x01", compact_size(len(ins))]
    for h, i, s, q, _w in ins:
        b += [h, i.to_bytes(4, "little"), compact_size(len(s)), s, q.to_bytes(4, "little")]
    b.append(compact_size(len(outs)))
    for val, s in outs:
        b += [val.to_bytes(8, "little"), compact_size(len(s)), s]
    for _h, _i, _s, _q, wit in ins:
        b.append(compact_size(len(wit)))
        for w in wit:
            b += [compact_size(len(w)), w]
    b.append(lock.to_bytes(4, "little"))
    return b"".join(b)


def has_witness(f) -> bool:
    return any(len(wit) > 0 for *_x, wit in f[2])


def ref_wire(f) -> bytes:
    return ref_bip144(f) if has_witness(f) else ref_legacy(f)


def ref_digest(coin, b: bytes) -> bytes:
    """ids: double SHA-256; the Groestlcoin transaction class hashes once"""
    d = hashlib.sha256(b).digest()
    return d if coin == "grs" else hashlib.sha256(d).digest()


# ------------------------------------------------------------------ histories on ONE Tx object
# steps joined by "!", arguments by "=" (see lean/Pycoin/DriverLib/History.lean)

CHECK_TAGS = {
    "txs_out = []": "txs_out_empty",
    "txs_in = []": "txs_in_empty",
    "tx_out value negative or out of range": "value_range",
    "tx_out total out of range": "total_range",
    "duplicate inputs": "duplicate_inputs",
    "bad coinbase script size": "bad_coinbase_script_size",
    "prevout is null": "prevout_null",
    "spendable reused": "spendable_reused",
    "size > MAX_TX_SIZE": "size_limit",
}

OBSERVERS = ("id", "hash", "w_id", "w_hash", "blanked", "as_bin", "bin_len", "as_hex", "as_bin_u", "check", "is_coinbase", "bad")


def observe(tx, name):
    """one observer on a real object, printed as the driver prints it"""
    from pycoin.coins.exceptions import ValidationFailureError
    try:
        if name == "id":
            return tx.id()
        if name == "hash":
            return hx(tx.hash())
        if name == "w_id":
            return tx.w_id()
        if name == "w_hash":
            return hx(tx.w_hash())
        if name == "blanked":
            return hx(tx.blanked_hash())
        if name == "as_bin":
            return hx(tx.as_bin())
        if name == "bin_len":
            return "%d" % len(tx.as_bin())
        if name == "as_hex":
            return tx.as_hex() or "-"
        if name == "as_bin_u":
            return hx(tx.as_bin(include_unspents=True))
        if name == "is_coinbase":
            return "1" if tx.is_coinbase() else "0"
        if name == "bad":
            if any(u is not None for u in tx.unspents):
                return "n/a"       # real unspents: the script interpreter would run (outside this model)
            return "%d" % tx.bad_solution_count()
        if name == "check":
            try:
                tx.check()
                return "ok"
            except ValidationFailureError as e:
                return CHECK_TAGS.get(str(e), "unknown_message")
            except Exception as e:  # noqa: BLE001
                return "raised:" + type(e).__name__
    except Exception as e:  # noqa: BLE001
        return "err:" + type(e).__name__
    raise ValueError(name)


def mutate(coin, tx, step):
    T = TX(coin)
    a = step.split("=")
    k = a[0]
    if k == "script":
        tx.txs_in[int(a[1])].script = parse_bytes(a[2])
    elif k == "witness":
        tx.txs_in[int(a[1])].witness = [] if a[2] == "~" else [parse_bytes(y) for y in a[2].split("/")]
    elif k == "setwit":
        tx.set_witness(int(a[1]), [] if a[2] == "~" else [parse_bytes(y) for y in a[2].split("/")])
    elif k == "seq":
        tx.txs_in[int(a[1])].sequence = int(a[2])
    elif k == "idx":
        tx.txs_in[int(a[1])].previous_index = int(a[2])
    elif k == "phash":
        tx.txs_in[int(a[1])].previous_hash = parse_bytes(a[2])
    elif k == "oval":
        tx.txs_out[int(a[1])].coin_value = int(a[2])
    elif k == "oscript":
        tx.txs_out[int(a[1])].script = parse_bytes(a[2])
    elif k == "addin":
        h, i, sc, q, w = a[1].split(":")
        t = T.TxIn(parse_bytes(h), int(i), parse_bytes(sc), int(q))
        t.witness = [] if w == "~" else [parse_bytes(y) for y in w.split("/")]
        tx.txs_in.append(t)
    elif k == "delin":
        del tx.txs_in[int(a[1])]
    elif k == "addout":
        val, sc = a[1].split(":")
        tx.txs_out.append(T.TxOut(int(val), parse_bytes(sc)))
    elif k == "delout":
        del tx.txs_out[int(a[1])]
    elif k == "ver":
        tx.version = int(a[1])
    elif k == "lock":
        tx.lock_time = int(a[1])
    elif k == "unspents":
        tx.set_unspents(parse_unspents_text(coin, a[1]))
    else:
        raise KeyError(k)


def fresh_copy(coin, tx):
    """a brand-new object carrying the fields (and unspents) the object has now"""
    T = TX(coin)
    t2 = build_tx(coin, fields_of(tx))
    t2.unspents = [None if u is None else T.TxOut(u.coin_value, bytes(u.script)) for u in tx.unspents]
    return t2


def run_history(coin, fields, steps):
    """returns (answer line, None | how the object's answer differs from a fresh object's / from hashlib)"""
    tx = build_tx(coin, fields)
    answers = []
    why = None
    for n, st in enumerate(steps):
        if st in OBSERVERS:
            got = observe(tx, st)
            answers.append(got)
            if why is None:
                want = observe(fresh_copy(coin, tx), st)
                if got != want:
                    why = "step %d: %s on the object (after its history) differs from %s on a fresh object with the same fields" % (n, st, st)
                else:
                    f = fields_of(tx)
                    if fields_in_range(f) and len(f[2]) >= 1 and not got.startswith("err:"):
                        if st in ("id", "hash"):
                            d = ref_digest(coin, ref_legacy(f))
                            if got != (d[::-1].hex() if st == "id" else d.hex()):
                                why = "step %d: %s is not the digest of the current witness-stripped serialisation" % (n, st)
                        elif st in ("w_id", "w_hash"):
                            d = ref_digest(coin, ref_wire(f))
                            if got != (d[::-1].hex() if st == "w_id" else d.hex()):
                                why = "step %d: %s is not the digest of the current serialisation" % (n, st)
                        elif st == "as_bin" and got != hx(ref_wire(f)):
                            why = "step %d: as_bin() is not the wire form of the current fields" % n
        else:
            try:
                mutate(coin, tx, st)
                answers.append(".")
            except (IndexError, ValueError) as e:
                answers.append("err:" + type(e).__name__)
    return "ok " + "!".join(answers), why
