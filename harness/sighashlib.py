"""Shared by the C04 and C06 harness modules: an independent Python re-statement of the consensus signature-hash
algorithms (Bitcoin Core's CTransactionSignatureSerializer / FindAndDelete, BIP143, the BCH/BTG replay-protected
variants, Groestlcoin's single SHA-256), written from those definitions with struct/hashlib only, plus observation
helpers around the real pycoin objects (snapshots, recording wrappers that need no source change)."""
from __future__ import annotations

import hashlib
import struct

import txlib
from txlib import TX, compact_size

SIGHASH_ALL, SIGHASH_NONE, SIGHASH_SINGLE, SIGHASH_FORKID, SIGHASH_ANYONECANPAY = 1, 2, 3, 0x40, 0x80
OP_CODESEPARATOR = 0xAB
BTG_FORK_ID = 79
ONE = b"\x01" + b"\x00" * 31


def H_for(coin):
    if coin == "grs":
        return lambda b: hashlib.sha256(b).digest()
    return lambda b: hashlib.sha256(hashlib.sha256(b).digest()).digest()


# ------------------------------------------------------------------ scripts (Core: GetScriptOp, FindAndDelete, operator<<)

def get_script_op(s: bytes, pc: int):
    """Core GetScriptOp: (ok, opcode, new_pc); on failure new_pc is where the iterator was left"""
    if pc >= len(s):
        return False, None, pc
    opcode = s[pc]
    pc += 1
    if opcode <= 0x4E:
        if opcode < 0x4C:
            n = opcode
        elif opcode == 0x4C:
            if len(s) - pc < 1:
                return False, opcode, pc
            n = s[pc]
            pc += 1
        elif opcode == 0x4D:
            if len(s) - pc < 2:
                return False, opcode, pc
            n = s[pc] | (s[pc + 1] << 8)
            pc += 2
        else:
            if len(s) - pc < 4:
                return False, opcode, pc
            n = int.from_bytes(s[pc:pc + 4], "little")
            pc += 4
        if len(s) - pc < n:
            return False, opcode, pc
        pc += n
    return True, opcode, pc


def is_complete(s: bytes) -> bool:
    pc = 0
    while pc < len(s):
        ok, _op, pc = get_script_op(s, pc)
        if not ok:
            return False
    return True


def push_data(b: bytes) -> bytes:
    """CScript() << vector: chosen by length only"""
    n = len(b)
    if n < 0x4C:
        return bytes([n]) + b
    if n <= 0xFF:
        return b"\x4c" + bytes([n]) + b
    if n <= 0xFFFF:
        return b"\x4d" + struct.pack("<H", n) + b
    return b"\x4e" + struct.pack("<L", n) + b


def find_and_delete(script: bytes, b: bytes) -> bytes:
    if not b:
        return script
    result = bytearray()
    pc = pc2 = 0
    end = len(script)
    n_found = 0
    while True:
        result += script[pc2:pc]
        while end - pc >= len(b) and script[pc:pc + len(b)] == b:
            pc += len(b)
            n_found += 1
        pc2 = pc
        ok, _op, pc = get_script_op(script, pc)
        if not ok:
            break
    if n_found > 0:
        result += script[pc2:end]
        return bytes(result)
    return script


def script_code_for(code: bytes, sigs) -> bytes:
    for s in sigs:
        code = find_and_delete(code, push_data(s))
    return code


def serialize_script_code(code: bytes) -> bytes:
    """CTransactionSignatureSerializer::SerializeScriptCode"""
    it = 0
    n_sep = 0
    while True:
        ok, op, it = get_script_op(code, it)
        if not ok:
            break
        if op == OP_CODESEPARATOR:
            n_sep += 1
    out = bytearray(compact_size(len(code) - n_sep))
    it = 0
    it_begin = 0
    while True:
        ok, op, it = get_script_op(code, it)
        if not ok:
            break
        if op == OP_CODESEPARATOR:
            out += code[it_begin:it - 1]
            it_begin = it
    if it_begin != len(code):
        out += code[it_begin:it]
    return bytes(out)


# ------------------------------------------------------------------ legacy

def legacy_preimage(f, n_in: int, code: bytes, ht: int) -> bytes:
    version, lock, ins, outs = f
    acp = bool(ht & SIGHASH_ANYONECANPAY)
    single = (ht & 0x1F) == SIGHASH_SINGLE
    none = (ht & 0x1F) == SIGHASH_NONE
    b = bytearray(struct.pack("<L", version))
    n_inputs = 1 if acp else len(ins)
    b += compact_size(n_inputs)
    for n_input in range(n_inputs):
        if acp:
            n_input = n_in
        h, i, _s, q, _w = ins[n_input]
        b += h + struct.pack("<L", i)
        b += serialize_script_code(code) if n_input == n_in else compact_size(0)
        b += struct.pack("<L", 0 if (n_input != n_in and (single or none)) else q)
    n_outputs = 0 if none else (n_in + 1 if single else len(outs))
    b += compact_size(n_outputs)
    for n_output in range(n_outputs):
        if single and n_output != n_in:
            b += struct.pack("<q", -1) + compact_size(0)
        else:
            v, s = outs[n_output]
            b += struct.pack("<Q", v) + compact_size(len(s)) + s
    b += struct.pack("<L", lock) + struct.pack("<L", ht)
    return bytes(b)


def legacy_sighash(coin, f, n_in: int, code: bytes, ht: int) -> bytes:
    if (ht & 0x1F) == SIGHASH_SINGLE and n_in >= len(f[3]):
        return ONE
    return H_for(coin)(legacy_preimage(f, n_in, code, ht))


# ------------------------------------------------------------------ BIP143

def bip143_preimage(coin, f, n_in: int, code: bytes, amount: int, ht: int) -> bytes:
    H = H_for(coin)
    version, lock, ins, outs = f
    acp = bool(ht & SIGHASH_ANYONECANPAY)
    single = (ht & 0x1F) == SIGHASH_SINGLE
    none = (ht & 0x1F) == SIGHASH_NONE
    zero = b"\x00" * 32
    hash_prevouts = H(b"".join(h + struct.pack("<L", i) for h, i, *_ in ins)) if not acp else zero
    hash_sequence = H(b"".join(struct.pack("<L", q) for _h, _i, _s, q, _w in ins)) if not (acp or single or none) else zero
    if not single and not none:
        hash_outputs = H(b"".join(struct.pack("<Q", v) + compact_size(len(s)) + s for v, s in outs))
    elif single and n_in < len(outs):
        v, s = outs[n_in]
        hash_outputs = H(struct.pack("<Q", v) + compact_size(len(s)) + s)
    else:
        hash_outputs = zero
    h, i, _s, q, _w = ins[n_in]
    return (struct.pack("<L", version) + hash_prevouts + hash_sequence + h + struct.pack("<L", i) + compact_size(len(code)) + code
            + struct.pack("<Q", amount) + struct.pack("<L", q) + hash_outputs + struct.pack("<L", lock) + struct.pack("<L", ht))


def bip143_sighash(coin, f, n_in, code, amount, ht) -> bytes:
    return H_for(coin)(bip143_preimage(coin, f, n_in, code, amount, ht))


def forkid_sighash(coin, fork_value, f, n_in, code, amount, ht):
    """None = refused"""
    if not (ht & SIGHASH_FORKID):
        return None
    return bip143_sighash(coin, f, n_in, code, amount, ht | (fork_value << 8))


BIP143_FIELDS = [("nVersion", 4), ("hashPrevouts", 32), ("hashSequence", 32), ("outpoint", 36)]
BIP143_TAIL = [("amount", 8), ("nSequence", 4), ("hashOutputs", 32), ("nLockTime", 4), ("nHashType", 4)]


def which_bip143_field(a: bytes, b: bytes) -> str:
    """name of the first BIP143 item in which two preimages differ"""
    if len(a) != len(b):
        return "scriptCode (length)"
    pos = 0
    for name, n in BIP143_FIELDS:
        if a[pos:pos + n] != b[pos:pos + n]:
            return name
        pos += n
    tail = sum(n for _x, n in BIP143_TAIL)
    if a[pos:len(a) - tail] != b[pos:len(b) - tail]:
        return "scriptCode"
    pos = len(a) - tail
    for name, n in BIP143_TAIL:
        if a[pos:pos + n] != b[pos:pos + n]:
            return name
        pos += n
    return "none"


# ------------------------------------------------------------------ what consensus prescribes per class

def in_quantifier(f, idx, us=None, need_amount=False, ht=0) -> bool:
    """fields in wire range, idx names an input, (amount known and in range when needed), hash-type word fits 4 bytes"""
    if not txlib.fields_in_range(f) or not (0 <= idx < len(f[2])) or not (0 <= ht < 2 ** 32):
        return False
    if need_amount:
        if us is None or idx >= len(us) or us[idx] is None or not (0 <= us[idx][0] < 2 ** 64):
            return False
    return True


def spec_sighash(coin, f, us, idx, script, ht) -> str:
    """what `_signature_hash` of the class has to return: 'ok <hex>' | 'refused' | 'na' (no such input / spent amount unknown)"""
    if idx >= len(f[2]):
        return "na"
    if coin in ("btc", "ltc", "grs"):
        return "ok " + legacy_sighash(coin, f, idx, script, ht).hex()
    if idx >= len(us) or us[idx] is None:
        return "na"
    d = forkid_sighash(coin, BTG_FORK_ID if coin == "btg" else 0, f, idx, script, us[idx][0], ht)
    return "refused" if d is None else "ok " + d.hex()


def spec_segwit(coin, f, us, idx, script, ht) -> str:
    if idx >= len(f[2]) or idx >= len(us) or us[idx] is None:
        return "na"
    if coin == "btg":
        d = forkid_sighash(coin, BTG_FORK_ID, f, idx, script, us[idx][0], ht)
        return "refused" if d is None else "ok " + d.hex()
    return "ok " + bip143_sighash(coin, f, idx, script, us[idx][0], ht).hex()


# ------------------------------------------------------------------ real objects

def parse_us(s):
    """unspents text -> list of None | (value, script)"""
    if s == "~":
        return []
    res = []
    for x in s.split("|"):
        if x == "none":
            res.append(None)
        else:
            v, sc = x.split(":")
            res.append((int(v), txlib.parse_bytes(sc)))
    return res


def show_us(us) -> str:
    return "|".join("none" if u is None else "%d:%s" % (u[0], txlib.hx(u[1])) for u in us) or "~"


def build(coin, f, us):
    tx = txlib.build_tx(coin, f)
    T = TX(coin)
    tx.unspents = [None if u is None else T.TxOut(u[0], u[1]) for u in us]
    return tx


def snapshot(tx):
    """everything a signature-hash computation could disturb: the bytes, every field (by value), the unspents, and
    the identity of the list and item objects"""
    try:
        b = tx.as_bin()
    except Exception as e:  # noqa: BLE001
        b = "unserialisable:" + type(e).__name__
    return (b, txlib.fields_of(tx), [None if u is None else (u.coin_value, bytes(u.script)) for u in tx.unspents],
            id(tx.txs_in), id(tx.txs_out), [id(t) for t in tx.txs_in], [id(t) for t in tx.txs_out],
            [tuple(t.witness) if isinstance(t.witness, (list, tuple)) else t.witness for t in tx.txs_in])


def hex64(n: int) -> str:
    return "%064x" % n


# ------------------------------------------------------------------ observing Tx.check_solution (no source change)

import contextlib


@contextlib.contextmanager
def _patched(obj, name, value):
    had = name in vars(obj)
    old = vars(obj).get(name)
    setattr(obj, name, value)
    try:
        yield
    finally:
        if had:
            setattr(obj, name, old)
        else:
            delattr(obj, name)


def observe_checksol(tx, idx, flags=None):
    """run tx.check_solution(idx) with recording wrappers around the closures of _make_sighash_f /
    _make_witness_sighash_f and around generator.verify.  Returns (trace, vmap, vals, outcome):
    trace = [(kind, hash_type, script_code, sig_blobs, result)], vals = the messages handed to generator.verify,
    vmap[j] = index in trace of the closure call that produced vals[j] (-1 if none), outcome = 'ok' | exception class name"""
    from pycoin.ecdsa.secp256k1 import secp256k1_generator as G
    cls = tx.SolutionChecker
    trace, vals = [], []

    def wrap_factory(orig, kind):
        def factory(self, tx_in_idx):
            inner = orig(self, tx_in_idx)

            def closure(hash_type, sig_blobs, vm):
                r = inner(hash_type, sig_blobs, vm)
                trace.append((kind, hash_type, bytes(vm.script[vm.begin_code_hash:]), [bytes(s) for s in (sig_blobs or [])], r))
                return r
            return closure
        return factory

    orig_verify = G.verify

    def verify(public_pair, val, sig):
        vals.append(val)
        return orig_verify(public_pair, val, sig)

    with _patched(cls, "_make_sighash_f", wrap_factory(cls._make_sighash_f, "legacy")), \
            _patched(cls, "_make_witness_sighash_f", wrap_factory(cls._make_witness_sighash_f, "witness")), \
            _patched(G, "verify", verify):
        try:
            if flags is None:
                tx.check_solution(idx)
            else:
                tx.check_solution(idx, flags=flags)
            outcome = "ok"
        except Exception as e:  # noqa: BLE001
            outcome = type(e).__name__
    vmap = []
    for v in vals:
        js = [j for j, t in enumerate(trace) if t[4] == v]
        vmap.append(js[-1] if js else -1)
    return trace, vmap, vals, outcome


# ------------------------------------------------------------------ signed transactions over the standard puzzle kinds

KEYS = [1001, 1002, 1003, 0x7FFFFFFF12345]
_SIGN_CACHE = {}


def puzzles(coin):
    """(name, puzzle script, p2sh/p2wsh scripts needed to solve it) for the standard kinds of the network"""
    from pycoin.ecdsa.secp256k1 import secp256k1_generator as G
    from pycoin.encoding.hash import hash160
    from pycoin.encoding.sec import public_pair_to_sec
    if coin in _SIGN_CACHE:
        return _SIGN_CACHE[coin]
    net = txlib.NETS[coin]
    secs = [public_pair_to_sec(G * k, compressed=True) for k in KEYS]
    usec = public_pair_to_sec(G * KEYS[3], compressed=False)
    ms = net.contract.for_multisig(2, secs[:3])
    res = [("p2pkh", net.contract.for_p2pkh(hash160(secs[0])), []),
           ("p2pkh_u", net.contract.for_p2pkh(hash160(usec)), []),
           ("p2pk", net.contract.for_p2pk(secs[1]), []),
           ("p2sh_ms", net.contract.for_p2sh(hash160(ms)), [ms]),
           ("ms", ms, [])]
    if hasattr(net.contract, "for_p2pkh_wit"):
        res.append(("p2wpkh", net.contract.for_p2pkh_wit(hash160(secs[1])), []))
        res.append(("p2wsh_ms", net.contract.for_p2sh_wit(hashlib.sha256(ms).digest()), [ms]))
        w = net.contract.for_p2pkh_wit(hash160(secs[2]))
        res.append(("p2sh_p2wpkh", net.contract.for_p2sh(hash160(w)), [w]))
    _SIGN_CACHE[coin] = res
    return res


def sign_tx(coin, kinds, hash_type, n_out=2, version=1, lock_time=0, sequences=None, amounts=None):
    """a transaction of the coin's class with one input per puzzle kind, signed by pycoin itself with `hash_type`"""
    from pycoin.ecdsa.secp256k1 import secp256k1_generator as G
    from pycoin.solve.utils import build_hash160_lookup, build_p2sh_lookup
    T = TX(coin)
    pz = {n: (s, extra) for n, s, extra in puzzles(coin)}
    ins, us, scripts = [], [], []
    for j, kd in enumerate(kinds):
        s, extra = pz[kd]
        seq = 0xFFFFFFFF if sequences is None else sequences[j]
        ins.append(T.TxIn(bytes([0x21 + j]) * 32, j, b"", seq))
        us.append(T.TxOut((10000 + 1000 * j) if amounts is None else amounts[j], s))
        scripts += extra
    outs = [T.TxOut(4000 + 100 * j, pz["p2pkh"][0] if j % 2 == 0 else b"\x51") for j in range(n_out)]
    tx = T(version, ins, outs, lock_time)
    tx.set_unspents(us)
    tx.sign(build_hash160_lookup(KEYS, [G]), hash_type=hash_type, p2sh_lookup=build_p2sh_lookup(scripts))
    return tx


def sign_tx_mixed(coin, kinds, pass_hash_types, n_out=2, version=1, lock_time=0, sequences=None, amounts=None):
    """as sign_tx, but signed by pycoin in len(pass_hash_types) passes, each with its own hash type: pass j < last supplies only
    KEYS[j] (one cosigner of the 2-of-3 multisig kinds), the last pass all keys: a multisig input then carries signatures with
    DIFFERENT hash types, and the checker of the last pass verifies the earlier signature before it makes its own"""
    from pycoin.ecdsa.secp256k1 import secp256k1_generator as G
    from pycoin.solve.utils import build_hash160_lookup, build_p2sh_lookup
    T = TX(coin)
    pz = {n: (s, extra) for n, s, extra in puzzles(coin)}
    ins, us, scripts = [], [], []
    for j, kd in enumerate(kinds):
        s, extra = pz[kd]
        seq = 0xFFFFFFFF if sequences is None else sequences[j]
        ins.append(T.TxIn(bytes([0x21 + j]) * 32, j, b"", seq))
        us.append(T.TxOut((10000 + 1000 * j) if amounts is None else amounts[j], s))
        scripts += extra
    outs = [T.TxOut(4000 + 100 * j, pz["p2pkh"][0] if j % 2 == 0 else b"\x51") for j in range(n_out)]
    tx = T(version, ins, outs, lock_time)
    tx.set_unspents(us)
    ms_idx = [j for j, kd in enumerate(kinds) if kd.endswith("ms")]
    for j, ht in enumerate(pass_hash_types):
        last = j == len(pass_hash_types) - 1
        keys = KEYS if last else [KEYS[j]]
        tx.sign(build_hash160_lookup(keys, [G]), hash_type=ht, p2sh_lookup=build_p2sh_lookup(scripts),
                tx_in_idx_set=None if last else ms_idx)
    return tx


def us_of(tx):
    return [None if u is None else (u.coin_value, bytes(u.script)) for u in tx.unspents]
