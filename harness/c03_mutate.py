"""C03 mutation self-test (guide rule 10): applies one- or two-token mutations of the anchored pycoin code to a *snapshot* of the worktree
(MUT_SNAPSHOT, made with `git -C $PYCOIN_REPO archive HEAD | tar -x -C $MUT_SNAPSHOT`), runs `./check C03` against the snapshot and
reports whether a VIOLATION with a concrete replay came out.  Usage: /venv/bin/python harness/c03_mutate.py [mutation names…]"""
import subprocess, sys, os, json, time
GITREPO=os.environ.get("PYCOIN_REPO","/work/vm/repo"); REPO=os.environ.get("MUT_SNAPSHOT","/tmp/vm-snap"); VERIF=os.path.dirname(os.path.dirname(os.path.abspath(__file__)))
M=[
 ("opcount-200","pycoin/vm/VM.py","MAX_OP_COUNT = 201","MAX_OP_COUNT = 200"),
 ("blob-ge","pycoin/vm/VM.py","len(data) > self.MAX_BLOB_LENGTH","len(data) >= self.MAX_BLOB_LENGTH"),
 ("stack-ge","pycoin/vm/VM.py","len(self.stack) + len(self.altstack) > self.MAX_STACK_SIZE","len(self.stack) + len(self.altstack) >= self.MAX_STACK_SIZE"),
 ("scriptlen-ge","pycoin/vm/VM.py","len(self.script) > self.MAX_SCRIPT_LENGTH","len(self.script) >= self.MAX_SCRIPT_LENGTH"),
 ("sub-swapped","pycoin/satoshi/intops.py","do_OP_SUB = make_bin_op(lambda x, y: x - y)","do_OP_SUB = make_bin_op(lambda x, y: y - x)"),
 ("lte-lt","pycoin/satoshi/intops.py","do_OP_LESSTHANOREQUAL = make_bool_bin_op(lambda x, y: x <= y)","do_OP_LESSTHANOREQUAL = make_bool_bin_op(lambda x, y: x < y)"),
 ("within-le","pycoin/satoshi/intops.py","ok = v2 <= v1 < v3","ok = v2 <= v1 <= v3"),
 ("bounds-5","pycoin/satoshi/intops.py","if len(vm[-1]) > 4:","if len(vm[-1]) > 5:"),
 ("rot","pycoin/satoshi/stackops.py","def do_OP_ROT(stack: Any) -> None:\n    stack.append(stack.pop(-3))","def do_OP_ROT(stack: Any) -> None:\n    stack.append(stack.pop(-2))"),
 ("2over","pycoin/satoshi/stackops.py","    stack.append(stack[-4])\n    stack.append(stack[-4])","    stack.append(stack[-4])\n    stack.append(stack[-3])"),
 ("else-ge","pycoin/vm/ConditionalStack.py","        if self.false_count > 1:\n            return","        if self.false_count >= 1:\n            return"),
 ("if-nested","pycoin/vm/ConditionalStack.py","        if self.false_count > 0:\n            self.false_count += 1\n            return\n        if reverse_bool","        if reverse_bool"),
 ("minimalif-always","pycoin/satoshi/miscops.py","if vm.flags & VERIFY_MINIMALIF:","if True:"),
 ("cltv-ge","pycoin/satoshi/miscops.py","if max_lock_time > vm.tx_context.lock_time:","if max_lock_time >= vm.tx_context.lock_time:"),
 ("csv-version","pycoin/satoshi/miscops.py","if vm.tx_context.version < 2:","if vm.tx_context.version < 1:"),
 ("csv-mask","pycoin/satoshi/miscops.py","SEQUENCE_LOCKTIME_MASK = 0xFFFF","SEQUENCE_LOCKTIME_MASK = 0xFFFE"),
 ("sig-73","pycoin/satoshi/checksigops.py","if ls < 9 or ls > 73:","if ls < 9 or ls > 72:"),
 ("nulldummy-drop","pycoin/satoshi/checksigops.py","if vm.flags & VERIFY_NULLDUMMY and hack_byte != b\"\":","if False and hack_byte != b\"\":"),
 ("nullfail-drop","pycoin/satoshi/checksigops.py","            if any_nonblank:\n                raise","            if False:\n                raise"),
 ("keycount-21","pycoin/satoshi/checksigops.py","key_count > 20","key_count > 21"),
 ("opcount-keys","pycoin/satoshi/checksigops.py","    vm.op_count += key_count\n","    pass\n"),
 ("hashtype-ge","pycoin/satoshi/checksigops.py","hash_type > SIGHASH_SINGLE","hash_type >= SIGHASH_SINGLE"),
 ("lows-le","pycoin/satoshi/checksigops.py","if s > order // 2:","if s >= order // 2:"),
 ("p2sh-pushonly-drop","pycoin/coins/bitcoin/P2SChecker.py","            self._check_script_push_only(tx_context.solution_script)  # type: ignore[attr-defined]\n","            pass\n"),
 ("witprog-41","pycoin/coins/bitcoin/SegwitChecker.py","if size < 4 or size > 42:","if size < 4 or size > 41:"),
 ("p2wpkh-items","pycoin/coins/bitcoin/SegwitChecker.py","if len(witness_solution_stack) != 2:","if len(witness_solution_stack) < 2:"),
 ("wit-unexpected-drop","pycoin/coins/bitcoin/SegwitChecker.py","            if len(tx_context.witness_solution_stack) > 0:\n                raise","            if False:\n                raise"),
 ("minimal-const","pycoin/vm/ScriptStreamer.py","if verify_minimal_data and data in const_values:","if False and data in const_values:"),
 ("minimal-num","pycoin/satoshi/IntStreamer.py","if len(ba) <= 1 or ((ba[1] & 0x80) == 0):","if len(ba) <= 1 or ((ba[1] & 0x80) != 0):"),
 ("disabled-mul","pycoin/satoshi/miscops.py","OP_DIV OP_MOD OP_LSHIFT OP_RSHIFT","OP_MOD OP_LSHIFT OP_RSHIFT"),
 ("table-minmax","pycoin/satoshi/opcodes.py","(\"OP_MIN\", 163),\n    (\"OP_MAX\", 164),","(\"OP_MIN\", 164),\n    (\"OP_MAX\", 163),"),
 ("verif-dead","pycoin/satoshi/miscops.py","d[opcode] = make_bad_opcode(opcode, even_outside_conditional=True)\n    DISABLED","d[opcode] = make_bad_opcode(opcode, even_outside_conditional=False)\n    DISABLED"),
 ("reserved-count","pycoin/satoshi/miscops.py","    vm.op_count -= 1\n","    pass\n"),
 ("hash256-single","pycoin/satoshi/stackops.py","stack.append(double_sha256(stack.pop()))","stack.append(hashlib.sha256(stack.pop()).digest())"),
 ("cleanstack-drop","pycoin/coins/bitcoin/SolutionChecker.py","if flags and flags & VERIFY_CLEANSTACK and len(stack) != 1:","if flags and flags & VERIFY_CLEANSTACK and len(stack) > 2:"),
 ("sigpushonly-drop","pycoin/coins/bitcoin/SolutionChecker.py","        if flags & VERIFY_SIGPUSHONLY:\n            self._check_script_push_only","        if False:\n            self._check_script_push_only"),
 ("negzero","pycoin/satoshi/IntStreamer.py","        is_negative = (i & 0x80) > 0\n","        is_negative = (i & 0x80) > 0\n        if is_negative and len(ba) == 1 and v == 0:\n            return -1\n"),
 ("csv-disable-bit","pycoin/satoshi/miscops.py","    if sequence & SEQUENCE_LOCKTIME_DISABLE_FLAG:\n        return","    if sequence & SEQUENCE_LOCKTIME_TYPE_FLAG:\n        return"),
 ("strictenc-u","pycoin/satoshi/checksigops.py","        if fb == 4:\n            if lb == 65:","        if fb == 4:\n            if lb >= 65:"),
 ("multisig-sigcount","pycoin/satoshi/checksigops.py","signature_count > key_count","signature_count > key_count + 1"),
]

M += [
 ("intsize-5","pycoin/coins/bitcoin/VM.py","MAX_INT_SIZE = 4","MAX_INT_SIZE = 5"),
 ("verif-dead","pycoin/satoshi/miscops.py","    for opcode in BAD_OPCODES:\n        d[opcode] = make_bad_opcode(opcode, even_outside_conditional=True)","    for opcode in BAD_OPCODES:\n        d[opcode] = make_bad_opcode(opcode, even_outside_conditional=False)"),
 ("strictenc-u","pycoin/satoshi/checksigops.py","        if fb == 4:\n            if lb == 65:","        if fb == 4:\n            if lb >= 65:"),
 ("multisig-sigcount","pycoin/satoshi/checksigops.py","signature_count > key_count","signature_count > key_count + 1"),
 ("codesep-pc","pycoin/satoshi/miscops.py","vm.begin_code_hash = vm.pc","vm.begin_code_hash = vm.pc - 1"),
 ("wsh-hash-drop","pycoin/coins/bitcoin/SegwitChecker.py","if sha256(puzzle_script).digest() != witness_program:","if False:"),
 ("p2sh-20","pycoin/coins/bitcoin/P2SChecker.py","and script_public_key[1] == 20","and script_public_key[1] >= 19"),
 ("malleated-p2sh","pycoin/coins/bitcoin/SegwitChecker.py","if tx_context.solution_script != expected_solution_script:","if len(tx_context.solution_script) < len(expected_solution_script):"),
 ("wit-items-520","pycoin/coins/bitcoin/SegwitChecker.py","                for s in stack:\n                    if len(s) > self.VM.MAX_BLOB_LENGTH:","                for s in stack[1:]:\n                    if len(s) > self.VM.MAX_BLOB_LENGTH:"),
 ("hybrid-parity","pycoin/satoshi/checksigops.py","if prefix != 4 and (y & 1) != (prefix & 1):","if False:"),
 ("key-x-range","pycoin/satoshi/checksigops.py","        if x >= p:\n            return None\n        try:","        try:"),
 ("lax-seqlen","pycoin/satoshi/der.py","        pos += lenbyte\n    rpos","        pos += lenbyte + 1\n    rpos"),
 ("ifdup-any","pycoin/satoshi/miscops.py","if vm.bool_from_script_bytes(vm[-1]):\n        vm.append(vm[-1])","if vm[-1]:\n        vm.append(vm[-1])"),
 ("pick-off","pycoin/satoshi/intops.py","vm.append(vm[-v - 1])","vm.append(vm[-v - 2])"),
 ("roll-noremove","pycoin/satoshi/intops.py","vm.append(vm.pop(-v - 1))","vm.append(vm[-v - 1])"),
 ("tuck","pycoin/satoshi/stackops.py","    stack.append(v1)\n    stack.append(v2)\n    stack.append(v1)","    stack.append(v2)\n    stack.append(v1)\n    stack.append(v1)"),
 ("abs","pycoin/satoshi/intops.py","do_OP_ABS = make_unary_num_op(lambda x: abs(x))","do_OP_ABS = make_unary_num_op(lambda x: x)"),
 ("booland","pycoin/satoshi/intops.py","do_OP_BOOLAND = make_bool_bin_op(lambda x, y: x and y)","do_OP_BOOLAND = make_bool_bin_op(lambda x, y: x or y)"),
 ("numenc-sign","pycoin/satoshi/IntStreamer.py","        if ba[-1] >= 128:","        if ba[-1] > 128:"),
 ("eval-false-empty","pycoin/coins/bitcoin/SolutionChecker.py","if len(stack) == 0 or not vm.bool_from_script_bytes(stack[-1]):","if len(stack) > 0 and not vm.bool_from_script_bytes(stack[-1]):"),
 ("witness-needs-p2sh","pycoin/coins/bitcoin/SegwitChecker.py","        if not flags & VERIFY_WITNESS:\n            return None","        if not flags & VERIFY_WITNESS or is_p2sh:\n            return None"),
 ("discourage-wit","pycoin/coins/bitcoin/SegwitChecker.py","elif flags & VERIFY_DISCOURAGE_UPGRADABLE_WITNESS_PROGRAM:","elif False:"),
 ("nop-discourage","pycoin/satoshi/miscops.py",'NOP_SET = "OP_NOP1 OP_NOP3 OP_NOP4','NOP_SET = "OP_NOP1 OP_NOP3'),
 ("checksigverify","pycoin/satoshi/checksigops.py","def do_OP_CHECKSIGVERIFY(vm: Any) -> None:\n    do_OP_CHECKSIG(vm)\n    v = vm.bool_from_script_bytes(vm.pop())\n    if not v:","def do_OP_CHECKSIGVERIFY(vm: Any) -> None:\n    do_OP_CHECKSIG(vm)\n    v = vm.bool_from_script_bytes(vm.pop())\n    if False:"),
 ("opcount-keys-after-pop","pycoin/satoshi/checksigops.py","    vm.op_count += key_count\n","    vm.op_count += len(public_pair_blobs)\n"),
 ("multisig-order","pycoin/satoshi/checksigops.py","    public_pair_blobs = [vm.pop() for _ in range(key_count)]\n    public_pair_blobs.reverse()","    public_pair_blobs = [vm.pop() for _ in range(key_count)]"),
]
M += [
 ("nullfail-lazy","pycoin/satoshi/checksigops.py","            if any_nonblank:\n","            if (flags & VERIFY_NULLFAIL) and any(len(s) > 0 for s in sig_blobs_remaining + [sig_blob]):\n"),
 ("wpkh-items-unchecked","pycoin/coins/bitcoin/SegwitChecker.py","                for s in stack:\n                    if len(s) > self.VM.MAX_BLOB_LENGTH:","                for s in (stack if len(witness_program) == 32 else []):\n                    if len(s) > self.VM.MAX_BLOB_LENGTH:"),
]
# later entries replace earlier ones of the same name
M=list({m[0]: m for m in M}.values())
only=sys.argv[1:] 
res=[]
for name,f,old,new in M:
    if only and name not in only: continue
    p=os.path.join(REPO,f); s=open(p).read()
    if s.count(old)!=1:
        print(name,"PATTERN-COUNT",s.count(old)); continue
    open(p,"w").write(s.replace(old,new))
    t=time.time()
    try:
        r=subprocess.run(["./check","C03"],cwd=VERIF,env=dict(os.environ,PYCOIN_REPO=REPO,VERIF_SEED=os.environ.get("VERIF_SEED","0")),capture_output=True,text=True,timeout=1200)
        out=r.stdout+r.stderr
        nv=out.count("VIOLATION property=C03")
        first=[l for l in out.split("\n") if l.startswith("VIOLATION")][:1]
        what=""
        if first:
            rp=first[0].split("replay=")[1].split()[0]
            j=json.load(open(os.path.join(VERIF,rp)))
            what=(j.get("what","")[:70]+" | "+str(j.get("input",""))[:90])
        print("%-22s rc=%d violations=%d %.0fs %s"%(name,r.returncode,nv,time.time()-t,what if nv else out.strip().split("\n")[-1][:150]),flush=True)
    finally:
        open(p,"w").write(subprocess.run(["git","show","HEAD:"+f],cwd=GITREPO,capture_output=True,text=True).stdout)
