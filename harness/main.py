"""./check driver: translate -> lake build -> audit -> correspondence + oracles -> evidence."""
from __future__ import annotations

import argparse
import hashlib
import importlib
import json
import os
import sys
import time
import traceback
from pathlib import Path

sys.path.insert(0, str(Path(__file__).resolve().parent))
import lib  # noqa: E402
from lib import VERIF, LEAN, Infra  # noqa: E402

ALL = ["C%02d" % i for i in range(1, 21)]

TRUSTED_BASE = [
    "Lean 4.33.0 kernel (thorough tier re-checks the property modules with leanchecker)",
    "axioms: subset of {propext, Classical.choice, Quot.sound}, audited with #print axioms on every property theorem on every run",
    "no sorry/admit/axiom/native_decide/bv_decide/implemented_by/unsafe/maxHeartbeats 0 (grepped on every run, comments stripped)",
    "translator translate/gen.py (regenerates lean/Pycoin/Gen/*.lean from /repo on every run)",
    "correspondence harness harness/props/<id>.py: model (compiled Lean driver) vs implementation on generated inputs, same op lines",
    "modelled, not verified: Python int/bytes/struct/hashlib/hmac/decimal semantics as rendered in lean/Pycoin/Py and Model/*",
]


def setup(verbose=True) -> int:
    t = time.time()
    rc, out = lib.sh(["/venv/bin/python", str(VERIF / "translate" / "gen.py")], env=dict(os.environ, PYTHONPATH=str(lib.REPO)))
    if rc != 0:
        print(out[-3000:])
        print("SETUP: translator failed")
        return 2
    props = [p for p in ALL if (LEAN / "Pycoin" / "Props" / (p + ".lean")).exists()]
    rc, out = lib.lake_build(["drv"] + ["Pycoin.Props." + p for p in props])
    if rc != 0:
        print(out[-6000:])
        print("SETUP: lake build failed")
        return 2
    if verbose:
        print("setup ok: %d property modules, %.0fs" % (len(props), time.time() - t))
    return 0


def write_replay(pid: str, v: dict, extra: dict) -> str:
    d = VERIF / "replays"
    d.mkdir(exist_ok=True)
    body = dict(v, property=pid, **extra)
    h = hashlib.sha256(json.dumps(body, sort_keys=True, default=str).encode()).hexdigest()[:12]
    p = d / ("%s-%s.json" % (pid, h))
    body["replay_cmd"] = "./check %s --replay replays/%s" % (pid, p.name)
    p.write_text(json.dumps(body, indent=1, default=str))
    return "replays/" + p.name


def _tree_dirty() -> bool:
    rc, out = lib.sh(["git", "-C", str(lib.REPO), "status", "--porcelain", "--untracked-files=no"])
    return rc == 0 and bool(out.strip())


def run_property(pid: str, tier: str, seed: int, replay: str | None) -> int:
    t0 = time.time()
    mod = importlib.import_module("props." + pid.lower())
    ctx = lib.Ctx(pid, tier, seed)

    # 1. translate (Gen/*.lean from the working tree)
    proof_problems: list[str] = []
    tie_notes: list[str] = []
    rc, out = lib.sh(["/venv/bin/python", str(VERIF / "translate" / "gen.py")], env=dict(os.environ, PYTHONPATH=str(lib.REPO)))
    if rc != 0:
        # The source no longer has the shape a translator module reads its tables from (a rewrite, harmful or not).
        # The brief allows the tie between model and code to be checked in either of two ways; on this run the
        # regeneration tie is unavailable for those tables, so the committed tables stay, the correspondence tie carries
        # the run with an escalated budget, and the verdict comes from the correspondence and the oracles.
        last = [l for l in out.strip().split("\n") if l.startswith("TRANSLATOR-FAILED")]
        tie_notes.append("translator could not regenerate some tables from this tree (%s): committed tables kept, "
                         "correspondence budget escalated" % (last[-1][:600] if last else out.strip().split("\n")[-1][:300]))
        os.environ["VERIF_ESCALATE"] = "1"

    # 1b. source fingerprint: when an anchored file differs from the committed fingerprint (someone changed the code the
    # property rests on) the quick tier of this run gets a larger case budget (bounded, lib.Ctx.n); never an alarm by itself
    try:
        import covlib
        fp_changed = covlib.fingerprint_changed(pid)
    except Exception:  # noqa: BLE001
        fp_changed = []
    if fp_changed and tier == "quick" and not replay and os.environ.get("VERIF_NO_ESCALATE") != "1":
        os.environ["VERIF_ESCALATE"] = "1"
        ctx.note("anchored source differs from the committed fingerprint (%s): quick case budgets raised for this run (at most 6x, "
                 "never beyond the thorough budget)" % ", ".join(fp_changed)[:600])

    # 2. build: driver first (needed for correspondence), then the property theorems
    rc, out = lib.lake_build(["drv"])
    if rc != 0:
        errs = [l for l in out.split("\n") if l.startswith("error:")]
        # fall back to the tables of the committed /verif tree so that the correspondence can still run; if the driver
        # builds with those, it is the regenerated tables (i.e. the source change) that broke it
        lib.sh(["git", "checkout", "--", "lean/Pycoin/Gen"], cwd=VERIF)
        rc2, out2 = lib.lake_build(["drv"])
        if rc2 != 0:
            raise Infra("driver build failed:\n" + out[-4000:])
        tie_notes.append("the model no longer builds against the tables regenerated from this tree (%s): committed tables kept, "
                         "correspondence budget escalated" % " | ".join(errs[:3])[:600])
        os.environ["VERIF_ESCALATE"] = "1"
    rc, out = lib.lake_build(["Pycoin.Props." + pid])
    build_ok = rc == 0
    if not build_ok:
        errs = [l for l in out.split("\n") if l.startswith("error:")]
        proof_problems.append("lake build Pycoin.Props.%s failed: %s" % (pid, " | ".join(errs[:5])[:1500]))

    # 3. forbidden tokens + axiom audit
    tokens = lib.forbidden_tokens()
    if tokens:
        proof_problems.append("forbidden tokens: " + "; ".join(tokens[:10]))
    names, ok_names, problems = ([], [], [])
    if build_ok:
        names, ok_names, problems = lib.audit(pid)
        proof_problems += problems
    else:
        names = lib.property_theorems(pid)

    if replay:
        entry = json.loads((VERIF / replay).read_text() if not os.path.isabs(replay) else Path(replay).read_text())
        op = entry.get("input")
        print("replaying:", op)
        if isinstance(op, str) and op and not op.startswith("<"):
            impl = mod.impl(op)
            model = lib.run_driver([op])[0]
            orc = mod.oracle(op, impl) if hasattr(mod, "oracle") else None
            print("implementation:", impl)
            print("model         :", model)
            print("oracle        :", orc if orc else "holds / none")
            cn = getattr(mod, "canon", None)
            bad = (cn(op, impl) if cn else impl) != (cn(op, model) if cn else model) or bool(orc)
            if bad:
                print("VIOLATION property=%s replay=%s" % (pid, replay))
            return 1 if bad else 0
        print("replay entry names a proof obligation, not an input:", entry.get("what"))
        return 1 if proof_problems else 0

    # 4. corpus + generated cases; implementation evaluated in-process
    n_oracle_checked = 0
    seen = set()
    ops: list[tuple[str, str, str]] = []  # (op, impl, kind)
    def emit(op: str, kind: str = ""):
        if op in seen:
            return
        seen.add(op)
        ops.append((op, mod.impl(op), kind or op.split(" ", 1)[0]))
    corpus = VERIF / "corpus" / (pid + ".txt")
    if corpus.exists():
        for l in corpus.read_text().split("\n"):
            l = l.strip()
            if l and not l.startswith("#"):
                emit(l, "corpus")
    mod.gen(ctx, emit)
    model_out = lib.run_driver([o[0] for o in ops])

    has_oracle = hasattr(mod, "oracle")
    canon = getattr(mod, "canon", None)
    diffs = []
    for (op, impl, kind), mo in zip(ops, model_out):
        ctx.kind_hist[kind] = ctx.kind_hist.get(kind, 0) + 1
        if mo == "bad-op":
            raise Infra("model driver does not understand: %s" % op[:300])
        if has_oracle:
            why = mod.oracle(op, impl)
            n_oracle_checked += 1
            if why:
                ctx.violation(why, op, expected="property holds on the implementation", observed=impl, kind="oracle")
        # optional canonicalisation of both answers before they are compared (what the property does not speak about, e.g.
        # WHICH rule rejected a transaction, must not raise an alarm)
        if (canon(op, impl) if canon else impl) != (canon(op, mo) if canon else mo):
            diffs.append((op, impl, mo))

    # 5. broken correspondence: search the neighbourhood for an input on which the property itself fails
    for op, impl, mo in diffs[:50]:
        found = None
        if has_oracle and hasattr(mod, "neighbours"):
            for op2 in mod.neighbours(op, ctx.rng):
                why = mod.oracle(op2, mod.impl(op2))
                if why:
                    found = (op2, why)
                    break
        already = any(v["input"] == op for v in ctx.violations)
        if found:
            ctx.violation(found[1], found[0], expected="property holds", observed=mod.impl(found[0]), kind="oracle-after-diff")
        elif not already:
            ctx.violation("correspondence broken for op `%s`: model and implementation disagree" % op.split(" ", 1)[0],
                          op, expected=mo, observed=impl, kind="correspondence")

    # 6. known findings
    known = lib.load_known(pid)
    active = {f["key"]: f for f in known.get("findings", [])}
    preds = getattr(mod, "KNOWN", {})
    reported = []
    for v in ctx.violations:
        hit = None
        for key, f in active.items():
            pred = preds.get(key)
            try:
                if pred and pred(v):
                    hit = key
                    break
            except Exception:
                pass
        if hit:
            ctx.known_hits[hit] = ctx.known_hits.get(hit, 0) + 1
        else:
            reported.append(v)
    for key in sorted(active):
        # a listed finding is printed whether or not this seed happened to hit it: the witness is in the corpus
        print("KNOWN-FINDING: property=%s %s (%s; hit %d times this run)" % (pid, key, active[key]["what"], ctx.known_hits.get(key, 0)))

    # 7. verdict
    rc = 0
    lines = []
    # keep one violation per (kind, op family, message) to bound output
    uniq = {}
    for v in reported:
        k = (v["kind"], str(v["input"]).split(" ", 1)[0], v["what"][:60])
        uniq.setdefault(k, v)
    for v in list(uniq.values())[:20]:
        path = write_replay(pid, v, {"tier": tier, "seed": seed})
        tail = " no-failing-input-found" if v["kind"] == "correspondence" else ""
        lines.append("VIOLATION property=%s replay=%s%s" % (pid, path, tail))
        rc = 1
    if proof_problems and not any(v["kind"] != "correspondence" for v in reported):
        v = {"what": "proof obligation no longer checks", "input": "<proof> " + "; ".join(proof_problems)[:3000],
             "expected": "all property theorems of Props/%s.lean elaborate with allowed axioms" % pid, "observed": proof_problems,
             "kind": "proof", "theorems": names}
        path = write_replay(pid, v, {"tier": tier, "seed": seed})
        lines.append("VIOLATION property=%s replay=%s no-failing-input-found" % (pid, path))
        rc = 1
    elif proof_problems:
        ctx.note("proof obligations broken as well: " + "; ".join(proof_problems)[:1000])

    # thorough: independent re-check of the compiled property module
    checker_note = ""
    if tier == "thorough" and build_ok and os.environ.get("VERIF_NO_LEANCHECKER") != "1":
        crc, cout = lib.sh(["lake", "env", "leanchecker", "Pycoin.Props." + pid], cwd=LEAN, timeout=7200)
        checker_note = "leanchecker Pycoin.Props.%s: rc=%d" % (pid, crc)
        if crc != 0:
            ctx.note("leanchecker failed: " + cout[-500:])
            raise Infra("leanchecker failed: " + cout[-1000:])

    try:
        import covlib
        cov = covlib.summary(pid, os.environ.get("VERIF_COV_DIR"))
        if cov:
            ctx.extra_cov["anchored_lines"] = cov
    except Exception as e:  # measurement only: never affects the verdict
        ctx.note("anchored-line coverage unavailable: %r" % (e,))

    distinct_nt = len({o[0] for o in ops if not getattr(mod, "trivial", lambda _op: False)(o[0])})
    rnd = lib.random.Random(seed)
    samples = [{"op": o[0][:300], "impl": o[1][:300]} for o in rnd.sample(ops, min(5, len(ops)))]
    ev = {
        "property_id": pid,
        "tier": tier,
        "seed": seed,
        "level": "proof",
        "coverage": {
            "obligations": len(names),
            "discharged": len(ok_names),
            "checker_cmd": "cd lean && lake build Pycoin.Props.%s && lake env lean .lake/audit/%s.lean  # #print axioms of every property theorem%s"
                           % (pid, pid, "; " + checker_note if checker_note else ""),
            "trusted_base": TRUSTED_BASE + list(getattr(mod, "TRUSTED", [])),
            "theorems": ok_names,
            "theorem_statements": lib.theorem_statements(pid),
            "partial_or_refuted": [n for n in names if n.endswith("_partial") or n.endswith("_refuted")],
            "evaluations": len(ops),
            "distinct_nontrivial": distinct_nt,
            "rule": getattr(mod, "RULE", "op lines generated by harness/props/%s.py; distinct = distinct op line; non-trivial = not flagged trivial by the module" % pid.lower()),
            "traces_validated_against_impl": len(ops),
            "oracle_checked_on_impl": n_oracle_checked,
            "correspondence_diffs": len(diffs),
            "op_histogram": ctx.kind_hist,
            "samples": samples,
            "known_findings_hit": ctx.known_hits,
            "notes": ctx.notes + tie_notes,
            "tie": "correspondence only (tables not regenerated on this run)" if tie_notes else "regenerated tables + correspondence",
            **ctx.extra_cov,
        },
        "assumptions": list(getattr(mod, "ASSUMPTIONS", [])),
        "wall_s": round(time.time() - t0, 2),
        "violations": len(lines),
    }
    (VERIF / "evidence").mkdir(exist_ok=True)
    (VERIF / "evidence" / (pid + ".json")).write_text(json.dumps(ev, indent=1, default=str))
    for l in lines:
        print(l)
    print("%s %s seed=%d: %d theorems (%d audited ok), %d cases, %d diffs, %d violations, %.1fs"
          % (pid, tier, seed, len(names), len(ok_names), len(ops), len(diffs), len(lines), time.time() - t0))
    return rc


def main() -> int:
    ap = argparse.ArgumentParser()
    ap.add_argument("pid", nargs="?")
    ap.add_argument("--setup", action="store_true")
    ap.add_argument("--fingerprint", action="store_true", help="rewrite fingerprints/*.json from the current tree of pycoin")
    ap.add_argument("--tier", default=os.environ.get("VERIF_TIER") or "quick")
    ap.add_argument("--replay")
    a = ap.parse_args()
    if a.fingerprint:
        import covlib
        covlib.write_fingerprints()
        print("fingerprints written")
        return 0
    if a.setup:
        return setup()
    if not a.pid:
        ap.error("property id required")
    tier = a.tier if a.tier in ("quick", "thorough") else "quick"
    try:
        seed = int(os.environ.get("VERIF_SEED", "0") or 0)
    except ValueError:
        seed = 0
    # watchdog: a check always ends (exit 2 = infrastructure/timeout, never a VIOLATION)
    import signal
    def _timeout(*_a):
        print("INFRA-ERROR: check exceeded its time limit")
        os._exit(2)
    signal.signal(signal.SIGALRM, _timeout)
    signal.alarm(int(os.environ.get("VERIF_TIME_LIMIT", "2400" if tier == "quick" else "14400")))
    try:
        return run_property(a.pid.upper(), tier, seed, a.replay)
    except Infra as e:
        print("INFRA-ERROR:", e)
        return 2
    except Exception:
        traceback.print_exc()
        print("INFRA-ERROR: harness crashed")
        return 2


if __name__ == "__main__":
    sys.exit(main())
