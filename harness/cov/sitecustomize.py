"""Line coverage of the pycoin working tree for every Python process a check starts (parent and workers).

Loaded automatically (Python imports `sitecustomize` at start-up) because ./check puts this directory on PYTHONPATH.
Active only when VERIF_COV_DIR is set.  Uses sys.monitoring (PEP 669): each line location reports once and is then
disabled, so the cost is a few thousand callbacks per process.  Every first hit of a line under $PYCOIN_REPO/pycoin is
appended at once (O_APPEND, unbuffered) to $VERIF_COV_DIR/<pid>.txt, so workers that are killed still leave their lines.
This is measurement for the evidence file (which anchored lines the run never executed); it decides nothing."""
import os
import sys


def _start():
    d = os.environ.get("VERIF_COV_DIR")
    if not d or not hasattr(sys, "monitoring"):
        return
    root = os.path.join(os.path.realpath(os.environ.get("PYCOIN_REPO", "/repo")), "pycoin") + os.sep
    mon = sys.monitoring
    tool = mon.COVERAGE_ID
    try:
        mon.use_tool_id(tool, "verifcov")
    except ValueError:
        return
    try:
        os.makedirs(d, exist_ok=True)
        fd = os.open(os.path.join(d, "%d.txt" % os.getpid()), os.O_WRONLY | os.O_CREAT | os.O_APPEND, 0o644)
    except OSError:
        return
    rel = {}

    def line(code, lineno):
        fn = code.co_filename
        r = rel.get(fn)
        if r is None:
            rp = os.path.realpath(fn) if fn and fn[0] == os.sep else ""
            r = rel[fn] = rp[len(root) - 7:] if rp.startswith(root) else ""   # keeps the leading "pycoin/"
        if r:
            try:
                os.write(fd, ("%s:%d\n" % (r, lineno)).encode())
            except OSError:
                pass
        return mon.DISABLE

    mon.register_callback(tool, mon.events.LINE, line)
    mon.set_events(tool, mon.events.LINE)


_start()
