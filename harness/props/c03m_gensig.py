"""signature-bearing cases for C03M (filled in below)"""


def gen_sigs(ctx, emit):
    pass


def gen_verify(ctx, emit):
    pass
