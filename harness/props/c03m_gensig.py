"""signature-bearing cases for C03M: CHECKSIG family through vm_eval, and the check_solution pipeline (vm_verify).
Signatures are made with pycoin's own sighash (C04's subject) and secp256k1 signing for the scriptCode the generator
intends; the sig-oracle table lists every (sig, pub, scriptCode) triple of the case that really verifies."""
from __future__ import annotations

import hashlib

from pycoin.coins.bitcoin.SolutionChecker import BitcoinSolutionChecker
from pycoin.ecdsa.secp256k1 import secp256k1_generator as G
from pycoin.encoding.sec import public_pair_to_sec, sec_to_public_pair
from pycoin.encoding.hash import hash160
from pycoin.satoshi import der, checksigops, flags as F

from props import c03m_gen as g

N = G.order()
SECRETS = [1, 2, 3, 0xC0FFEE, N - 2]
PAIRS = [G * s for s in SECRETS]


def sec(i, kind="c"):
    x, y = PAIRS[i]
    if kind == "c":
        return public_pair_to_sec((x, y), compressed=True)
    if kind == "u":
        return public_pair_to_sec((x, y), compressed=False)
    u = public_pair_to_sec((x, y), compressed=False)
    if kind == "h":      # hybrid, right parity
        return bytes([6 + (y & 1)]) + u[1:]
    if kind == "hw":     # hybrid, wrong parity
        return bytes([7 - (y & 1)]) + u[1:]
    if kind == "5":      # 33 bytes, prefix 05 (non-strict parser treats it as odd)
        return b"\x05" + u[1:33]
    if kind == "t":      # truncated
        return public_pair_to_sec((x, y))[:-1]
    raise ValueError(kind)


_TX = {}


def checker(ctx):
    if ctx not in _TX:
        import props.c03m as m
        _TX[ctx] = BitcoinSolutionChecker(m.make_tx(m.parse_ctx(ctx)))
    return _TX[ctx]


def sighash(code, wit, hashtype, ctx):
    sc = checker(ctx)
    return sc._signature_for_hash_type_segwit(code, 0, hashtype) if wit else sc._signature_hash(code, 0, hashtype)


_SIGCACHE = {}


def sign(i, code, wit=False, hashtype=1, ctx=g.CTX0, high_s=False):
    key = (i, code, wit, hashtype, ctx)
    if key not in _SIGCACHE:
        _SIGCACHE[key] = G.sign(SECRETS[i], sighash(code, wit, hashtype, ctx))
    r, s = _SIGCACHE[key]
    if (s > N // 2) != high_s:
        s = N - s
    return der.sigencode_der(r, s) + bytes([hashtype])


def really_verifies(sig, pub, code, wit, ctx):
    """pycoin's own steps: lax DER parse, public_pair_for_blob, sighash, generator.verify"""
    if len(sig) == 0:
        return False
    try:
        rs = der.sigdecode_der_lax(sig[:-1])
        pair = checksigops.public_pair_for_blob(pub, G)
        if pair is None:
            return False
        return bool(G.verify(pair, sighash(code, wit, sig[-1], ctx), rs))
    except Exception:  # noqa: BLE001
        return False


def table(sigs, pubs, codes, wit, ctx):
    import props.c03m as m
    out = []
    for code in codes:
        for s in sigs:
            for p in pubs:
                if really_verifies(s, p, code, wit, ctx):
                    out.append((s, p, m.code_key(code, wit)))
    return out


def mutate_sig(rng, sig):
    r = rng.random()
    if r < 0.15:
        return b""
    if r < 0.3:
        return sig[:-1] + bytes([rng.choice([0, 2, 3, 4, 0x81, 0x82, 0x83, 0x41, 0xff])])
    if r < 0.4:        # pad R with a leading zero (lax-parseable, not strict DER)
        rl = sig[3]
        return bytes([0x30, sig[1] + 1, 2, rl + 1, 0]) + sig[4:]
    if r < 0.5:
        i = rng.randrange(len(sig))
        return sig[:i] + bytes([sig[i] ^ (1 << rng.randrange(8))]) + sig[i + 1:]
    if r < 0.55:
        return sig[:rng.randrange(len(sig))]
    if r < 0.6:
        return sig[:-1] + b"\x00" + sig[-1:]
    return sig


SIGFLAGS = [0, F.VERIFY_DERSIG, F.VERIFY_LOW_S, F.VERIFY_STRICTENC, F.VERIFY_NULLFAIL, F.VERIFY_NULLDUMMY, F.VERIFY_WITNESS_PUBKEYTYPE,
            F.VERIFY_STRICTENC | F.VERIFY_NULLFAIL, F.VERIFY_DERSIG | F.VERIFY_LOW_S | F.VERIFY_STRICTENC | F.VERIFY_NULLFAIL | F.VERIFY_NULLDUMMY]


def rnd_sigflags(rng):
    return rng.choice(SIGFLAGS) if rng.random() < 0.7 else (g.rnd_flags(rng))


def gen_sigs(ctx, emit):
    rng = ctx.rng
    kinds = ["c", "u", "h", "hw", "5", "t"]
    # 1. single CHECKSIG / CHECKSIGVERIFY, signature on the initial stack
    for kind in kinds:
        for wit in (0, 1):
            pub = sec(0, kind)
            script = g.push(pub) + b"\xac"
            for ht in (1, 2, 3, 0x81, 0x83, 0, 4):
                for hs in (False, True):
                    s = sign(0, script, bool(wit), ht, high_s=hs)
                    t = table([s], [pub], [script], bool(wit), g.CTX0)
                    for fl in SIGFLAGS:
                        emit(g.ev(fl, script, [s], wit=wit, table=t))
            emit(g.ev(F.VERIFY_NULLFAIL, script, [b""], wit=wit))
            emit(g.ev(F.VERIFY_STRICTENC, script, [b""], wit=wit))
            emit(g.ev(F.VERIFY_WITNESS_PUBKEYTYPE, g.push(b"") + b"\xac", [b"\x01"], wit=wit))
    for _ in range(ctx.n(250, 15000)):
        i = rng.randrange(len(SECRETS))
        j = i if rng.random() < 0.8 else rng.randrange(len(SECRETS))
        kind = rng.choice(kinds[:2] if rng.random() < 0.6 else kinds)
        wit = rng.random() < 0.3
        pub = sec(j, kind)
        form = rng.randrange(5)
        op = rng.choice([0xac, 0xad])
        tail = b"\x51" if op == 0xad else b""
        if form == 0:      # plain
            script = g.push(pub) + bytes([op]) + tail
            codes = [script]
            s = mutate_sig(rng, sign(i, script, wit, rng.choice([1, 1, 2, 3, 0x81]), high_s=rng.random() < 0.2))
            stack = [s]
        elif form == 1:    # signature pushed by the script itself (legacy: its push is deleted from the script code)
            rest = g.push(pub) + bytes([op]) + tail
            s = mutate_sig(rng, sign(i, rest, wit, 1))
            script = g.push(s) + rest
            codes = [rest, script]
            stack = []
        elif form == 2:    # executed CODESEPARATOR before the key
            script = b"\x61\xab" + g.push(pub) + bytes([op]) + tail
            codes = [script[2:], script]
            s = mutate_sig(rng, sign(i, rng.choice(codes), wit, 1))
            stack = [s]
        elif form == 3:    # CODESEPARATOR in a dead branch, and one after the CHECKSIG
            script = b"\x00\x63\xab\x68" + g.push(pub) + bytes([op]) + tail + b"\xab"
            codes = [script, script[3:]]
            s = mutate_sig(rng, sign(i, rng.choice(codes), wit, 1))
            stack = [s]
        else:              # two checks with a separator in between
            pub2 = sec((j + 1) % len(SECRETS))
            script = g.push(pub) + b"\xad\xab" + g.push(pub2) + b"\xac"
            codes = [script, script[len(g.push(pub)) + 2:]]
            s1 = mutate_sig(rng, sign(i, codes[0], wit, 1))
            s2 = mutate_sig(rng, sign((j + 1) % len(SECRETS), rng.choice(codes), wit, 1))
            stack = [s2, s1]
            emit(g.ev(rnd_sigflags(rng), script, stack, wit=int(wit), table=table([s1, s2], [pub, pub2], codes, wit, g.CTX0)))
            continue
        emit(g.ev(rnd_sigflags(rng), script, stack, wit=int(wit), table=table([s], [pub], codes, wit, g.CTX0)))
    # 2. CHECKMULTISIG
    for _ in range(ctx.n(250, 15000)):
        n = rng.choice([1, 2, 3, 3, 4, 5, 20]) if rng.random() < 0.9 else 0
        m = rng.randint(0, min(n, 4))
        wit = rng.random() < 0.25
        idx = [rng.randrange(len(SECRETS)) for _ in range(n)]
        pubs = [sec(i, rng.choice(["c", "c", "u"]) if rng.random() < 0.9 else rng.choice(["5", "hw", "t", "h"])) for i in idx]
        op = rng.choice([0xae, 0xae, 0xaf])
        script = g.push(g.num(m)) + b"".join(g.push(p) for p in pubs) + g.push(g.num(n)) + bytes([op]) + (b"\x51" if op == 0xaf else b"")
        which = sorted(rng.sample(range(n), m)) if n else []
        sigs = [sign(idx[k], script, wit, 1) for k in which]
        r = rng.random()
        if r < 0.15 and len(sigs) > 1:
            sigs.reverse()
        elif r < 0.3 and sigs:
            k = rng.randrange(len(sigs))
            sigs[k] = mutate_sig(rng, sigs[k])
        elif r < 0.4 and sigs:
            sigs[rng.randrange(len(sigs))] = b""
        elif r < 0.45 and sigs:
            sigs[0] = sigs[-1]
        dummy = b"" if rng.random() < 0.8 else rng.choice([b"\x00", b"\x01"])
        stack = ([dummy] if rng.random() < 0.95 else []) + sigs
        if rng.random() < 0.08:   # counts as non-minimal / 5-byte numbers (unbounded pop_int)
            script = script.replace(g.push(g.num(n)) + bytes([op]), g.push(g.num(n) + (b"\x00" * (5 - len(g.num(n))) if n else b"\x00" * 5)) + bytes([op]), 1)
        t = table([s for s in sigs if s], pubs, [script], wit, g.CTX0)
        emit(g.ev(rnd_sigflags(rng), script, stack, wit=int(wit), table=t))
    # signatures pushed inside the multisig script (legacy deletes every one of them from the script code)
    for _ in range(ctx.n(40, 2000)):
        pubs = [sec(0), sec(1)]
        rest = b"\x52" + g.push(pubs[0]) + g.push(pubs[1]) + b"\x52\xae"
        s1, s2 = sign(0, rest, False, 1), sign(1, rest, False, 1)
        if rng.random() < 0.3:
            s2 = mutate_sig(rng, s2)
        script = b"\x00" + g.push(s1) + g.push(s2) + rest
        emit(g.ev(rnd_sigflags(rng), script, [], table=table([s1, s2], pubs, [rest, script], False, g.CTX0)))


# ---------------------------------------------------------------- check_solution pipeline

def sha256(b):
    return hashlib.sha256(b).digest()


def p2sh(redeem):
    return b"\xa9\x14" + hash160(redeem) + b"\x87"


def p2pkh_script(pub):
    return b"\x76\xa9\x14" + hash160(pub) + b"\x88\xac"


WITFLAGS = [F.VERIFY_P2SH | F.VERIFY_WITNESS, F.VERIFY_P2SH, 0, F.VERIFY_WITNESS, F.VERIFY_P2SH | F.VERIFY_WITNESS | F.VERIFY_CLEANSTACK,
            F.VERIFY_P2SH | F.VERIFY_WITNESS | F.VERIFY_DISCOURAGE_UPGRADABLE_WITNESS_PROGRAM, F.VERIFY_P2SH | F.VERIFY_WITNESS | F.VERIFY_SIGPUSHONLY,
            F.VERIFY_P2SH | F.VERIFY_WITNESS | F.VERIFY_MINIMALIF | F.VERIFY_WITNESS_PUBKEYTYPE | F.VERIFY_NULLFAIL,
            g.FLAG_BITS]


def gen_verify(ctx, emit):
    rng = ctx.rng
    ctxs = [g.CTX0, "0:4294967295:1:100000", "10:5:2:7"]

    def case(kind, rng, c):
        """returns (scriptSig, spk, witness, sigs, pubs, codes, wit)"""
        i = rng.randrange(len(SECRETS))
        pk = rng.choice(["c", "c", "c", "u", "h", "5"])
        pub = sec(i, pk)
        if kind == "p2pk":
            spk = g.push(pub) + b"\xac"
            s = sign(i, spk, False, rng.choice([1, 1, 2, 3, 0x81]), c)
            return g.push(s), spk, [], [s], [pub], [spk], False
        if kind == "p2pkh":
            spk = p2pkh_script(pub)
            s = sign(i, spk, False, 1, c)
            return g.push(s) + g.push(pub), spk, [], [s], [pub], [spk], False
        if kind == "multisig" or kind == "p2sh-multisig":
            pubs = [sec(0), sec(1, "u"), sec(2)]
            red = b"\x52" + b"".join(g.push(p) for p in pubs) + b"\x53\xae"
            a, b = sorted(rng.sample(range(3), 2))
            sigs = [sign(a, red, False, 1, c), sign(b, red, False, 1, c)]
            if rng.random() < 0.2:
                sigs.reverse()
            ss = b"\x00" + b"".join(g.push(s) for s in sigs)
            if kind == "multisig":
                return ss, red, [], sigs, pubs, [red], False
            return ss + g.push(red), p2sh(red), [], sigs, pubs, [red], False
        if kind == "p2sh-p2pk":
            red = g.push(pub) + b"\xac"
            s = sign(i, red, False, 1, c)
            return g.push(s) + g.push(red), p2sh(red), [], [s], [pub], [red], False
        if kind in ("p2wpkh", "p2sh-p2wpkh"):
            code = p2pkh_script(pub)
            prog = b"\x00\x14" + hash160(pub)
            s = sign(i, code, True, rng.choice([1, 1, 3, 0x82]), c)
            if kind == "p2wpkh":
                return b"", prog, [s, pub], [s], [pub], [code], True
            return g.push(prog), p2sh(prog), [s, pub], [s], [pub], [code], True
        if kind in ("p2wsh", "p2sh-p2wsh"):
            r = rng.random()
            if r < 0.4:
                ws = g.push(pub) + b"\xac"
                items = None
            elif r < 0.6:    # MINIMALIF inside a witness script
                ws = b"\x63" + g.push(pub) + b"\xac\x67\x51\x68"
                items = "if"
            elif r < 0.8:    # large witness script (above 520 bytes)
                ws = (g.push(b"\x00" * 75) + b"\x75") * rng.choice([7, 8, 40]) + g.push(pub) + b"\xac"
                items = None
            else:
                ws = b"\x51"
                items = "none"
            s = sign(i, ws, True, 1, c)
            wstack = [s]
            if items == "if":
                wstack = [s, rng.choice([b"\x01", b"\x01", b"\x02", b"\x01\x00", b""])]
            elif items == "none":
                wstack = []
            prog = b"\x00\x20" + sha256(ws)
            if kind == "p2wsh":
                return b"", prog, wstack + [ws], [s], [pub], [ws], True
            return g.push(prog), p2sh(prog), wstack + [ws], [s], [pub], [ws], True
        raise ValueError(kind)

    kinds = ["p2pk", "p2pkh", "multisig", "p2sh-multisig", "p2sh-p2pk", "p2wpkh", "p2sh-p2wpkh", "p2wsh", "p2sh-p2wsh"]
    for kind in kinds:          # the unmutated spends under the usual flag sets
        for fl in WITFLAGS:
            ss, spk, wit, sigs, pubs, codes, w = case(kind, rng, g.CTX0)
            emit(g.vf(fl, ss, spk, wit, g.CTX0, table(sigs, pubs, codes, w, g.CTX0)))
    for _ in range(ctx.n(500, 30000)):
        kind = rng.choice(kinds)
        c = rng.choice(ctxs)
        ss, spk, wit, sigs, pubs, codes, w = case(kind, rng, c)
        fl = rng.choice(WITFLAGS) if rng.random() < 0.6 else g.rnd_flags(rng)
        for _m in range(rng.choice([0, 1, 1, 2])):
            r = rng.random()
            if r < 0.08:
                ss = b"\x61" + ss                                   # non-push in scriptSig
            elif r < 0.16:
                ss = b"\x51" + ss                                   # extra stack item
            elif r < 0.22 and ss:
                ss = ss[:-1]                                        # truncated
            elif r < 0.3 and wit:
                k = rng.randrange(len(wit))
                wit = wit[:k] + [rng.choice([b"", b"\x01", b"\xaa" * 520, b"\xaa" * 521])] + wit[k + (rng.random() < 0.5):]
            elif r < 0.36:
                wit = wit + [b"\x01"] if rng.random() < 0.5 else [b"\x01"] + wit
            elif r < 0.42 and len(spk) > 3:
                spk = spk[:2] + bytes([spk[2] ^ 1]) + spk[3:]       # wrong hash / program
            elif r < 0.48 and spk[:1] == b"\x00":
                spk = bytes([rng.choice([0x51, 0x52, 0x60, 0x4f, 0x61])]) + spk[1:]   # other witness versions
            elif r < 0.54 and spk[:1] == b"\x00" and len(spk) > 4:
                k = rng.choice([-1, 1])
                body = (spk[2:] + b"\x00")[:len(spk) - 2 + k]
                spk = bytes([0, len(body)]) + body                  # program length 19/21/31/33
            elif r < 0.6 and sigs:
                bad = mutate_sig(rng, sigs[0])
                ss = ss.replace(g.push(sigs[0]), g.push(bad), 1) if bad else ss
                wit = [bad if x == sigs[0] else x for x in wit]
                sigs = sigs + [bad]
            elif r < 0.66 and ss:
                # non-canonical push of the last element (redeem script / program)
                pass_ = None
                for form in (1, 2, 4):
                    for d in [x for x in (codes + [spk]) if g.push(x) and ss.endswith(g.push(x))]:
                        pass_ = ss[:len(ss) - len(g.push(d))] + g.push_form(d, form)
                        break
                    if pass_:
                        break
                ss = pass_ or ss
            elif r < 0.7:
                wit = []
            elif r < 0.74:
                ss = b""
        emit(g.vf(fl, ss, spk, wit, c, table(sigs, pubs, codes + [spk], w, c) + (table(sigs, pubs, codes + [spk], not w, c) if rng.random() < 0.3 else [])))
    # no signatures: script pairs, P2SH look-alikes (23 bytes a9 .. 87 with a second byte other than 0x14), witness shapes
    for _ in range(ctx.n(500, 30000)):
        r = rng.random()
        wit = []
        if r < 0.35:
            ss = g.rnd_program(rng, 0, 6)
            spk = g.rnd_program(rng, 2, 8)
        elif r < 0.55:
            red = g.rnd_program(rng, 1, 6)
            if len(red) > 520:
                red = red[:5]
            ss = b"".join(g.push(g.rnd_operand(rng)[:520]) for _i in range(rng.randrange(3))) + g.push(red)
            spk = p2sh(red)
            if rng.random() < 0.15:
                ss = ss[:-len(g.push(red))] + g.push_form(red, rng.choice([1, 2, 4]))
        elif r < 0.65:
            body19 = bytes(rng.randrange(256) for _i in range(19))
            spk = b"\xa9\x75\x13" + body19 + b"\x87"
            ss = g.push(body19) + g.push(rng.choice([b"\x6a", b"\x51", b"\x00", b"\x61\x51"]))
        elif r < 0.85:
            ws = g.rnd_program(rng, 1, 6)
            items = [g.rnd_operand(rng) for _i in range(rng.randrange(3))]
            wit = items + [ws]
            prog = b"\x00\x20" + sha256(ws)
            if rng.random() < 0.5:
                ss, spk = b"", prog
            else:
                ss, spk = g.push(prog), p2sh(prog)
        else:
            ver = rng.choice([0x00, 0x51, 0x60])
            body = bytes(rng.randrange(256) for _i in range(rng.choice([2, 19, 20, 21, 32, 33, 40, 41])))
            spk = bytes([ver, len(body)]) + body
            ss = rng.choice([b"", b"", b"\x51", b"\x00"])
            wit = [g.rnd_operand(rng) for _i in range(rng.randrange(3))]
        fl = rng.choice(WITFLAGS) if rng.random() < 0.6 else g.rnd_flags(rng)
        emit(g.vf(fl, ss, spk, wit, rng.choice(ctxs)))
