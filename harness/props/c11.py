"""C11 — Base58, Base58Check and Bech32/Bech32m codecs are exact and detect corruption
(pycoin.encoding.b58, pycoin.encoding.base_conversion, pycoin.contrib.bech32m, pycoin.networks.parseable_str)."""
from __future__ import annotations

import hashlib

import itertools
import sys
from pathlib import Path

from lib import hx, unhx, show_list

sys.path.insert(0, str(Path(__file__).resolve().parent.parent.parent / "translate"))
import grs_stub  # noqa: E402

grs_stub.install()   # before anything imports pycoin.symbols.grs: the Groestl checksum hash is the stand-in the model mirrors

from pycoin.encoding import b58
from pycoin.encoding.exceptions import EncodingError
from pycoin.contrib import bech32m
from pycoin.networks import parseable_str as ps

from pycoin.coins.groestlcoin import parse as grs_parse  # noqa: E402
from pycoin.symbols.btc import network as BTC  # noqa: E402
from pycoin.symbols.grs import network as GRS  # noqa: E402
from pycoin.symbols.ltc import network as LTC  # noqa: E402
from pycoin.symbols.xtn import network as XTN  # noqa: E402

MANIFEST = {
    "text": "Lean theorems over an executable model of to_long/from_long, b2a/a2b_base58, b2a/a2b_hashed_base58 and of bech32m.py "
            "(polymod, checksum, bech32_encode/decode, convertbits, segwit encode/decode): exact inversion both ways for every byte "
            "string / every string over the alphabet, rejection iff a character is outside the alphabet, Base58Check accepted iff the "
            "4 checksum bytes match, GF(2)-linearity of the Bech32 polymod and checksum validity for both constants, detection of every "
            "1..4 substituted symbols within the last 89 symbols of an accepted word under the same checksum constant (minimum distance "
            "5 of the code up to the BIP173 length, for the generator words the source has now), convertbits round "
            "trip, segwit encode/decode inverse for every allowed (hrp, version, program), rejection of mixed case, wrong constant, bad "
            "length and padding; alphabets and constants regenerated from the source on every run; model tied to the code by "
            "differential correspondence on every public entry point.",
    "note": "Detection of every <=4-symbol error (C11_errdetect_le4, hypothesis-free) is a theorem for all error words spanning up "
            "to 89 symbols: reduction by linearity to syndromes; weights 1-2 by kernel evaluation over the 89x31 single-error syndromes; "
            "weights 3-4 by position-shift invariance (a zero round is injective) and GF(32)-scalar invariance, which leave 118 668 "
            "lookups (single k 1 xor single l d)>>5 against 2 729 keys, all evaluated in the Lean kernel (decide +kernel, four parallel "
            "chunk files, ~10 s and ~1.4 GB each) through bit-set filters proved to contain every key; the syndrome table is regenerated "
            "from the real bech32_polymod by translate/gen_bech32syn.py and re-derived from the model in the kernel, so it is not trusted. "
            "The clause holds only within one checksum constant: 3-4 substitutions can turn a valid Bech32 string into a valid Bech32m "
            "string (inherent to BIP350; witness in corpus, listed as a known finding, C11_errdetect_any4_refuted). The harness still "
            "samples <=4-error corruptions on the implementation (bech32err ops). hashlib.sha256 is a function symbol in the theorems.",
    "technique": "Lean 4 proof (induction over an executable model, decide over generated tables) + differential correspondence model vs implementation",
}
RULE = ("ops b58enc/b58dec/b58cenc/b58cdec/b58cvalid/c11_pb58/bech32enc/bech32dec/bech32raw/bech32err/c11_pbech32/convertbits/bech32chk/pstr_seq; "
        "boundary corpus (0..5 leading zero bytes alone and before data, empty string, look-alike and non-ASCII characters, every "
        "witness version 0..16 x program length 1..41, hrp length 1/83/84, total length 89/90/91, mixed case, wrong constant, "
        "non-zero padding, every Unicode character whose lower/upper/casefold/NFKC form is an ASCII character substituted into valid lower- and upper-case strings) + seeded random valid and corrupted strings; distinct = distinct op line; trivial = input rejected at the "
        "first character test")
ASSUMPTIONS = [
    "a Python str is represented by its UTF-8 bytes (Base58) / its code points (Bech32); strings with lone surrogates are not generated",
    "integer arguments of bech32m.encode/convertbits are non-negative (negative witver/data values are outside the model)",
    "the optional groestlcoin_hash package is replaced by the stand-in of translate/grs_stub.py (sha256 with a prefix) in the harness, the translator and the model",
    "hashlib.sha256 is modelled by Pycoin.Hash.sha256 (validated against hashlib by the correspondence on b58c* ops; a function symbol in theorems)",
]
TRUSTED = ["translate/gen_codecs.py reads BASE58_ALPHABET/BASE58_LOOKUP/CHARSET/BECH32M_CONST and the literals of bech32_polymod"]

ALPHA = "123456789ABCDEFGHJKLMNPQRSTUVWXYZabcdefghijkmnopqrstuvwxyz"
CHARSET = "qpzry9x8gf2tvdw0s3jn54khce6mua7l"


def s2h(s: str) -> str:
    return hx(s.encode("utf8"))


def h2s(h: str) -> str:
    return unhx(h).decode("utf8")


def parse_ints(s):
    return [] if s == "~" else [int(x) for x in s.split(",")]


def impl(op: str) -> str:
    a = op.split(" ")
    k = a[0]
    try:
        if k == "b58enc":
            return "ok " + s2h(b58.b2a_base58(unhx(a[1])))
        if k == "b58dec":
            return "ok " + hx(b58.a2b_base58(h2s(a[1])))
        if k == "b58cenc":
            return "ok " + s2h(b58.b2a_hashed_base58(unhx(a[1])))
        if k == "b58cenc_mut":
            buf = bytearray(unhx(a[1]))
            first = "ok " + s2h(b58.b2a_hashed_base58(buf))
            buf[:] = unhx(a[2])
            return first + " | ok " + s2h(b58.b2a_hashed_base58(buf))
        if k == "b58cdec":
            return "ok " + hx(b58.a2b_hashed_base58(h2s(a[1])))
        if k == "b58cvalid":
            return "ok %d" % (1 if b58.is_hashed_base58_valid(h2s(a[1])) else 0)
        if k == "c11_pb58":
            r = ps.parse_b58_double_sha256(h2s(a[1]))
            return "none" if r is None else "ok " + hx(r)
        if k == "bech32enc":
            r = bech32m.encode(h2s(a[1]), int(a[2]), unhx(a[3]))
            return "none" if r is None else "ok " + s2h(r)
        if k == "bech32dec":
            v, p = bech32m.decode(h2s(a[1]), h2s(a[2]))
            if v is None and p is None:
                return "none"
            return "ok %d %s" % (v, show_list(p))
        if k == "bech32raw":
            hrp, data, spec = bech32m.bech32_decode(h2s(a[1]))
            if hrp is None and data is None and spec is None:
                return "none"
            return "ok %s %s %d" % (s2h(hrp), show_list(data), spec)
        if k == "pstr_seq":
            return " | ".join(r if st in _CODEC_STEPS else "*" for st, r in zip(a[2].split(","), _pstr_run(h2s(a[1]), a[2].split(","), shared=True)))
        if k == "bech32err":
            return impl("bech32raw " + a[1]) + " ; " + impl("bech32raw " + a[2])
        if k == "c11_pbech32":
            r = ps.parse_bech32(h2s(a[1]))
            if r is None:
                return "none"
            return "ok %s %d %s %d" % (s2h(r[0]), r[1], show_list(r[2]), r[3])
        if k == "convertbits":
            r = bech32m.convertbits(parse_ints(a[1]), int(a[2]), int(a[3]), a[4] != "0")
            return "none" if r is None else "ok " + show_list(r)
        if k == "bech32chk":
            hrp, data, spec = h2s(a[1]), parse_ints(a[2]), int(a[3])
            cs = bech32m.bech32_create_checksum(hrp, data, spec)
            v = bech32m.bech32_verify_checksum(hrp, data + cs)
            return "ok %s %s" % (show_list(cs), "none" if v is None else "%d" % v)
    except Exception as e:  # noqa: BLE001
        return "err " + type(e).__name__
    return "bad-op"


# ------------------------------------------------------------------ parseable_str: decoders applied to ONE object

def _show_bytes(r):
    return "none" if r is None else "ok " + hx(r)


def _show_bech(r):
    return "none" if r is None else "ok %s %d %s %d" % (s2h(r[0]), r[1], show_list(r[2]), r[3])


_CODEC_STEPS = {
    "b58": lambda p: _show_bytes(ps.parse_b58(p)),
    "b58sha": lambda p: _show_bytes(ps.parse_b58_double_sha256(p)),
    "b58grs": lambda p: _show_bytes(grs_parse.parse_b58_groestl(p)),
    "bech32": lambda p: _show_bech(ps.parse_bech32(p)),
}
_NETS = {"btc": BTC, "grs": GRS, "ltc": LTC, "xtn": XTN}
_NET_METHODS = ("address", "wif", "p2pkh", "p2sh", "p2pkh_segwit", "bip32", "secret")


def _canon_obj(x):
    """network-level parse results, reduced to something comparable"""
    if x is None:
        return "none"
    for attr in ("address", "hwif", "as_text"):
        f = getattr(x, attr, None)
        if callable(f):
            try:
                return "%s:%s" % (type(x).__name__, f())
            except Exception:  # noqa: BLE001
                continue
    return type(x).__name__


def _net_step(name):
    sym, meth = name[4:].split(".")
    f = getattr(_NETS[sym].parse, meth)
    return lambda p: _canon_obj(f(p))


def _pstr_run(text: str, steps, shared: bool):
    """apply the steps to one parseable_str (shared) or each to a fresh one"""
    obj = ps.parseable_str(text)
    out = []
    for st in steps:
        f = _CODEC_STEPS.get(st) or _net_step(st)
        target = obj if shared else ps.parseable_str(text)
        try:
            out.append(f(target))
        except Exception as e:  # noqa: BLE001
            out.append("err " + type(e).__name__)
    return out


# ------------------------------------------------------------------ reference pieces used by the oracle only

def _dsha4(b: bytes) -> bytes:
    return hashlib.sha256(hashlib.sha256(b).digest()).digest()[:4]


def _ref_b58dec(s: str):
    """independent Base58 decoder (bitcoin core's rule): None when a character is outside the alphabet"""
    n = 0
    for ch in s:
        i = ALPHA.find(ch) if len(ch.encode("utf8")) == 1 else -1
        if i < 0:
            return None
        n = n * 58 + i
    z = len(s) - len(s.lstrip("1"))
    body = n.to_bytes((n.bit_length() + 7) // 8, "big")
    return b"\x00" * z + body


def _ref_b58enc(d: bytes) -> str:
    n = int.from_bytes(d, "big")
    out = ""
    while n:
        n, r = divmod(n, 58)
        out = _REF_ALPHA[r] + out
    return "1" * (len(d) - len(d.lstrip(b"\x00"))) + out


# BIP173/BIP350 reference, written out here so that neither generation nor the oracle depends on the code under test
_REF_ALPHA = "123456789ABCDEFGHJKLMNPQRSTUVWXYZabcdefghijkmnopqrstuvwxyz"
_REF_CHARSET = "qpzry9x8gf2tvdw0s3jn54khce6mua7l"
_REF_GEN = (0x3B6A57B2, 0x26508E6D, 0x1EA119FA, 0x3D4233DD, 0x2A1462B3)
_REF_CONST = {1: 1, 2: 0x2BC830A3}


def _ref_polymod(values):
    chk = 1
    for v in values:
        b = chk >> 25
        chk = ((chk & 0x1FFFFFF) << 5) ^ v
        for i in range(5):
            if (b >> i) & 1:
                chk ^= _REF_GEN[i]
    return chk


def _ref_bech32_encode(hrp: str, data, spec: int) -> str:
    """hrp + '1' + data + checksum; data values 0..31"""
    exp = [ord(c) >> 5 for c in hrp] + [0] + [ord(c) & 31 for c in hrp]
    pm = _ref_polymod(exp + list(data) + [0] * 6) ^ _REF_CONST[spec]
    cs = [(pm >> (5 * (5 - i))) & 31 for i in range(6)]
    return hrp + "1" + "".join(_REF_CHARSET[d] for d in list(data) + cs)


def _ref_to5(prog: bytes):
    bits = "".join("{:08b}".format(b) for b in prog)
    bits += "0" * (-len(bits) % 5)
    return [int(bits[i:i + 5], 2) for i in range(0, len(bits), 5)]


def _ref_segwit(hrp: str, ver: int, prog: bytes) -> str:
    return _ref_bech32_encode(hrp, [ver] + _ref_to5(prog), 1 if ver == 0 else 2)


def _allowed(hrp: str, ver: int, prog: bytes) -> bool:
    """what BIP173/BIP350 allow"""
    if not (1 <= len(hrp) <= 83) or any(ord(c) < 33 or ord(c) > 126 or "A" <= c <= "Z" for c in hrp):
        return False
    if not (0 <= ver <= 16) or not (2 <= len(prog) <= 40):
        return False
    if ver == 0 and len(prog) not in (20, 32):
        return False
    return len(hrp) + 1 + 1 + (len(prog) * 8 + 4) // 5 + 6 <= 90


def _valid_shape(t: str) -> bool:
    """t is a well-formed bech32 string as far as the checksum-independent rules go"""
    if any(ord(c) < 33 or ord(c) > 126 for c in t) or (t.lower() != t and t.upper() != t) or len(t) > 90:
        return False
    t = t.lower()
    pos = t.rfind("1")
    return pos >= 1 and pos + 7 <= len(t) and all(c in CHARSET for c in t[pos + 1:])


CROSS_CONST = ("a string differing in 1..4 characters from a valid string was accepted across the two checksum constants "
               "(Bech32 <-> Bech32m)")


def _ref_spec(t: str):
    """1 / 2 when t is a valid Bech32 / Bech32m string by the reference in this file, else None"""
    if not _valid_shape(t):
        return None
    tl = t.lower()
    pos = tl.rfind("1")
    data = [_REF_CHARSET.find(c) for c in tl[pos + 1:]]
    for spec in (1, 2):
        if _ref_bech32_encode(tl[:pos], data[:-6], spec) == tl:
            return spec
    return None


def _known_cross_const(v) -> bool:
    """BIP350 does not promise detection of 3-4 substitutions that turn a Bech32 string into a Bech32m string (or back):
    both strings are valid by the reference encoder, with different constants"""
    a = str(v.get("input", "")).split(" ")
    if len(a) != 3 or a[0] != "bech32err" or v.get("what") != CROSS_CONST:
        return False
    so, st = _ref_spec(h2s(a[1])), _ref_spec(h2s(a[2]))
    return so is not None and st is not None and so != st


KNOWN = {"bech32-bech32m-cross-constant": _known_cross_const}


def _bch_guarantee_applies(o: str, t: str) -> bool:
    """o valid, t differs from it in 1..4 positions, in a way the BCH code is guaranteed to detect: substitutions inside
    the data part by CHARSET characters, or of a lower-case hrp letter by another lower-case letter (same `ord >> 5`, so one
    code symbol changes per character and all changed symbols lie within a window of len-1 <= 89 symbols)."""
    o, t = o.lower(), t.lower()
    pos = o.rfind("1")
    diff = [i for i in range(len(o)) if o[i] != t[i]]
    if not (1 <= len(diff) <= 4) or len(o) > 90:
        return False
    for i in diff:
        if i > pos:
            if t[i] not in CHARSET:
                return False
        elif i == pos or not ("a" <= o[i] <= "z" and "a" <= t[i] <= "z"):
            return False
    return True


def oracle(op: str, out: str):
    """the property evaluated on the implementation alone"""
    a = op.split(" ")
    k = a[0]
    if out.startswith("err ") and out not in ("err EncodingError",) and not (k == "bech32enc" and int(a[2]) >= 32 and out == "err IndexError"):
        return "unexpected exception class %s" % out[4:]
    if k == "b58enc":
        d = unhx(a[1])
        if not out.startswith("ok"):
            return "b2a_base58 raised"
        s = h2s(out[3:])
        if any(c not in ALPHA for c in s):
            return "b2a_base58 produced a character outside the alphabet"
        if impl("b58dec " + s2h(s)) != "ok " + hx(d):
            return "a2b_base58(b2a_base58(d)) != d"
        if _ref_b58dec(s) != d:
            return "b2a_base58(d) is not the Base58 encoding of d (reference decoder)"
    elif k == "b58dec":
        s = h2s(a[1])
        inside = all(c in ALPHA for c in s)
        if inside != out.startswith("ok"):
            return "a2b_base58 must fail exactly when a character is outside the alphabet"
        if inside:
            d = unhx(out[3:])
            if impl("b58enc " + hx(d)) != "ok " + s2h(s):
                return "b2a_base58(a2b_base58(s)) != s"
            if _ref_b58dec(s) != d:
                return "a2b_base58(s) differs from the reference decoder"
    elif k == "b58cenc_mut":
        parts = out.split(" | ")
        if len(parts) != 2:
            return "b2a_hashed_base58 of a mutable buffer raised: " + out[:80]
        for d_hex, o in zip(a[1:3], parts):
            why = oracle("b58cenc " + d_hex, o)
            if why:
                return why + " (one buffer encoded, overwritten in place, encoded again)"
    elif k == "b58cenc":
        d = unhx(a[1])
        if not out.startswith("ok"):
            return "b2a_hashed_base58 raised"
        s = h2s(out[3:])
        if impl("b58cdec " + s2h(s)) != "ok " + hx(d):
            return "a2b_hashed_base58(b2a_hashed_base58(d)) != d"
        if _ref_b58dec(s) != d + _dsha4(d):
            return "b2a_hashed_base58(d) is not Base58(d + dsha256(d)[:4])"
    elif k in ("b58cdec", "b58cvalid", "c11_pb58"):
        s = h2s(a[1])
        raw = _ref_b58dec(s)
        good = raw is not None and len(raw) >= 4 and _dsha4(raw[:-4]) == raw[-4:]
        if k == "b58cdec":
            if good != out.startswith("ok"):
                return "a2b_hashed_base58 must accept exactly the strings whose last four decoded bytes are dsha256(rest)[:4]"
            if good and unhx(out[3:]) != raw[:-4]:
                return "a2b_hashed_base58 returned the wrong payload"
        elif k == "b58cvalid":
            if out != "ok %d" % (1 if good else 0):
                return "is_hashed_base58_valid disagrees with the checksum rule"
        else:
            if good != out.startswith("ok"):
                return "parse_b58_double_sha256 must accept exactly the strings with a correct checksum"
            if good and unhx(out[3:]) != raw[:-4]:
                return "parse_b58_double_sha256 returned the wrong payload"
    elif k == "bech32enc":
        hrp, ver, prog = h2s(a[1]), int(a[2]), unhx(a[3])
        if _allowed(hrp, ver, prog):
            if not out.startswith("ok"):
                return "encode refused an (hrp, version, program) that BIP173/350 allow"
            t = h2s(out[3:])
            if impl("bech32dec %s %s" % (a[1], s2h(t))) != "ok %d %s" % (ver, show_list(prog)):
                return "decode(hrp, encode(hrp, ver, prog)) != (ver, prog)"
            if len(t) > 90 or t != t.lower() or not t.startswith(hrp + "1"):
                return "encode produced a string that is not hrp + '1' + lower-case data within 90 characters"
            if t != _ref_segwit(hrp, ver, prog):
                return "encode(hrp, ver, prog) is not the BIP173/350 address (reference encoder)"
        elif out.startswith("ok"):
            return "encode produced an address for an (hrp, version, program) outside BIP173/350"
    elif k == "bech32dec":
        hrp, t = h2s(a[1]), h2s(a[2])
        if out.startswith("ok"):
            _, v, p = out.split(" ")
            v, p = int(v), bytes(parse_ints(p))
            if not _allowed(hrp, v, p):
                return "decode accepted a (version, program) that BIP173/350 do not allow"
            if not _valid_shape(t):
                return "decode accepted a malformed string (case/charset/length/separator)"
            if impl("bech32enc %s %d %s" % (a[1], v, hx(p))) != "ok " + s2h(t.lower()):
                return "encode(hrp, *decode(hrp, t)) != lower(t)"
            if t.lower() != _ref_segwit(hrp, v, p):
                return "decode accepted a string that is not the BIP173/350 address of what it returned (wrong constant, padding or checksum)"
    elif k == "bech32raw":
        t = h2s(a[1])
        if out == "none" and _valid_shape(t):
            tl = t.lower()
            pos = tl.rfind("1")
            data = [_REF_CHARSET.find(c) for c in tl[pos + 1:]]
            for spec in (1, 2):
                if _ref_bech32_encode(tl[:pos], data[:-6], spec) == tl:
                    return "bech32_decode refused a valid Bech32/Bech32m string"
        if out.startswith("ok"):
            if not _valid_shape(t):
                return "bech32_decode accepted a malformed string (case/charset/length/separator)"
            _, h, data, spec = out.split(" ")
            data = parse_ints(data)
            hrp = h2s(h)
            tl = t.lower()
            if hrp + "1" + "".join(CHARSET[d] for d in data) != tl[:-6]:
                return "bech32_decode returned hrp/data that do not spell the input"
            # re-encoding reproduces the string (the checksum is a function of hrp, data and spec)
            if int(spec) not in (1, 2) or _ref_bech32_encode(hrp, data, int(spec)) != tl:
                return "bech32_decode accepted a string whose checksum is not the Bech32/Bech32m checksum of its hrp and data"
    elif k == "bech32err":
        o, t = h2s(a[1]), h2s(a[2])
        r_o, r_t = out.split(" ; ")
        for kk, tt, rr in (("bech32raw", a[1], r_o), ("bech32raw", a[2], r_t)):
            why = oracle("%s %s" % (kk, tt), rr)
            if why:
                return why
        if r_o.startswith("ok") and len(o) == len(t) and _bch_guarantee_applies(o, t) and r_t.startswith("ok"):
            if r_o.split(" ")[-1] == r_t.split(" ")[-1]:
                return "a string differing in 1..4 characters from a valid Bech32 string was accepted (same checksum constant)"
            return CROSS_CONST
    elif k == "pstr_seq":
        text, steps = h2s(a[1]), a[2].split(",")
        shared = _pstr_run(text, steps, shared=True)
        if any(ord(c) < 33 or ord(c) > 126 for c in text):
            for st, r in zip(steps, shared):
                if (st.endswith(".address") or st in ("b58", "b58sha", "b58grs", "bech32")) and r != "none":
                    return "a string with a character outside 33..126 was accepted by %s" % st
        fresh = _pstr_run(text, steps, shared=False)
        for i, (x, y) in enumerate(zip(shared, fresh)):
            if x != y:
                return ("cached decode depends on who looked at the parseable_str first: step %d (%s) answered `%s` after %s had "
                        "looked at the same object, but `%s` on a fresh one" % (i, steps[i], x[:80], ",".join(steps[:i]) or "nothing", y[:80]))
        raw = _ref_b58dec(text)
        good = raw is not None and len(raw) >= 4 and _dsha4(raw[:-4]) == raw[-4:]
        for st, r in zip(steps, shared):
            if st == "b58sha" and (r.startswith("ok") != good or (good and unhx(r[3:]) != raw[:-4])):
                return "parse_b58_double_sha256 on a shared parseable_str does not follow the checksum rule"
    elif k == "bech32chk":
        spec = int(a[3])
        if spec in (1, 2) and not out.endswith(" %d" % spec):
            return "bech32_verify_checksum(data + bech32_create_checksum(data, spec)) != spec"
    elif k == "convertbits":
        data, f, t, pad = parse_ints(a[1]), int(a[2]), int(a[3]), a[4] != "0"
        if (f, t, pad) == (8, 5, True) and all(x < 256 for x in data):
            if not out.startswith("ok"):
                return "convertbits 8->5 with padding refused bytes"
            back = impl("convertbits %s 5 8 0" % out[3:])
            if back != "ok " + show_list(data):
                return "convertbits 5->8 (no pad) of convertbits 8->5 (pad) is not the identity"
    return None


def trivial(op: str) -> bool:
    a = op.split(" ")
    if a[0] in ("bech32dec", "bech32raw", "c11_pbech32"):
        t = h2s(a[-1])
        return any(ord(c) < 33 or ord(c) > 126 for c in t)
    return False


# ------------------------------------------------------------------ generation

def _corrupt(rng, t: str, n: int, pool: str) -> str:
    """substitute exactly n positions by different characters of pool"""
    cs = list(t)
    for i in rng.sample(range(len(cs)), min(n, len(cs))):
        c = rng.choice(pool)
        while c == cs[i]:
            c = rng.choice(pool)
        cs[i] = c
    return "".join(cs)


def neighbours(op, rng):
    a = op.split(" ")
    k = a[0]
    if k in ("b58enc", "b58cenc"):
        d = unhx(a[1])
        for z in range(0, 4):
            yield "%s %s" % (k, hx(b"\x00" * z + d.lstrip(b"\x00")))
            yield "%s %s" % (k, hx(b"\x00" * z))
        yield "b58dec " + s2h(_ref_b58enc(d))
    elif k in ("b58dec", "b58cdec", "b58cvalid", "c11_pb58"):
        s = h2s(a[1])
        for kk in ("b58dec", "b58cdec", "b58cvalid", "c11_pb58"):
            yield "%s %s" % (kk, a[1])
        for z in range(0, 3):
            yield "b58dec " + s2h("1" * z + s.lstrip("1"))
    elif k == "bech32enc":
        for v in range(0, 18):
            yield "bech32enc %s %d %s" % (a[1], v, a[3])
        prog = unhx(a[3])
        for n in (1, 2, 20, 32, 40, 41):
            yield "bech32enc %s %s %s" % (a[1], a[2], hx((prog * 41)[:n] if prog else b"\x01" * n))
    elif k in ("bech32dec", "bech32raw", "c11_pbech32", "bech32err"):
        t = h2s(a[-1])
        yield "bech32raw " + a[-1]
        yield "bech32raw " + s2h(t.upper())
        yield "bech32raw " + s2h(t.lower())
        if k == "bech32dec":
            yield "bech32dec %s %s" % (a[1], s2h(t.lower()))
    elif k == "pstr_seq":
        steps = a[2].split(",")
        for x, y in itertools.permutations(sorted(set(steps)), 2):
            yield "pstr_seq %s %s,%s" % (a[1], x, y)
    elif k == "convertbits":
        data = parse_ints(a[1])
        yield "convertbits %s 8 5 1" % show_list(x & 255 for x in data)
        yield "convertbits %s 5 8 0" % show_list(x & 31 for x in data)
    elif k == "bech32chk":
        yield "bech32chk %s %s 1" % (a[1], a[2])
        yield "bech32chk %s %s 2" % (a[1], a[2])


_CONF = None


def _confusables():
    """ASCII character (lower-cased) -> the non-ASCII characters that some Python text operation (lower, upper, casefold,
    NFKC and its case variants) turns into it.  U+212A KELVIN SIGN -> k, U+017F -> s, U+0130/U+0131 -> i, fullwidth forms,
    mathematical alphanumerics, circled/parenthesised forms whose NFKC is one character, ..."""
    global _CONF
    if _CONF is None:
        import unicodedata
        m: dict = {}
        for cp in list(range(0x80, 0x10000)) + list(range(0x1D400, 0x1D800)) + list(range(0x1F100, 0x1F190)):
            if 0xD800 <= cp <= 0xDFFF:
                continue
            c = chr(cp)
            n = unicodedata.normalize("NFKC", c)
            for f in {c.lower(), c.upper(), c.casefold(), n, n.lower(), n.upper()}:
                if len(f) == 1 and 33 <= ord(f) <= 126:
                    m.setdefault(f.lower(), set()).add(c)
        _CONF = {k: sorted(v) for k, v in m.items()}
    return _CONF


def _hrp(rng, n):
    pool = [chr(c) for c in range(33, 127) if not ("A" <= chr(c) <= "Z")]
    return "".join(rng.choice(pool) for _ in range(n))


def gen(ctx, emit):
    rng = ctx.rng

    def rb(n):
        return bytes(rng.randrange(256) for _ in range(n))

    # ---------------------------------------------------------------- Base58 boundary corpus
    tails = [b"", b"\x01", b"\xff", b"\x00\x01", b"\x39", b"\x3a", b"\x0d\x23", b"\x0d\x24", bytes(range(1, 30)), b"\xff" * 32]
    for kz in range(0, 6):
        for t in tails:
            d = b"\x00" * kz + t
            emit("b58enc " + hx(d))
            emit("b58cenc " + hx(d))
    for s in ["", "1", "11", "111111", "2", "z", "12", "1z", "21", "211", "zzzzzzzzzzz", "1111111z",
              "0", "O", "I", "l", "10", "1O", "I1", "2l", "z0z", " ", "1 ", " 1", "1\n", "+", "/", "\x00", "\x7f",
              "é", "1é", "€1", "\U0001f600", "1\U0001f600z", "１", "３", "Ａ"]:
        for k in ("b58dec", "b58cdec", "b58cvalid", "c11_pb58"):
            emit("%s %s" % (k, s2h(s)))
    # every alphabet character alone, and its neighbours in ASCII
    for c in range(0x2f, 0x7c):
        emit("b58dec " + s2h(chr(c)))
        emit("b58dec " + s2h("2" + chr(c)))
    # short decoded payloads for the checksum slice (0..5 decoded bytes), valid and not
    for n in range(0, 6):
        for d in (b"\x00" * n, b"\x01" * n, rb(n)):
            s = _ref_b58enc(d)
            for k in ("b58cdec", "b58cvalid", "c11_pb58"):
                emit("%s %s" % (k, s2h(s)))
    # checksums with leading zero bytes in payload / payload empty
    for d in (b"", b"\x00", b"\x00\x00", b"\x00" * 21, b"\x05" + b"\x00" * 20, b"\x80" + b"\x01" * 32 + b"\x01"):
        s = _ref_b58enc(d + _dsha4(d))
        for k in ("b58cdec", "b58cvalid", "c11_pb58"):
            emit("%s %s" % (k, s2h(s)))

    # ---------------------------------------------------------------- Base58 random
    for _ in range(ctx.n(1500, 40000)):
        kz = rng.choice([0, 0, 0, 1, 1, 2, 3, 7])
        n = rng.choice([0, 1, 2, 3, 4, 5, 8, 20, 21, 25, 32, 33, 37, 64, rng.randrange(0, 120)])
        d = b"\x00" * kz + rb(n)
        emit("b58enc " + hx(d))
        if rng.random() < 0.5:
            emit("b58cenc " + hx(d))
    for _ in range(ctx.n(1500, 40000)):
        n = rng.choice([0, 1, 2, 3, 5, 10, 27, 34, 51, rng.randrange(0, 110)])
        s = "1" * rng.choice([0, 0, 1, 2, 5]) + "".join(rng.choice(ALPHA) for _ in range(n))
        emit("b58dec " + s2h(s))
        r = rng.random()
        if r < 0.25 and s:
            # one character outside the alphabet
            i = rng.randrange(len(s))
            bad = rng.choice(["0", "O", "I", "l", " ", "-", "_", "é", "€", "\U0001f600", "\x00", "@", "[", "`", "{", ":"])
            emit("b58dec " + s2h(s[:i] + bad + s[i + 1:]))
    # every printable ASCII character outside the alphabet (and the characters format strings care about: % { } \) at the
    # first / a middle / the last position of a valid string: the decoders answer with EncodingError / False, nothing else
    good = _ref_b58enc(bytes(range(1, 22)) + _dsha4(bytes(range(1, 22))))
    outside = [chr(c) for c in range(32, 127) if chr(c) not in ALPHA] + ["%s", "%d", "%%", "%(x)s", "{}", "{0}", "\\", "%"]
    for bad in outside:
        for i in (0, len(good) // 2, len(good) - 1):
            t = good[:i] + bad + good[i + 1:]
            emit("b58dec " + s2h(t), "outside-alphabet")
            emit("b58cdec " + s2h(t), "outside-alphabet")
            if i == 0:
                emit("b58cvalid " + s2h(t), "outside-alphabet")
                emit("c11_pb58 " + s2h(t), "outside-alphabet")
    # one mutable buffer encoded, overwritten in place, encoded again (same length and other lengths)
    for _ in range(ctx.n(40, 1000)):
        n = rng.choice([0, 1, 4, 20, 21, 33])
        d1 = rb(n)
        d2 = rb(n) if rng.random() < 0.7 else rb(rng.choice([0, 1, 5, 21]))
        emit("b58cenc_mut %s %s" % (hx(d1), hx(d2)), "mutable-buffer")
    for _ in range(ctx.n(1200, 30000)):
        d = b"\x00" * rng.choice([0, 0, 1, 2]) + rb(rng.choice([0, 1, 4, 20, 21, 33, 34, rng.randrange(0, 80)]))
        s = _ref_b58enc(d + _dsha4(d))
        mode = rng.randrange(6)
        if mode == 0:
            pass
        elif mode == 1:
            s = _corrupt(rng, s, rng.randint(1, 4), ALPHA)
        elif mode == 2:
            # corrupt a checksum byte / payload byte of the decoded form
            raw = bytearray(d + _dsha4(d))
            i = rng.randrange(len(raw)) if rng.random() < 0.5 else len(raw) - 1 - rng.randrange(4)
            raw[i] ^= 1 << rng.randrange(8)
            s = _ref_b58enc(bytes(raw))
        elif mode == 3:
            s = _ref_b58enc((d + _dsha4(d))[:-1])           # truncated
        elif mode == 4:
            s = "1" + s                                         # an extra leading zero byte
        else:
            s = s[:-1] if s else s
        for k in (("b58cdec", "b58cvalid", "c11_pb58") if rng.random() < 0.3 else (rng.choice(["b58cdec", "b58cvalid", "c11_pb58"]),)):
            emit("%s %s" % (k, s2h(s)))

    # ---------------------------------------------------------------- Bech32 boundary corpus
    for hrp in ("bc", "tb", "a", "1", "11", "?", "~", "bc1", "a1b"):
        for ver in range(0, 18):
            for n in range(1, 42):
                if ver in (0, 1, 16, 17) or n in (1, 2, 19, 20, 21, 31, 32, 33, 39, 40, 41) or hrp == "bc":
                    emit("bech32enc %s %d %s" % (s2h(hrp), ver, hx(bytes((7 * i + ver + n) & 255 for i in range(n)))))
        emit("bech32enc %s 0 -" % s2h(hrp))
    for ver in (31, 32, 33, 255):
        emit("bech32enc 6263 %d %s" % (ver, hx(b"\x01" * 20)))
    # hrp length × program length so that the total is 88..92
    for ver, n in ((0, 20), (0, 32), (1, 32), (1, 40), (2, 2), (16, 3)):
        dlen = 1 + (n * 8 + 4) // 5 + 6
        for total in (88, 89, 90, 91, 92):
            hl = total - 1 - dlen
            if hl >= 1:
                emit("bech32enc %s %d %s" % (s2h(_hrp(rng, hl)), ver, hx(rb(n))))
    for hl in (1, 2, 82, 83, 84):
        emit("bech32enc %s 1 %s" % (s2h(_hrp(rng, hl)), hx(b"\x07\x09")))
    # valid strings without any cased character (hrp of digits/punctuation, data and checksum all digits): found by search
    # with the reference encoder; `s.lower() != s and s.upper() != s` and islower()/isupper() differ exactly there
    nocase_pool = [chr(c) for c in range(33, 127) if not chr(c).isalpha()]
    digits5 = [i for i, ch in enumerate(CHARSET) if ch.isdigit()]
    found = 0
    for _ in range(ctx.n(20000, 400000)):
        hrp = "".join(rng.choice(nocase_pool) for _ in range(rng.choice((1, 2, 3))))
        data = [rng.choice(digits5) for _ in range(rng.choice((0, 0, 1, 2)))]
        spec = rng.choice((1, 2))
        t = _ref_bech32_encode(hrp, data, spec)
        if not any(ch.isalpha() for ch in t):
            emit("bech32raw " + s2h(t), "bech32-no-cased-character")
            found += 1
            if found >= ctx.n(6, 60):
                break
    # hrp with upper case / out of range / non-ASCII characters, empty hrp
    for hrp in ("BC", "Bc", "b c", "b\x7fc", "bé", "€", "\U0001f600", "", " ", "\x20bc"):
        emit("bech32enc %s 0 %s" % (s2h(hrp), hx(b"\x01" * 20)))
        emit("bech32enc %s 1 %s" % (s2h(hrp), hx(b"\x01" * 32)))
    # published vectors and their classic failure modes
    valid = ["A12UEL5L", "a12uel5l", "an83characterlonghumanreadablepartthatcontainsthenumber1andtheexcludedcharactersbio1tt5tgs",
             "abcdef1qpzry9x8gf2tvdw0s3jn54khce6mua7lmqqqxw", "split1checkupstagehandshakeupstreamerranterredcaperred2y9e3w", "?1ezyfcl",
             "A1LQFN3A", "a1lqfn3a", "an83characterlonghumanreadablepartthatcontainsthetheexcludedcharactersbioandnumber11sg7hg6",
             "abcdef1l7aum6echk45nj3s0wdvt2fg8x9yrzpqzd3ryx", "?1v759aa",
             "BC1QW508D6QEJXTDG4Y5R3ZARVARY0C5XW7KV8F3T4", "tb1qrp33g0q5c5txsp9arysrx4k6zdkfs4nce4xj0gdcccefvpysxf3q0sl5k7",
             "bc1pw508d6qejxtdg4y5r3zarvary0c5xw7kw508d6qejxtdg4y5r3zarvary0c5xw7kt5nd6y", "BC1SW50QGDZ25J", "bc1zw508d6qejxtdg4y5r3zarvaryvaxxpcs",
             "bc1p0xlxvlhemja6c4dqv22uapctqupfhlxm9h8z3k2e72q4k9hcz7vqzk5jj0"]
    invalid = ["\x201nwldj5", "\x7f1axkwrx", "\u00801eym55h", "pzry9x0s0muk", "1pzry9x0s0muk", "x1b4n0q5v", "li1dgmt3", "de1lg7wt\xff", "A1G7SGD8", "10a06t8", "1qzzfhee",
               "a12UEL5L", "A12uel5l", "bc1qw508d6qejxtdg4y5r3zarvary0c5xw7kv8f3t5", "BC13W50QGDZ25J" "Q", "bc1rw5uspcuh", "bc1gmk9yu",
               "tb1qrp33g0q5c5txsp9arysrx4k6zdkfs4nce4xj0gdcccefvpysxf3q0sL5k7", "bc1zw508d6qejxtdg4y5r3zarvaryvqyzf3du", "bc1gmk9yu",
               "bc1qw508d6qejxtdg4y5r3zarvary0c5xw7kemeawh", "bc1p38j9r5y49hruaue7wxjce0updqjuyyx0kh56v8s25huc6995vvpql3jow4", "1", "", "11", "1" * 7, "a1", "a1qqqqqq", "a1qqqqq"]
    for t in valid + invalid:
        emit("bech32raw " + s2h(t))
        emit("c11_pbech32 " + s2h(t))
        for hrp in ("bc", "tb", "BC", "a"):
            emit("bech32dec %s %s" % (s2h(hrp), s2h(t)))
    # wrong constant for the version, every version; version > 16; program lengths; padding
    for ver in range(0, 32):
        for n in (1, 2, 20, 32, 40, 41):
            prog = bytes((3 * i + ver) & 255 for i in range(n))
            conv = _ref_to5(prog)
            for spec in (1, 2):
                t = _ref_bech32_encode("bc", [ver] + conv, spec)
                emit("bech32dec 6263 " + s2h(t))
                emit("bech32dec 6263 " + s2h(t.upper()))
                emit("bech32raw " + s2h(t))
    for spec in (1, 2):
        # no data at all / version only / padding variations
        for data in ([], [0], [1], [1, 0], [1, 0, 0], [1] + [31] * 3, [1] + [0] * 4 + [1], [1] + [0] * 3 + [16], [1] + [0] * 3 + [8], [1] + [0] * 4,
                     [0] + [0] * 32, [0] + [0] * 31 + [1], [0] + [0] * 33, [0] + [0] * 52, [0] + [0] * 51 + [1], [1] + [0] * 7 + [0], [1] + [0] * 8):
            t = _ref_bech32_encode("bc", data, spec)
            emit("bech32dec 6263 " + s2h(t))
            emit("bech32raw " + s2h(t))
            emit("c11_pbech32 " + s2h(t))
    # total length 89/90/91 at the raw level, hrp of 1 and 83/84 characters
    for total in (8, 89, 90, 91):
        for hl in (1, 83, 84):
            dl = total - hl - 1 - 6
            if dl >= 0:
                hrp = _hrp(rng, hl)
                for spec in (1, 2):
                    emit("bech32raw " + s2h(_ref_bech32_encode(hrp, [rng.randrange(32) for _ in range(dl)], spec)))
    # separator rules: several '1', '1' in the last six
    for t in ("a1qqqqq1", "11qqqqqq", "a11qqqqqq", "qqqqqqq", "a1qqqqq", "1qqqqqq"):
        emit("bech32raw " + s2h(t))
    for hrp in ("a", "a1", "11", "1"):
        for spec in (1, 2):
            emit("bech32raw " + s2h(_ref_bech32_encode(hrp, [1, 2, 3], spec)))
    # convertbits boundaries
    for data in ([], [0], [255], [256], [1, 2, 3], [255] * 5, [0] * 5, [255, 256], list(range(250, 256))):
        emit("convertbits %s 8 5 1" % show_list(data))
        emit("convertbits %s 8 5 0" % show_list(data))
    for data in ([], [0], [31], [32], [1, 0], [0, 1], [31, 31], [0, 0, 0, 0, 0, 0, 0, 0], [0] * 7 + [1], [31] * 8, [31] * 7 + [30], [1] + [0] * 3 + [16], [0] * 4, [0] * 3 + [1], [0] * 2, [0, 4], [0, 8]):
        emit("convertbits %s 5 8 0" % show_list(data))
        emit("convertbits %s 5 8 1" % show_list(data))
    for f, t in ((1, 1), (1, 8), (8, 1), (3, 7), (7, 3), (13, 2), (8, 8), (8, 16), (16, 8)):
        emit("convertbits %s %d %d 1" % (show_list([(1 << f) - 1, 0, 1, (1 << f)][:3]), f, t))
        emit("convertbits %s %d %d 0" % (show_list([(1 << f) - 1, 0, 1]), f, t))
        emit("convertbits %s %d %d 0" % (show_list([1 << f]), f, t))
    for hrp in ("bc", "A", "é", "\U0001f600x", ""):
        for data in ([], [0], [31], [1, 2, 3], [32], [1000, 5], list(range(32))):
            for spec in (1, 2):
                emit("bech32chk %s %s %d" % (s2h(hrp), show_list(data), spec))

    # ---------------------------------------------------------------- Bech32 random
    pool_hrps = ["bc", "tb", "bcrt", "ltc", "a", "x1y", "?", "1"]
    valid_strings = []
    for _ in range(ctx.n(1200, 30000)):
        hrp = rng.choice(pool_hrps) if rng.random() < 0.7 else _hrp(rng, rng.randint(1, 12))
        ver = rng.choice([0, 0, 1, 1, rng.randint(0, 16), rng.randint(0, 20)])
        n = rng.choice([20, 32]) if (ver == 0 and rng.random() < 0.8) else rng.choice([2, 20, 32, 40, rng.randint(0, 42)])
        prog = rb(n)
        emit("bech32enc %s %d %s" % (s2h(hrp), ver, hx(prog)))
        t = _ref_segwit(hrp, ver, prog) if _allowed(hrp, ver, prog) else None
        if t is not None:
            valid_strings.append((hrp, t))
            emit("bech32dec %s %s" % (s2h(hrp), s2h(t if rng.random() < 0.7 else t.upper())))
            if rng.random() < 0.2:
                emit("bech32dec %s %s" % (s2h(rng.choice(pool_hrps)), s2h(t)))
                emit("c11_pbech32 " + s2h(t))
    # raw strings of every length up to 90, both constants
    for _ in range(ctx.n(600, 20000)):
        hl = rng.choice([1, 2, 3, rng.randint(1, 83)])
        dl = rng.randint(0, max(0, 90 - hl - 7))
        hrp = _hrp(rng, hl)
        spec = rng.choice([1, 2])
        data = [rng.randrange(32) for _ in range(dl)]
        t = _ref_bech32_encode(hrp, data, spec)
        valid_strings.append((hrp, t))
        emit("bech32raw " + s2h(t if rng.random() < 0.8 else t.upper()))
        if rng.random() < 0.3:
            emit("bech32chk %s %s %d" % (s2h(hrp), show_list(data), spec))
    # error detection: 1..4 substitutions anywhere (hrp characters included), must be refused
    corrupt_pool = CHARSET + "1" + "bio" + "!~?"
    for _ in range(ctx.n(5000, 200000)):
        hrp, t = rng.choice(valid_strings)
        n = rng.randint(1, 4)
        r = rng.random()
        if r < 0.75:
            # inside the guarantee: data-part substitutions (and lower-case hrp letters among themselves)
            pos = t.rfind("1")
            cs = list(t)
            idx = [i for i in range(len(cs)) if i > pos or (r < 0.15 and "a" <= cs[i] <= "z")]
            for i in rng.sample(idx, min(n, len(idx))):
                pool = CHARSET if i > pos else "abcdefghijklmnopqrstuvwxyz"
                c = rng.choice(pool)
                while c == cs[i]:
                    c = rng.choice(pool)
                cs[i] = c
            t2 = "".join(cs)
            if rng.random() < 0.2:
                t, t2 = t.upper(), t2.upper()
        else:
            t2 = _corrupt(rng, t, n, CHARSET if rng.random() < 0.5 else corrupt_pool)
        emit("bech32err %s %s" % (s2h(t), s2h(t2)), "bech32err-%d" % n)
        if rng.random() < 0.15:
            emit("bech32dec %s %s" % (s2h(hrp), s2h(t2)))
    # other damage: mixed case, insertion/deletion, swapped neighbours, out-of-range characters
    for _ in range(ctx.n(800, 20000)):
        hrp, t = rng.choice(valid_strings)
        mode = rng.randrange(6)
        i = rng.randrange(len(t))
        if mode == 0:
            t2 = t[:i] + t[i].upper() + t[i + 1:]
        elif mode == 1:
            t2 = t[:i] + t[i + 1:]
        elif mode == 2:
            t2 = t[:i] + rng.choice(CHARSET) + t[i:]
        elif mode == 3 and i + 1 < len(t):
            t2 = t[:i] + t[i + 1] + t[i] + t[i + 2:]
        elif mode == 4:
            t2 = t[:i] + rng.choice([" ", "\x7f", "é", "ı", "K", "\U0001f600", "\x00"]) + t[i + 1:]
        else:
            t2 = t.upper()[:i] + t[i:]
        emit("bech32raw " + s2h(t2))
        emit("bech32dec %s %s" % (s2h(hrp), s2h(t2)))
    for _ in range(ctx.n(600, 20000)):
        f, t = rng.choice([(8, 5), (5, 8), (8, 5), (5, 8), (rng.randint(1, 12), rng.randint(1, 12))])
        n = rng.randint(0, 45)
        data = [rng.randrange(1 << f) if rng.random() < 0.97 else rng.randrange(1 << (f + 1)) for _ in range(n)]
        emit("convertbits %s %d %d %d" % (show_list(data), f, t, rng.randrange(2)))
        if (f, t) == (8, 5):
            if all(x < 256 for x in data):
                conv = _ref_to5(bytes(data))
                emit("convertbits %s 5 8 0" % show_list(conv))

    # ---------------------------------------------------------------- parseable_str: several decoders on ONE object
    import hashlib as _hl

    def grs4(b):
        return _hl.sha256(grs_stub.PREFIX + b).digest()[:4]

    h160 = bytes(range(1, 21))
    texts = []
    for payload in (b"\x00" + h160, b"\x05" + h160, b"\x24" + h160, b"\x80" + b"\x07" * 32 + b"\x01", b"\x6f" + h160, b"", b"\x00"):
        texts.append(_ref_b58enc(payload + _dsha4(payload)))          # Bitcoin-style checksum
        texts.append(_ref_b58enc(payload + grs4(payload)))            # Groestl-style checksum (stand-in hash)
        texts.append(_ref_b58enc(payload + b"\x00\x00\x00\x00"))      # wrong for both
    texts += [_ref_segwit("bc", 0, h160), _ref_segwit("grs", 0, h160), _ref_segwit("ltc", 1, bytes(32)), _ref_segwit("bc", 0, h160)[:-1] + "q",
              "", "1", "0", "bc1", "not base58!", "é"]
    codec = ["b58", "b58sha", "b58grs", "bech32"]
    nets = ["net:%s.%s" % (n, m) for n in ("btc", "grs", "ltc") for m in ("address", "wif")]
    for t in texts:
        for x, y in itertools.permutations(codec + ["net:grs.address", "net:btc.address"], 2):
            emit("pstr_seq %s %s,%s" % (s2h(t), x, y))
        for perm in itertools.permutations(codec):
            emit("pstr_seq %s %s" % (s2h(t), ",".join(perm)))
        emit("pstr_seq %s b58sha,b58sha,b58grs,b58grs,b58sha" % s2h(t))
    pool = codec + nets + ["net:xtn.address", "net:btc.p2sh", "net:grs.p2pkh", "net:btc.p2pkh_segwit", "net:grs.secret", "net:btc.bip32"]
    for _ in range(ctx.n(700, 15000)):
        r = rng.random()
        payload = bytes([rng.choice([0, 5, 0x24, 0x80, 0x6f, rng.randrange(256)])]) + rb(rng.choice([20, 20, 32, 33, rng.randrange(0, 40)]))
        if r < 0.3:
            t = _ref_b58enc(payload + _dsha4(payload))
        elif r < 0.6:
            t = _ref_b58enc(payload + grs4(payload))
        elif r < 0.7:
            t = _corrupt(rng, _ref_b58enc(payload + _dsha4(payload)) or "1", 1, ALPHA)
        elif r < 0.9:
            hrp = rng.choice(["bc", "grs", "ltc", "tb"])
            ver = rng.choice([0, 1])
            t = _ref_segwit(hrp, ver, rb(20 if rng.random() < 0.5 else 32))
            if rng.random() < 0.2:
                t = _corrupt(rng, t, 1, CHARSET)
        else:
            t = "".join(rng.choice(ALPHA + "0OIl1 ") for _ in range(rng.randint(0, 40)))
        steps = [rng.choice(pool) for _ in range(rng.randint(2, 4))]
        if rng.random() < 0.4:
            steps[0] = rng.choice(["b58grs", "net:grs.address", "net:grs.wif"])
        emit("pstr_seq %s %s" % (s2h(t), ",".join(steps)))

    # ---------------------------------------------------------------- look-alike Unicode characters (case folding / NFKC)
    conf = _confusables()
    p2wpkh = _ref_segwit("bc", 0, bytes.fromhex("751e76e8199196d454941c45d1b3a323f1433bd6"))   # contains k, s, i-free; BIP173 example
    bases = [p2wpkh, _ref_segwit("tb", 1, bytes(range(32))), _ref_bech32_encode("kiss", [10, 22, 16, 31], 1),
             _ref_bech32_encode("a", [], 2), _ref_bech32_encode("k", [22] * 8, 2)]
    # the character named in BIP173-style all-upper-case strings: every K / S / I position, both cases, with the special four
    for t in bases:
        for cased in (t, t.upper()):
            for i, ch in enumerate(cased):
                for c in ("\u212a", "\u017f", "\u0130", "\u0131"):
                    if c.lower() == ch.lower() or c.upper() == ch.upper() or c.casefold() == ch.lower():
                        t2 = cased[:i] + c + cased[i + 1:]
                        emit("bech32raw " + s2h(t2))
                        emit("bech32dec %s %s" % (s2h(t[:t.rfind("1")]), s2h(t2)))
                        emit("c11_pbech32 " + s2h(t2))
                        emit("pstr_seq %s net:btc.address,bech32,net:xtn.address" % s2h(t2))
    budget = ctx.n(2500, 60000)
    cands = []
    for t in bases + [x[1] for x in valid_strings[:40]]:
        for cased in (t, t.upper()):
            for i, ch in enumerate(cased):
                for c in conf.get(ch.lower(), []):
                    cands.append((t, cased, i, c))
    rng.shuffle(cands)
    for t, cased, i, c in cands[:budget]:
        t2 = cased[:i] + c + cased[i + 1:]
        r = rng.random()
        if r < 0.6:
            emit("bech32raw " + s2h(t2))
        elif r < 0.8:
            emit("bech32dec %s %s" % (s2h(t[:t.rfind("1")]), s2h(t2)))
        elif r < 0.9:
            emit("c11_pbech32 " + s2h(t2))
        else:
            emit("pstr_seq %s %s" % (s2h(t2), ",".join(rng.sample(["net:btc.address", "bech32", "net:xtn.address", "net:ltc.address", "b58sha"], 3))))
    # Base58: characters whose case fold / NFKC is an alphabet letter or digit
    b58bases = [_ref_b58enc(p + _dsha4(p)) for p in (b"\x00" + bytes(range(1, 21)), b"\x05" + bytes(20), b"\x80" + b"\x11" * 32 + b"\x01")]
    cands = []
    for t in b58bases:
        for i, ch in enumerate(t):
            for c in conf.get(ch.lower(), []):
                cands.append((t, i, c))
    rng.shuffle(cands)
    for t, i, c in cands[:ctx.n(600, 20000)]:
        t2 = t[:i] + c + t[i + 1:]
        for k in rng.sample(["b58dec", "b58cdec", "b58cvalid", "c11_pb58"], 2):
            emit("%s %s" % (k, s2h(t2)))
        if rng.random() < 0.1:
            emit("pstr_seq %s net:btc.address,b58sha,b58" % s2h(t2))
