"""C19 — hash primitives give standard digests in every configuration (pycoin/encoding/hash.py,
pycoin/contrib/ripemd160.py, pycoin/bloomfilter.py, pycoin/encoding/hexbytes.py).

Also validates the shared hash foundation (Lean SHA-256/512/1, RIPEMD-160 spec, HMAC, hash160, murmur3 spec)
against hashlib/hmac and an independent murmur3 written here."""
from __future__ import annotations

import atexit
import hashlib
import hmac
import os
import subprocess
import sys
from pathlib import Path

from lib import hx, unhx, Infra, REPO

import pycoin.contrib.ripemd160 as RMD
import pycoin.bloomfilter as BF
import pycoin.encoding.hash as EH
from pycoin.encoding.b58 import b2a_hashed_base58
from pycoin.symbols.btc import network as BTC

MANIFEST = {
    "text": "Lean theorems: the function-by-function model of the bundled pure-Python RIPEMD-160 (unbounded Python ints, its own masks and "
            "padding arithmetic, tables regenerated from the source) equals the standard RIPEMD-160 for every byte string below 2^61 bytes "
            "(struct.error above, also proved); the model of bloomfilter.murmur3 equals MurmurHash3 x86_32 for every input below 2^32 bytes and "
            "every integer seed (seed acts mod 2^32); hash160/double_sha256 are the stated compositions under every implementation choice of "
            "get_best_ripemd160; BloomFilter.add_item sets exactly the BIP37 bit positions and every element of every history of adds matches. "
            "Models tied to the code by differential correspondence in both configurations (native hashlib RIPEMD-160 and "
            "PYCOIN_USE_PYTHON_RIPEMD160=1, plus simulated OpenSSL-without-ripemd160 / PyCrypto selections) on every run.",
    "note": "Validated, not verified: the standard-spec SHA-256/SHA-512/SHA-1/RIPEMD-160/HMAC/MurmurHash3 functions in Lean (compared with hashlib/hmac "
            "and an independent murmur3 on every run); hashlib itself. PyCrypto is absent here: that selection branch is exercised with a stand-in module.",
    "technique": "Lean 4 proof (mod-2^32 homomorphism lemmas over Int bit operations, round/block/message induction, kernel-checked table equalities) "
                 "+ differential correspondence model vs implementation in child processes per configuration + hashlib/BIP37 oracles",
}
RULE = ("ops c19_rmd_py/c19_compress/c19_rol/c19_fi/c19_ripemd160/c19_hash160/c19_dsha256/c19_select/c19_murmur3/c19_bloom/c19_history/c19_pyint and the "
        "spec-validation ops sha256/dsha256/sha512/sha1/ripemd160_spec/hash160/hmac256/hmac512/murmur3_spec; boundary corpus (all lengths 0..300, "
        "padding boundaries 55/56/63/64/119/120/127/128, seeds 0, 2^32-1, 2^32, 2^64+1, negative; filter sizes 0..36001, 0..50 hash functions) + seeded "
        "random; distinct = distinct op line; trivial = spec-validation ops and c19_pyint (they do not touch pycoin)")
ASSUMPTIONS = [
    "hashlib.sha256 / hashlib.new('ripemd160') / hmac are modelled by the Lean standard-spec functions, which are validated against hashlib on every run, not verified",
    "RIPEMD-160 theorem: len(data) < 2^61 (beyond that struct.pack('<Q', 8*len) raises; proved as C19_ripemd160_py_overflow)",
    "murmur3 theorem: len(data) < 2^32 (the reference takes a 32-bit length; the code's `length & 0xFFFFFFFC` differs beyond it)",
    "PyCrypto's RIPEMD160Hash (not installed) is modelled by the standard function",
    "histories: a memoryview handed to the pure-Python RIPEMD-160 raises TypeError (`data[k:] + pad`) where hashlib accepts it; modelled, and outside the "
    "property's quantifier (byte strings), so the oracle does not judge those steps",
    "add_address is observed with Base58Check addresses built by pycoin's own encoder (Base58 itself belongs to C11)",
]
TRUSTED = ["harness/props/c19_worker.py patches hashlib (never pycoin) to reach the selection branches of get_best_ripemd160 that this sandbox's OpenSSL does not take"]
KNOWN: dict = {}

M32 = 0xFFFFFFFF
WORKER = str(Path(__file__).resolve().parent / "c19_worker.py")


# ------------------------------------------------------------------ independent references

def ref_murmur3(data: bytes, seed: int) -> int:
    """MurmurHash3_x86_32 from the reference algorithm, 32-bit arithmetic throughout"""
    def rotl(x, r):
        return ((x << r) | (x >> (32 - r))) & M32
    h = seed & M32
    n = len(data)
    for i in range(n // 4):
        k = int.from_bytes(data[4 * i:4 * i + 4], "little")
        k = (k * 0xCC9E2D51) & M32
        k = rotl(k, 15)
        k = (k * 0x1B873593) & M32
        h ^= k
        h = rotl(h, 13)
        h = (h * 5 + 0xE6546B64) & M32
    t = data[4 * (n // 4):]
    if t:
        k = int.from_bytes(t, "little")
        k = (k * 0xCC9E2D51) & M32
        k = rotl(k, 15)
        k = (k * 0x1B873593) & M32
        h ^= k
    h ^= n & M32
    h ^= h >> 16
    h = (h * 0x85EBCA6B) & M32
    h ^= h >> 13
    h = (h * 0xC2B2AE35) & M32
    h ^= h >> 16
    return h


def ref_bip37(size: int, nhash: int, tweak: int, items: list[bytes]) -> bytes:
    """BIP37: nIndex = murmur3(nHashNum * 0xFBA4C795 + nTweak, data) % (size*8); vData[nIndex >> 3] |= 1 << (7 & nIndex)"""
    v = bytearray(size)
    for it in items:
        for k in range(nhash):
            i = ref_murmur3(it, (k * 0xFBA4C795 + tweak) & M32) % (size * 8)
            v[i >> 3] |= 1 << (7 & i)
    return bytes(v)


def ref_bip37_contains(v: bytes, nhash: int, tweak: int, item: bytes) -> bool:
    for k in range(nhash):
        i = ref_murmur3(item, (k * 0xFBA4C795 + tweak) & M32) % (len(v) * 8)
        if not v[i >> 3] & (1 << (7 & i)):
            return False
    return True


def _selfcheck():
    vec = [(b"", 0, 0), (b"", 1, 0x514E28B7), (b"", M32, 0x81F16F39), (b"\xff\xff\xff\xff", 0, 0x76293B50),
           (bytes.fromhex("21436587"), 0, 0xF55B516B), (bytes.fromhex("21436587"), 0x5082EDEE, 0x2362F9DE),
           (bytes.fromhex("214365"), 0, 0x7E4A8634), (bytes.fromhex("2143"), 0, 0xA0F7B07A), (bytes.fromhex("21"), 0, 0x72661CF4),
           (b"\0\0\0\0", 0, 0x2362F9DE), (b"Hello, world!", 0x9747B28C, 0x24884CBA),
           (b"The quick brown fox jumps over the lazy dog", 0x9747B28C, 0x2FA826CD)]
    for d, s, e in vec:
        if ref_murmur3(d, s) != e:
            raise Infra("harness reference murmur3 fails its published vector %r" % ((d, s),))
    core = [bytes.fromhex(x) for x in ("99108ad8ed9bb6274d3980bab5a85c048f0950c8", "b5a2c786d9ef4658287ced5914b37a1b4aa32eee",
                                       "b9300670b4c5366e95b2699e8b18bc75e5f729c5")]
    if ref_bip37(3, 5, 0, core).hex() != "614e9b" or ref_bip37(3, 5, 2147483649, core).hex() != "ce4299":
        raise Infra("harness BIP37 reference fails Bitcoin Core's bloom_tests vectors")


_selfcheck()


# ------------------------------------------------------------------ configurations: child processes

_workers: dict = {}


def _worker(env: str, alg: str, works: str, pc: str):
    key = (env, alg, works, pc)
    w = _workers.get(key)
    if w is None:
        e = dict(os.environ)
        e["PYTHONPATH"] = str(REPO)
        e["PYTHONDONTWRITEBYTECODE"] = "1"
        w = subprocess.Popen(["/venv/bin/python", WORKER, env, alg, works, pc], stdin=subprocess.PIPE, stdout=subprocess.PIPE,
                             env=e, text=True, bufsize=1)
        _workers[key] = w
    return w


WORKER_DEADLINE_S = 120     # one request never takes more than a fraction of a second; a worker that is silent this long is stuck
DRIVER_PREFLIGHT_S = 120


def _ask(key, line: str) -> str:
    """one request, one answer line, with a deadline: a stuck worker is killed and reported as an infrastructure error"""
    import select
    w = _worker(*key)
    try:
        w.stdin.write(line + "\n")
        w.stdin.flush()
        ready, _, _ = select.select([w.stdout], [], [], WORKER_DEADLINE_S)
        if not ready:
            w.kill()
            _workers.pop(key, None)
            raise Infra("C19 worker %r did not answer within %d s: %s" % (key, WORKER_DEADLINE_S, line[:80]))
        r = w.stdout.readline()
    except (BrokenPipeError, OSError) as e:
        raise Infra("C19 worker %r died: %s" % (key, e))
    if not r:
        raise Infra("C19 worker %r gave no answer to %s" % (key, line[:80]))
    return r.rstrip("\n")


@atexit.register
def _close():
    for w in _workers.values():
        try:
            w.stdin.close()
            w.wait(timeout=5)
        except Exception:  # noqa: BLE001
            w.kill()


CFG = {"native": ("none", "1", "1", "0"), "python": ("=31", "1", "1", "0")}   # '=31' is "1"
_facts: dict = {}


def sandbox_facts():
    """what the unpatched interpreter offers: is ripemd160 listed / working in hashlib here?"""
    if not _facts:
        r = _ask(CFG["native"], "facts")
        _facts["listed"] = "listed=1" in r
        _facts["works"] = "works=1" in r
        _facts["native_choice"] = _ask(CFG["native"], "which")[3:]
        _facts["python_choice"] = _ask(CFG["python"], "which")[3:]
    return _facts


def hashlib_ripemd160(b: bytes) -> bytes:
    """independent reference: OpenSSL through hashlib (present in this sandbox; otherwise infrastructure error)"""
    try:
        return hashlib.new("ripemd160", b).digest()
    except Exception as e:  # noqa: BLE001
        raise Infra("hashlib has no working ripemd160 here, no independent reference: %s" % e)


# ------------------------------------------------------------------ implementation side

def _ints(s):
    return [] if s == "~" else [int(x) for x in s.split(",")]


def _items(s):
    """-> list of (kind, payload bytes used for matching or None, adder(filter))"""
    res = []
    if s == "~":
        return res
    for it in s.split(","):
        p = it.split(":")
        if p[0] == "i":
            b = unhx(p[1])
            res.append((b, lambda f, b=b: f.add_item(b)))
        elif p[0] == "h":
            b = unhx(p[1])
            res.append((b, lambda f, b=b: f.add_hash160(b)))
        elif p[0] == "a":
            b = unhx(p[1])
            addr = b2a_hashed_base58(b"\x00" + b)
            res.append((b, lambda f, addr=addr: f.add_address(addr)))
        elif p[0] == "s":
            h, i = unhx(p[1]), int(p[2])
            sp = BTC.tx.Spendable(1, b"\x51", h, i)
            b = h + i.to_bytes(4, "little") if 0 <= i < 2 ** 32 else None
            res.append((b, lambda f, sp=sp: f.add_spendable(sp)))
        else:
            raise ValueError("bad item")
    return res


def _matches(f, b: bytes) -> bool:
    """peer-side test through pycoin's own murmur3 and check_bit"""
    ok = True
    for k in range(f.hash_function_count):
        ok = f.check_bit(BF.murmur3(b, seed=k * 0xFBA4C795 + f.tweak) % f.bit_count) and ok
    return ok


def impl(op: str) -> str:
    a = op.split(" ")
    k = a[0]
    try:
        # --- validation of the Lean standard-spec functions: the reference is hashlib / hmac / ref_murmur3
        if k == "sha256":
            return "ok " + hashlib.sha256(unhx(a[1])).hexdigest()
        if k == "dsha256":
            return "ok " + hashlib.sha256(hashlib.sha256(unhx(a[1])).digest()).hexdigest()
        if k == "sha512":
            return "ok " + hashlib.sha512(unhx(a[1])).hexdigest()
        if k == "sha1":
            return "ok " + hashlib.sha1(unhx(a[1])).hexdigest()
        if k == "ripemd160_spec":
            return "ok " + hashlib_ripemd160(unhx(a[1])).hex()
        if k == "hash160":
            return "ok " + hashlib_ripemd160(hashlib.sha256(unhx(a[1])).digest()).hex()
        if k == "hmac256":
            return "ok " + hmac.new(unhx(a[1]), unhx(a[2]), hashlib.sha256).hexdigest()
        if k == "hmac512":
            return "ok " + hmac.new(unhx(a[1]), unhx(a[2]), hashlib.sha512).hexdigest()
        if k == "murmur3_spec":
            return "ok %d" % ref_murmur3(unhx(a[1]), int(a[2]))
        if k == "c19_pyint":
            x, y = int(a[2]), int(a[3])
            o = a[1]
            return "ok %d" % (x & y if o == "and" else x | y if o == "or" else x ^ y if o == "xor" else ~x if o == "not"
                              else x << y if o == "shl" else x >> y)
        # --- pycoin
        if k == "c19_rmd_py":
            return "ok " + hx(RMD.ripemd160(unhx(a[1])))
        if k == "c19_compress":
            st = _ints(a[1])
            return "ok " + ",".join(str(v) for v in RMD.compress(*st, unhx(a[2])))
        if k == "c19_rol":
            return "ok %d" % RMD.rol(int(a[1]), int(a[2]))
        if k == "c19_fi":
            return "ok %d" % RMD.fi(int(a[1]), int(a[2]), int(a[3]), int(a[4]))
        if k == "c19_select":
            return _ask((a[2], a[1], a[3], a[4]), "which")
        if k == "c19_ripemd160":
            return _ask(CFG[a[1]], "ripemd160 " + a[2])
        if k == "c19_hash160":
            return _ask(CFG[a[1]], "hash160 " + a[2])
        if k == "c19_history":
            return _ask(CFG[a[1]], "history " + a[2])
        if k == "c19_dsha256":
            d = EH.double_sha256(unhx(a[1]))
            return "ok %s %s" % (hx(bytes(d)), str(d))
        if k == "c19_murmur3":
            return "ok %d" % BF.murmur3(unhx(a[1]), seed=int(a[2]))
        if k == "c19_bloom":
            f = BF.BloomFilter(int(a[1]), int(a[2]), int(a[3]))
            its = _items(a[4])
            for _b, add in its:
                add(f)
            ms = "".join("1" if (b is not None and _matches(f, b)) else "0" for b, _ in its) or "~"
            fb, nh, tw = f.filter_load_params()
            if nh != int(a[2]) or tw != int(a[3]):
                return "ok filter_load_params-mismatch"
            return "ok %s %s" % (hx(bytes(fb)), ms)
    except Infra:
        raise
    except Exception as e:  # noqa: BLE001
        return "err " + type(e).__name__
    return "bad-op"


# ------------------------------------------------------------------ the property on the implementation alone

def oracle(op: str, out: str):
    a = op.split(" ")
    k = a[0]
    if k == "c19_rmd_py":
        if out != "ok " + hashlib_ripemd160(unhx(a[1])).hex():
            return "pycoin.contrib.ripemd160.ripemd160 differs from the standard RIPEMD-160 digest (hashlib)"
    elif k == "c19_ripemd160":
        if out != "ok " + hashlib_ripemd160(unhx(a[2])).hex():
            return "pycoin.encoding.hash.ripemd160 (%s configuration) differs from the standard digest" % a[1]
    elif k == "c19_hash160":
        if out != "ok " + hashlib_ripemd160(hashlib.sha256(unhx(a[2])).digest()).hex():
            return "hash160 (%s configuration) is not RIPEMD-160(SHA-256(x))" % a[1]
    elif k == "c19_dsha256":
        d = hashlib.sha256(hashlib.sha256(unhx(a[1])).digest()).digest()
        if out != "ok %s %s" % (d.hex(), d[::-1].hex()):
            return "double_sha256 is not SHA-256(SHA-256(x)) / its text form is not the reversed hex"
    elif k == "c19_murmur3":
        if out != "ok %d" % ref_murmur3(unhx(a[1]), int(a[2]) & M32):
            return "murmur3 differs from MurmurHash3 x86_32 with the seed taken mod 2^32"
    elif k == "c19_compress" and out.startswith("ok "):
        # wider or negative chaining values act mod 2^32
        st = _ints(a[1])
        red = impl("c19_compress %s %s" % (",".join(str(v & M32) for v in st), a[2]))
        if not red.startswith("ok ") or [v & M32 for v in _ints(out[3:])] != [v & M32 for v in _ints(red[3:])]:
            return "compress is not a function of the chaining value mod 2^32"
    elif k == "c19_history":
        if not out.startswith("ok"):
            return "history raised " + out
        got = out[3:].split(";") if len(out) > 3 else []
        exp = history_expected(a[1], a[2])
        steps = [] if a[2] == "~" else a[2].split(",")
        if len(got) != len(exp):
            return "history printed %d answers for %d steps" % (len(got), len(exp))
        for n, (g, e) in enumerate(zip(got, exp)):
            if e is not None and g != (e or "-"):
                return ("history, %s configuration: an answer is not the standard digest / BIP37 value of the contents the "
                        "buffer has at that step (step %d, call `%s`: got %s, expected %s)" % (a[1], n, steps[n].split(":")[0], g[:40], (e or "-")[:40]))
    elif k == "c19_select":
        truthy = a[2] not in ("none", "=")
        if out == "ok native" and (truthy or a[1] == "0" or a[3] == "0"):
            return "native RIPEMD-160 selected although it was disabled or unavailable"
    elif k == "c19_bloom":
        size, nh, tw = int(a[1]), int(a[2]), int(a[3])
        if size > 36000 or size < 0:
            return None if out.startswith("err") else "over-sized filter accepted"
        try:
            its = _items(a[4])
        except Exception:  # noqa: BLE001
            return None
        if any(b is None for b, _ in its):
            return None
        if size == 0 and nh > 0 and its:
            return None          # no bit positions exist; the implementation raises ZeroDivisionError
        exp = ref_bip37(size, max(nh, 0), tw, [b for b, _ in its])
        if not out.startswith("ok "):
            return "adding to a Bloom filter raised " + out
        got = out.split(" ")
        if got[1] != hx(exp):
            return "filter bytes differ from the BIP37 bit positions"
        if got[2] != ("1" * len(its) or "~"):
            return "an added element does not match the filter"
        if any(not ref_bip37_contains(exp, max(nh, 0), tw, b) for b, _ in its):
            return "an added element does not match the filter (BIP37 contains)"
    return None


def history_expected(cfg: str, script: str):
    """reference answers of a history: hashlib / reference murmur3 / BIP37 on the contents each buffer has at call time;
    None where the property does not speak (a memoryview handed to code that needs a byte string, error steps)"""
    data, kind = {}, {}
    filt = None      # (size, nh, tweak, bytearray)
    exp = []
    for st in ([] if script == "~" else script.split(",")):
        p = st.split(":")
        k = p[0]
        try:
            if k in ("ny", "na", "nm"):
                data[int(p[1])], kind[int(p[1])] = unhx(p[2]), k[1]
                exp.append(".")
            elif k == "s":
                if int(p[1]) not in data:
                    exp.append(None)
                else:
                    data[int(p[1])] = unhx(p[2])
                    exp.append(".")
            elif k in ("r", "h", "d", "c"):
                i = int(p[1])
                if i not in data or (kind[i] == "m" and (k == "c" or (k == "r" and cfg == "python"))):
                    exp.append(None)
                elif k in ("r", "c"):
                    exp.append(hashlib_ripemd160(data[i]).hex())
                elif k == "h":
                    exp.append(hashlib_ripemd160(hashlib.sha256(data[i]).digest()).hex())
                else:
                    exp.append(hashlib.sha256(hashlib.sha256(data[i]).digest()).hexdigest())
            elif k == "m":
                exp.append(str(ref_murmur3(data[int(p[1])], int(p[2]) & M32)) if int(p[1]) in data else None)
            elif k == "bn":
                size, nh, tw = int(p[1]), int(p[2]), int(p[3])
                if 0 < size <= 36000:
                    filt = (size, max(nh, 0), tw, bytearray(size))
                    exp.append(".")
                else:
                    exp.append(None)
                    if size == 0:
                        filt = (0, max(nh, 0), tw, bytearray(0))
            elif k == "ba":
                if filt is None or int(p[1]) not in data or filt[0] == 0:
                    exp.append(None)
                else:
                    new = ref_bip37(filt[0], filt[1], filt[2], [data[int(p[1])]])
                    for j, b in enumerate(new):
                        filt[3][j] |= b
                    exp.append(".")
            elif k == "bf":
                exp.append(None if filt is None else hx(bytes(filt[3])))
            elif k == "bc":
                if filt is None or int(p[1]) not in data or filt[0] == 0:
                    exp.append(None)
                else:
                    exp.append("1" if ref_bip37_contains(bytes(filt[3]), filt[1], filt[2], data[int(p[1])]) else "0")
            else:
                exp.append(None)
        except Exception:  # noqa: BLE001
            exp.append(None)
    return exp


def gen_history(rng, cfg=None):
    """a history that overwrites ONE buffer object in place between calls, and repeats equal contents in other objects"""
    def rb(n):
        return bytes(rng.randrange(256) for _ in range(n))
    steps = []
    nbuf = rng.randint(1, 3)
    kinds = [rng.choice("yaaam") for _ in range(nbuf)]
    pool = [rb(rng.choice([0, 1, 20, 32, 33, 55, 56, 63, 64, 65, rng.randrange(0, 130)])) for _ in range(rng.randint(1, 3))]
    for i in range(nbuf):
        steps.append("n%s:%d:%s" % (kinds[i], i, hx(rng.choice(pool))))
    if rng.random() < 0.6:
        steps.append("bn:%d:%d:%d" % (rng.choice([1, 2, 3, 8, 16, 64]), rng.randint(1, 6), rng.choice([0, 5, M32, 2 ** 32 + 3, -1])))
    calls = ["r", "r", "r", "h", "d", "c", "m", "ba", "bc", "bf"]
    for _ in range(rng.randint(3, 12)):
        i = rng.randrange(nbuf)
        c = rng.choice(calls)
        if rng.random() < 0.45:
            # overwrite in place: same length (a single changed byte), a pool value (equal contents, other object), or a new length
            cur = None
            for st in reversed(steps):
                q = st.split(":")
                if q[0] in ("s", "ny", "na", "nm") and int(q[1]) == i:
                    cur = unhx(q[2])
                    break
            mode = rng.randrange(4)
            if mode == 0 and cur:
                j = rng.randrange(len(cur))
                new = cur[:j] + bytes([cur[j] ^ (1 << rng.randrange(8))]) + cur[j + 1:]
            elif mode == 1:
                new = rng.choice(pool)
            elif mode == 2 and cur is not None:
                new = rb(len(cur))
            else:
                new = rb(rng.randrange(0, 130))
            steps.append("s:%d:%s" % (i, hx(new)))
        steps.append("m:%d:%d" % (i, rng.choice([0, 1, M32, 2 ** 32 + 1, -7])) if c == "m" else ("bf" if c == "bf" else "%s:%d" % (c, i)))
    return "c19_history %s %s" % (cfg or rng.choice(["native", "python"]), ",".join(steps))


SPEC_OPS = {"sha256", "dsha256", "sha512", "sha1", "ripemd160_spec", "hash160", "hmac256", "hmac512", "murmur3_spec", "c19_pyint"}


def trivial(op: str) -> bool:
    return op.split(" ", 1)[0] in SPEC_OPS


BOUNDARY_LENS = [0, 1, 3, 4, 5, 31, 32, 33, 54, 55, 56, 57, 62, 63, 64, 65, 110, 111, 112, 113, 118, 119, 120, 121, 126, 127, 128, 129,
                 183, 184, 191, 192, 247, 248, 255, 256, 257]


def neighbours(op, rng):
    a = op.split(" ")
    k = a[0]

    def rb(n):
        return bytes(rng.randrange(256) for _ in range(n))
    if k in ("c19_rmd_py", "c19_compress", "c19_rol", "c19_fi"):
        for n in BOUNDARY_LENS + [rng.randrange(0, 400) for _ in range(40)]:
            yield "c19_rmd_py " + hx(rb(n))
    elif k in ("c19_ripemd160", "c19_hash160"):
        for n in BOUNDARY_LENS + [rng.randrange(0, 400) for _ in range(40)]:
            yield "%s %s %s" % (k, a[1], hx(rb(n)))
    elif k == "c19_dsha256":
        for n in BOUNDARY_LENS:
            yield "c19_dsha256 " + hx(rb(n))
    elif k == "c19_murmur3":
        d = unhx(a[1])
        for s in (0, 1, M32, 2 ** 32, 2 ** 64 + 1, -1, int(a[2])):
            for n in range(0, 9):
                yield "c19_murmur3 %s %d" % (hx(rb(n)), s)
            yield "c19_murmur3 %s %d" % (hx(d), s)
    elif k == "c19_history":
        for _ in range(80):
            yield gen_history(rng, a[1])
    elif k == "c19_bloom":
        for _ in range(60):
            yield "c19_bloom %d %d %d i:%s" % (rng.randint(1, 8), rng.randint(1, 6), rng.choice([0, 1, M32, 2 ** 32, -1]), hx(rb(rng.randint(0, 9))))


ANCHORS = ["pycoin/encoding/hash.py", "pycoin/contrib/ripemd160.py", "pycoin/bloomfilter.py", "pycoin/encoding/hexbytes.py"]
FINGERPRINT_FILE = Path(__file__).resolve().parent / "c19_fingerprint.json"


def source_fingerprint() -> dict:
    """hash of the normalised AST (comments and layout dropped) of every anchored file"""
    import ast
    res = {}
    for a in ANCHORS:
        try:
            res[a] = hashlib.sha256(ast.dump(ast.parse((REPO / a).read_text())).encode()).hexdigest()[:16]
        except Exception as e:  # noqa: BLE001
            res[a] = "unparsable:" + type(e).__name__
    return res


def driver_preflight():
    """the model driver must answer a handful of cheap ops promptly before the whole case list is handed to it
    (lib.run_driver allows an hour): a model that loops is an infrastructure error, and the check ends"""
    from lib import DRV
    ops = ["c19_murmur3 00010203040506 1", "c19_rmd_py 00", "c19_bloom 8 3 0 i:00", "c19_history python na:0:00,r:0,m:0:1"]
    try:
        p = subprocess.run([str(DRV)], input=("\n".join(ops) + "\n").encode(), capture_output=True, timeout=DRIVER_PREFLIGHT_S)
    except subprocess.TimeoutExpired:
        raise Infra("the model driver did not answer %d trivial C19 ops within %d s" % (len(ops), DRIVER_PREFLIGHT_S))
    if p.returncode != 0 or len(p.stdout.decode().strip().split("\n")) != len(ops):
        raise Infra("the model driver failed the C19 preflight: rc=%d %s" % (p.returncode, p.stderr.decode()[-300:]))


def gen(ctx, emit):
    rng = ctx.rng
    driver_preflight()
    # DESIGN §2.3: a changed source fingerprint is not a violation; it deepens the differential look of this run
    import json
    fp = source_fingerprint()
    known_fp = json.loads(FINGERPRINT_FILE.read_text()) if FINGERPRINT_FILE.exists() else {}
    changed = sorted(a for a in ANCHORS if known_fp.get(a) != fp[a])
    ctx.extra_cov["source_fingerprint"] = fp
    if changed and not ctx.thorough and os.environ.get("VERIF_ESCALATE") != "1":   # (lib.Ctx.n escalates by itself then)
        ctx.note("source fingerprint changed for %s: quick budgets raised x6 for this run" % ", ".join(changed))
        _n = ctx.n
        ctx.n = lambda q, t: _n(q * 6, t)
    facts = sandbox_facts()
    ctx.note("sandbox: hashlib lists ripemd160=%s, hashlib ripemd160 works=%s; default configuration selects %s, "
             "PYCOIN_USE_PYTHON_RIPEMD160=1 selects %s" % (facts["listed"], facts["works"], facts["native_choice"], facts["python_choice"]))
    # (if PYCOIN_USE_PYTHON_RIPEMD160=1 does not select the fallback, the c19_select cases below report it)

    def rb(n):
        return bytes(rng.randrange(256) for _ in range(n))

    # ---- 1. validation of the standard-spec functions (all lengths 0..300, the padding boundaries of both block sizes)
    for n in range(0, 301):
        m = hx(rb(n))
        for o in ("sha256", "sha512", "sha1", "ripemd160_spec"):
            emit("%s %s" % (o, m))
        if n % 4 == 0 or n in BOUNDARY_LENS:
            emit("dsha256 " + m)
            emit("hash160 " + m)
    for kl in (0, 1, 20, 32, 55, 56, 63, 64, 65, 111, 112, 119, 120, 127, 128, 129, 200):
        for n in (0, 1, 55, 56, 63, 64, 111, 112, 119, 120, 127, 128, 200):
            key, m = hx(rb(kl)), hx(rb(n))
            emit("hmac256 %s %s" % (key, m))
            emit("hmac512 %s %s" % (key, m))
    for _ in range(ctx.n(150, 4000)):
        n = rng.choice([rng.randrange(0, 300), rng.randrange(300, 5000)])
        m = hx(rb(n))
        o = rng.choice(["sha256", "sha512", "sha1", "ripemd160_spec", "dsha256", "hash160"])
        emit("%s %s" % (o, m))
        emit("hmac%s %s %s" % (rng.choice(["256", "512"]), hx(rb(rng.choice([0, 16, 32, 64, 65, 128, 129, rng.randrange(0, 300)]))), m))
    emit("sha256 " + hx(rb(100000)))
    emit("sha512 " + hx(rb(100000)))
    emit("hmac512 %s %s" % (hx(rb(32)), hx(rb(100000))))
    # Python int semantics the models rely on (& | ^ ~ << >> on negative and wide values)
    edge = [0, 1, -1, 2, -2, 255, 2 ** 31, 2 ** 32 - 1, 2 ** 32, -2 ** 32, 2 ** 32 + 1, -(2 ** 31), 2 ** 64 + 1, -(2 ** 64) - 1, 0x5A5A5A5A5A]
    for x in edge:
        emit("c19_pyint not %d 0" % x)
        for y in edge:
            for o in ("and", "or", "xor"):
                emit("c19_pyint %s %d %d" % (o, x, y))
        for s in (0, 1, 7, 31, 32, 33, 64, -1):
            emit("c19_pyint shl %d %d" % (x, s))
            emit("c19_pyint shr %d %d" % (x, s))
    for _ in range(ctx.n(300, 5000)):
        x = rng.randrange(-2 ** rng.randint(1, 70), 2 ** rng.randint(1, 70))
        y = rng.randrange(-2 ** rng.randint(1, 70), 2 ** rng.randint(1, 70))
        emit("c19_pyint %s %d %d" % (rng.choice(["and", "or", "xor"]), x, y))
        emit("c19_pyint %s %d %d" % (rng.choice(["shl", "shr"]), x, rng.randint(0, 70)))

    # ---- 2. RIPEMD-160: pure Python directly, and through encoding/hash.py in both configurations
    for n in range(0, 301):
        emit("c19_rmd_py " + hx(rb(n)))
    for n in BOUNDARY_LENS:
        for fill in (b"\x00", b"\xff", b"\x80"):
            emit("c19_rmd_py " + hx(fill * n))
        m = hx(rb(n))
        for cfg in ("native", "python"):
            emit("c19_ripemd160 %s %s" % (cfg, m))
            emit("c19_hash160 %s %s" % (cfg, m))
        emit("c19_dsha256 " + m)
    for m in (b"", b"a", b"abc", b"message digest", b"abcdefghijklmnopqrstuvwxyz", b"abcdbcdecdefdefgefghfghighijhijkijkljklmklmnlmnomnopnopq",
              b"ABCDEFGHIJKLMNOPQRSTUVWXYZabcdefghijklmnopqrstuvwxyz0123456789", b"1234567890" * 8):
        emit("c19_rmd_py " + hx(m))
    for _ in range(ctx.n(250, 12000)):
        n = rng.choice([rng.randrange(0, 200), rng.randrange(0, 200), rng.randrange(200, 1500), 64 * rng.randint(1, 12) + rng.choice([-9, -8, -1, 0, 1, 55, 56])])
        m = hx(rb(max(n, 0)))
        emit("c19_rmd_py " + m)
        cfg = rng.choice(["native", "python"])
        emit("c19_hash160 %s %s" % (cfg, m))
        emit("c19_ripemd160 %s %s" % (rng.choice(["native", "python"]), m))
        if rng.random() < 0.3:
            emit("c19_dsha256 " + m)
    # bit lengths crossing 2^16 and 2^19 (the 64-bit length field beyond its low bytes)
    for n in (8191, 8192, 8193, 65537):
        emit("c19_rmd_py " + hx(rb(n)))
    emit("c19_hash160 python " + hx(rb(8192)))
    emit("c19_murmur3 %s %d" % (hx(rb(8193)), 2 ** 32 + 7))
    if ctx.thorough:
        emit("c19_rmd_py " + hx(rb(20000)))
        emit("c19_hash160 python " + hx(rb(20000)))
    # compression function on chaining values that are not reduced (the code never masks them), rol / fi on signed and wide values
    wide = [0, 1, M32, 2 ** 32, 2 ** 32 + 1, 2 ** 33 - 1, -1, -(2 ** 32), 2 ** 64 + 1, 0x67452301]
    for _ in range(ctx.n(120, 4000)):
        st = [rng.choice(wide + [rng.randrange(0, 2 ** 32), rng.randrange(0, 2 ** 34), rng.randrange(-2 ** 40, 2 ** 40)]) for _ in range(5)]
        emit("c19_compress %s %s" % (",".join(map(str, st)), hx(rb(64))))
    emit("c19_compress 1,2,3,4,5 " + hx(rb(63)))
    emit("c19_compress 1,2,3,4,5 " + hx(rb(65)))
    for x in wide + [rng.randrange(-2 ** 40, 2 ** 40) for _ in range(ctx.n(40, 1000))]:
        for i in (0, 1, 5, 10, 15, 31, 32, 33, -1):
            emit("c19_rol %d %d" % (x, i))
    for i in (0, 1, 2, 3, 4, 5, -1):
        for _ in range(ctx.n(12, 400)):
            x, y, z = (rng.choice(wide + [rng.randrange(-2 ** 40, 2 ** 40)]) for _ in range(3))
            emit("c19_fi %d %d %d %d" % (x, y, z, i))
    # implementation selection: every combination of listed / env value / working / PyCrypto present
    for alg in "01":
        for works in "01":
            for pc in "01":
                for env in ("none", "=", "=31", "=30", "=" + b"yes".hex()):
                    emit("c19_select %s %s %s %s" % (alg, env, works, pc))

    # ---- 2b. histories: the same buffer object overwritten in place between calls, equal contents in other objects,
    # bytes / bytearray / memoryview, both configurations; the Bloom filter as a history object (add, read, add, …)
    x, y = hx(rb(20)), hx(rb(20))
    for cfg in ("native", "python"):
        for kd in "yam":
            for call in "rhdc":
                emit("c19_history %s n%s:0:%s,%s:0,s:0:%s,%s:0,s:0:%s,%s:0" % (cfg, kd, x, call, y, call, x, call))
            emit("c19_history %s n%s:0:%s,m:0:5,s:0:%s,m:0:5,m:0:4294967301" % (cfg, kd, x, y))
            emit("c19_history %s n%s:0:%s,bn:8:3:0,ba:0,bf,bc:0,s:0:%s,bc:0,ba:0,bf,bc:0" % (cfg, kd, x, y))
        emit("c19_history %s na:0:%s,ny:1:%s,r:0,r:1,s:0:%s,r:0,r:1,h:0,h:1" % (cfg, x, x, y))
        emit("c19_history %s na:0:-,r:0,s:0:%s,r:0,s:0:-,r:0,c:0" % (cfg, hx(rb(64))))
        emit("c19_history %s r:0,s:0:00,bf,ba:0,bc:0,bn:0:1:0,na:0:00,ba:0,bn:36001:1:0" % cfg)
        emit("c19_history %s ~" % cfg)
    for _ in range(ctx.n(500, 20000)):
        emit(gen_history(rng))

    # ---- 3. murmur3: every tail length, seeds of every width and sign
    seeds = [0, 1, M32, 2 ** 32, 2 ** 32 + 1, 2 ** 64 + 1, -1, -(2 ** 32) - 5, 0xFBA4C795, 0x9747B28C, 2 ** 31, 2 ** 31 - 1]
    for n in list(range(0, 18)) + [31, 32, 33, 63, 64, 65, 255, 256, 257]:
        for s in seeds:
            emit("c19_murmur3 %s %d" % (hx(rb(n)), s))
        emit("c19_murmur3 %s 0" % hx(b"\xff" * n))
        emit("c19_murmur3 %s %d" % (hx(b"\x00" * n), M32))
        emit("murmur3_spec %s %d" % (hx(rb(n)), rng.randrange(2 ** 32)))
    for d, s in ((b"", 0), (b"", 1), (b"", M32), (b"\xff\xff\xff\xff", 0), (bytes.fromhex("21436587"), 0x5082EDEE), (b"Hello, world!", 0x9747B28C),
                 (b"The quick brown fox jumps over the lazy dog", 0x9747B28C)):
        emit("c19_murmur3 %s %d" % (hx(d), s))
        emit("murmur3_spec %s %d" % (hx(d), s))
    for _ in range(ctx.n(600, 30000)):
        n = rng.choice([rng.randrange(0, 40), rng.randrange(0, 40), rng.randrange(40, 600)])
        s = rng.choice([rng.randrange(2 ** 32), rng.randrange(2 ** 32), rng.randrange(-2 ** 70, 2 ** 70), rng.choice(seeds)])
        d = hx(rb(n))
        emit("c19_murmur3 %s %d" % (d, s))
        emit("murmur3_spec %s %d" % (d, s & M32))

    # ---- 4. Bloom filter: Bitcoin Core's vectors, size / hash-count / tweak boundaries, histories of adds
    core = "i:99108ad8ed9bb6274d3980bab5a85c048f0950c8,i:b5a2c786d9ef4658287ced5914b37a1b4aa32eee,i:b9300670b4c5366e95b2699e8b18bc75e5f729c5"
    emit("c19_bloom 3 5 0 " + core)
    emit("c19_bloom 3 5 2147483649 " + core)
    emit("c19_bloom 3 5 0 " + core.replace("i:", "h:"))
    emit("c19_bloom 3 5 0 " + core.replace("i:", "a:"))
    tweaks = [0, 1, 5, M32, 2 ** 32, 2 ** 32 + 5, 2 ** 64 + 1, -1, 2147483649, 0xFBA4C795]
    for size in (0, 1, 2, 3, 7, 8, 9, 255, 256, 4096, 35999, 36000, 36001, -1):
        for nh in (0, 1, 2, 11, 50):
            if size > 1000 and nh not in (1, 50):
                continue
            emit("c19_bloom %d %d %d i:%s,i:%s" % (size, nh, rng.choice(tweaks), hx(rb(20)), hx(rb(36))))
    for tw in tweaks:
        emit("c19_bloom 16 7 %d i:%s,h:%s,a:%s,s:%s:%d" % (tw, hx(rb(5)), hx(rb(20)), hx(rb(20)), hx(rb(32)), rng.randrange(2 ** 32)))
    emit("c19_bloom 16 3 0 ~")
    emit("c19_bloom 16 3 0 i:-")
    emit("c19_bloom 16 3 0 s:%s:0" % hx(rb(32)))
    emit("c19_bloom 16 3 0 s:%s:4294967295" % hx(rb(32)))
    emit("c19_bloom 16 3 0 s:%s:4294967296" % hx(rb(32)))
    emit("c19_bloom 16 3 0 s:%s:-1" % hx(rb(32)))
    for _ in range(ctx.n(350, 12000)):
        size = rng.choice([rng.randint(1, 8), rng.randint(1, 64), rng.randint(1, 600)])
        if rng.random() < 0.01:
            size = rng.randint(20000, 36000)
        nh = rng.choice([rng.randint(1, 6), rng.randint(1, 50)])
        tw = rng.choice([rng.randrange(2 ** 32), rng.choice(tweaks), rng.randrange(-2 ** 66, 2 ** 66)])
        its = []
        for _i in range(rng.randint(1, 6)):
            kind = rng.choice("iiihas")
            if kind == "i":
                its.append("i:" + hx(rb(rng.choice([0, 1, 2, 3, 4, 5, 20, 32, 33, 36, 65, rng.randrange(0, 80)]))))
            elif kind in "ha":
                its.append("%s:%s" % (kind, hx(rb(20))))
            else:
                its.append("s:%s:%d" % (hx(rb(32)), rng.choice([0, 1, 2 ** 32 - 1, rng.randrange(2 ** 32)])))
        emit("c19_bloom %d %d %d %s" % (size, nh, tw, ",".join(its)))
