"""C20 — context-free transaction checks (Tx.check, is_coinbase, bad_solution_count) for the BTC, LTC, GRS, BCH, BTG classes."""
from __future__ import annotations

from lib import show_list
import txlib
from txlib import COINS, ZERO32, NULL_INDEX, parse_fields, show_fields, build_tx, fields_of, compact_size

from pycoin.coins.exceptions import ValidationFailureError

MANIFEST = {
    "text": "Lean theorems over the model of Tx.check (_check_tx_inout_count, _check_txs_out, _check_txs_in, _check_size_limit), is_coinbase and "
            "bad_solution_count: one rejection theorem per defect listed by the property (for all transactions, any position, exact boundaries), "
            "acceptance of every transaction without a listed defect whose serialisation is at most MAX_TX_SIZE, purity, coinbase exemption; "
            "per-coin MAX_MONEY/MAX_TX_SIZE regenerated from the classes; model tied to the code by differential correspondence through "
            "Tx.check/is_coinbase/bad_solution_count of the five Tx classes and by an independent Python reference of the property's list. "
            "Tx.coinbase_tx / TxIn.coinbase_tx_in are modelled (Model/CoinbaseTx.lean, C20_coinbase_tx: a coinbase, never unsigned, accepted exactly for "
            "script lengths 2..100 and amounts 0..MAX_MONEY).",
    "note": "Size rule: the code measures the witness-including serialisation; the property leaves transactions whose stripped size is within and total "
            "size above the limit undetermined, and so does the oracle. Object identity of TxIn (first duplicate test) is modelled by an id per position.",
    "technique": "Lean 4 proof (induction over an executable model) + differential correspondence model vs implementation + reference oracle",
}
RULE = ("op cb_tx (Tx.coinbase_tx for compressed/uncompressed/hybrid SEC keys x coinbase script lengths 0..3,99..102 x amounts 0/MAX/MAX+1/-1 per coin: "
        "fields, check(), is_coinbase(), bad_solution_count()); ops check_hist (histories on one object incl. the 1,000,000-byte boundary crossed by growing a script in place); check_tx/is_coinbase/bad_solution_count on transactions given field by field; boundary corpus (values 0/MAX/MAX+1 per coin, cumulative totals, "
        "duplicates at every pair of positions, coinbase script lengths 0..3,99..102, exact null vs zero-hash-other-index, sizes around 1,000,000) + seeded "
        "random single-defect and defect-free transactions; distinct = distinct op line; trivial = none")
ASSUMPTIONS = ["integer fields other than output values are within their wire ranges when the size rule is reached (otherwise struct.error leaves check(); modelled and compared, outside the property)",
               "ValidationFailureError messages are mapped to tags by a table in the harness"]

TAGS = {
    "txs_out = []": "txs_out_empty",
    "txs_in = []": "txs_in_empty",
    "tx_out value negative or out of range": "value_range",
    "tx_out total out of range": "total_range",
    "duplicate inputs": "duplicate_inputs",
    "bad coinbase script size": "bad_coinbase_script_size",
    "prevout is null": "prevout_null",
    "spendable reused": "spendable_reused",
    "size > MAX_TX_SIZE": "size_limit",
}

_RULE_TAG = None


def canon(op: str, out: str) -> str:
    """the property says WHETHER check() rejects, not with which message or for which of several defects: rule tags (and
    the tag for a message the table above does not know) are compared as `rejected`"""
    global _RULE_TAG
    if _RULE_TAG is None:
        import re
        _RULE_TAG = re.compile(r"\b(%s|unknown_message)\b" % "|".join(sorted(TAGS.values())))
    return _RULE_TAG.sub("rejected", out)


# the property's constants, written down independently of the code
COIN = 10 ** 8
REF_MAX_MONEY = {"btc": 21_000_000 * COIN, "ltc": 21_000_000 * COIN, "bch": 21_000_000 * COIN, "btg": 21_000_000 * COIN,
                 "grs": 105_000_000 * COIN}
REF_MAX_SIZE = 1_000_000

_PURE: dict = {}
_AMBIENT: dict = {}
_HIST: dict = {}


def _snapshot(tx):
    try:
        b = tx.as_bin()
    except Exception as e:  # noqa: BLE001
        b = "raised " + type(e).__name__
    return (b, fields_of(tx), [id(t) for t in tx.txs_in], [id(t) for t in tx.txs_out], list(tx.unspents))


def _cb_tx(a):
    T = txlib.TX(a[1])
    sec, cb = (b"" if a[2] == "-" else bytes.fromhex(a[2])), (b"" if a[4] == "-" else bytes.fromhex(a[4]))
    tx = T.coinbase_tx(sec, int(a[3]), cb, version=int(a[5]), lock_time=int(a[6]))
    try:
        tx.check()
        verdict = "ok"
    except ValidationFailureError as e:
        verdict = "err:" + TAGS.get(str(e), "unknown_message")
    except Exception as e:  # noqa: BLE001
        verdict = "err:raised:" + type(e).__name__
    return "ok %s %s %d %d" % (txlib.dump_tx(tx), verdict, 1 if tx.is_coinbase() else 0, tx.bad_solution_count())


def impl(op: str) -> str:
    a = op.split(" ")
    k = a[0]
    if k == "cb_tx":
        try:
            return _cb_tx(a)
        except Exception as e:  # noqa: BLE001
            return "err " + type(e).__name__
    if k == "check_hist":
        try:
            res, why = txlib.run_history(a[1], parse_fields(a[2]), a[3].split("!"))
        except Exception as e:  # noqa: BLE001
            return "bad-op " + type(e).__name__
        _HIST[op] = why
        return res
    try:
        coin = a[1]
        f = parse_fields(a[2])
        ids = None
        if k == "check_tx" and len(a) > 3:
            ids = [int(x) for x in a[3].split(",")] if a[3] != "~" else []
        tx = build_tx(coin, f, ids)
    except Exception as e:  # noqa: BLE001
        return "bad-op " + type(e).__name__
    if k == "check_tx":
        before = _snapshot(tx)
        try:
            tx.check()
            res = "ok"
        except ValidationFailureError as e:
            res = "err " + TAGS.get(str(e), "unknown_message")
        except Exception as e:  # noqa: BLE001
            res = "err raised:" + type(e).__name__
        _PURE[op] = before == _snapshot(tx)
        # ambient state: MAX_MONEY is a decimal.Decimal (SATOSHI_PER_COIN is), so arithmetic on it is rounded to the thread's
        # decimal context; the verdict must not depend on a context precision the application has lowered
        if not any(len(s) > 2000 for _h, _i, s, _q, _w in f[2]) and not any(len(s) > 2000 for _v, s in f[3]):
            import decimal
            with decimal.localcontext() as dctx:
                dctx.prec = 6
                try:
                    tx.check()
                    low = "ok"
                except ValidationFailureError as e:
                    low = "err " + TAGS.get(str(e), "unknown_message")
                except Exception as e:  # noqa: BLE001
                    low = "err raised:" + type(e).__name__
            if low != res:
                _AMBIENT[op] = low
        return res
    if k == "is_coinbase":
        return "ok %d" % (1 if tx.is_coinbase() else 0)
    if k == "bad_solution_count":
        try:
            return "ok %d" % tx.bad_solution_count()
        except Exception as e:  # noqa: BLE001
            return "err " + type(e).__name__
    return "bad-op"


# ---------------------------------------------------------------- the property, evaluated independently

def ref_is_null(i):
    return i[0] == ZERO32 and i[1] == NULL_INDEX


def ref_is_coinbase(f):
    return len(f[2]) == 1 and ref_is_null(f[2][0])


def ref_defects(coin, f):
    v, lock, ins, outs = f
    mm = REF_MAX_MONEY[coin]
    d = []
    if not ins:
        d.append("no inputs")
    if not outs:
        d.append("no outputs")
    tot = 0
    for val, _s in outs:
        if val < 0 or val > mm:
            d.append("output value out of range")
        tot += val
        if tot < 0 or tot > mm:
            d.append("running total out of range")
    ops = [(i[0], i[1]) for i in ins]
    if len(set(ops)) != len(ops):
        d.append("duplicate outpoint")
    if ref_is_coinbase(f):
        if not (2 <= len(ins[0][2]) <= 100):
            d.append("coinbase script size")
    elif any(ref_is_null(i) for i in ins):
        d.append("null outpoint in non-coinbase")
    if txlib.fields_in_range(f) and len(txlib.ref_legacy(f)) > REF_MAX_SIZE:
        d.append("stripped size")
    return d


def _oracle(op: str, out: str):
    a = op.split(" ")
    k = a[0]
    coin = a[1]
    f = parse_fields(a[2])
    if k == "check_hist":
        why = _HIST.get(op)
        if why:
            return why
        # the property's list on the fields as they are at each `check` step (an independent replay of the mutators)
        return _hist_reference(coin, f, a[3].split("!"), out)
    if k == "check_tx":
        if op in _AMBIENT:
            return "check() answers %s under a decimal context of precision 6 and %s under the default context" % (_AMBIENT[op], out)
        if _PURE.get(op) is False:
            return "check() modified the transaction (as_bin / fields / object lists differ before and after)"
        d = ref_defects(coin, f)
        if d and out == "ok":
            return "accepted although: " + ", ".join(d)
        if d and out.startswith("err raised:"):
            return "a listed defect (%s) left check() as %s instead of ValidationFailureError" % (", ".join(d), out[11:])
        if not d and out.startswith("err") and not out.startswith("err raised:"):
            if txlib.fields_in_range(f) and len(txlib.ref_wire(f)) <= REF_MAX_SIZE:
                return "rejected (%s) although no listed defect and total size <= 1,000,000" % out[4:]
        if not d and out.startswith("err raised:") and txlib.fields_in_range(f):
            return "check() raised %s on a transaction with in-range fields" % out[11:]
    if k == "is_coinbase" and out.startswith("ok"):
        if out != "ok %d" % (1 if ref_is_coinbase(f) else 0):
            return "is_coinbase() differs from: exactly one input, and it spends the null outpoint (zero hash, index 0xffffffff)"
    if k == "bad_solution_count":
        if ref_is_coinbase(f) and out != "ok 0":
            return "coinbase transaction counted as having unsigned inputs"
    return None


def _hist_reference(coin, f, steps, out):
    """replay the mutators on plain field tuples and hold every `check` answer against the property's list"""
    if not out.startswith("ok "):
        return None
    answers = out[3:].split("!")
    v, lock, ins, outs = f
    ins = [list(i) for i in ins]
    outs = [list(o) for o in outs]
    for st, ans in zip(steps, answers):
        a = st.split("=")
        k = a[0]
        if ans.startswith("err:") and k not in txlib.OBSERVERS:
            continue
        if k == "script":
            ins[int(a[1])][2] = txlib.parse_bytes(a[2])
        elif k in ("witness", "setwit"):
            ins[int(a[1])][4] = [] if a[2] == "~" else [txlib.parse_bytes(y) for y in a[2].split("/")]
        elif k == "seq":
            ins[int(a[1])][3] = int(a[2])
        elif k == "idx":
            ins[int(a[1])][1] = int(a[2])
        elif k == "phash":
            ins[int(a[1])][0] = txlib.parse_bytes(a[2])
        elif k == "oval":
            outs[int(a[1])][0] = int(a[2])
        elif k == "oscript":
            outs[int(a[1])][1] = txlib.parse_bytes(a[2])
        elif k == "addin":
            h, i, sc, q, w = a[1].split(":")
            ins.append([txlib.parse_bytes(h), int(i), txlib.parse_bytes(sc), int(q), [] if w == "~" else [txlib.parse_bytes(y) for y in w.split("/")]])
        elif k == "delin":
            del ins[int(a[1])]
        elif k == "addout":
            val, sc = a[1].split(":")
            outs.append([int(val), txlib.parse_bytes(sc)])
        elif k == "delout":
            del outs[int(a[1])]
        elif k == "ver":
            v = int(a[1])
        elif k == "lock":
            lock = int(a[1])
        cur = (v, lock, [tuple(i) for i in ins], [tuple(o) for o in outs])
        if k == "check":
            d = ref_defects(coin, cur)
            if d and ans == "ok":
                return "check() after a history accepted although the transaction now has: " + ", ".join(d)
            if not d and ans != "ok" and not ans.startswith("raised:") and txlib.fields_in_range(cur) and len(txlib.ref_wire(cur)) <= REF_MAX_SIZE:
                return "check() after a history rejected (%s) although the transaction now has no listed defect and total size <= 1,000,000" % ans
        if k == "is_coinbase" and ans != ("1" if ref_is_coinbase(cur) else "0"):
            return "is_coinbase() after a history differs from the current fields"
        if k == "bad" and ref_is_coinbase(cur) and ans not in ("0", "n/a"):
            return "coinbase transaction counted as having unsigned inputs (after a history)"
    return None


def _cb_oracle(a, out):
    """the property on the implementation alone: coinbase_tx builds a coinbase; check() accepts it exactly for script
    lengths 2..100 and amounts 0..MAX_MONEY; it is never counted as unsigned; the whole amount goes to `<sec> OP_CHECKSIG`"""
    if not out.startswith("ok "):
        return "coinbase_tx raised for a SEC key: " + out
    _ok, fields, verdict, is_cb, bad = out.split(" ")
    sec, cb = (b"" if a[2] == "-" else bytes.fromhex(a[2])), (b"" if a[4] == "-" else bytes.fromhex(a[4]))
    v, lock, ins, outs = txlib.parse_fields(fields)
    if is_cb != "1" or len(ins) != 1 or ins[0][0] != ZERO32 or ins[0][1] != NULL_INDEX or ins[0][2] != cb:
        return "coinbase_tx did not build a coinbase input carrying the given bytes"
    if bad != "0":
        return "a coinbase transaction is counted as having unsigned inputs"
    if outs != [(int(a[3]), bytes([len(sec)]) + sec + b"\xac")] or v != int(a[5]) or lock != int(a[6]):
        return "coinbase_tx does not pay the amount to <sec> OP_CHECKSIG (or changed version / lock time)"
    good = 2 <= len(cb) <= 100 and 0 <= int(a[3]) <= REF_MAX_MONEY[a[1]]
    if good != (verdict == "ok"):
        return "check() of the built coinbase: %s, but script length %d / amount %d" % (verdict, len(cb), int(a[3]))
    return None


def oracle(op: str, out: str):
    if op.startswith("cb_tx "):
        return _cb_oracle(op.split(" "), out)
    """the property evaluated on the implementation alone; an exception escaping the implementation while a round trip is
    evaluated is a failure of the property (every direct call is on inputs the property covers)"""
    try:
        return _oracle(op, out)
    except Exception as e:  # noqa: BLE001
        return "the implementation raised %s while the property was evaluated on it" % type(e).__name__


def trivial(op: str) -> bool:
    return False


def neighbours(op, rng):
    a = op.split(" ")
    if a[0] == "check_hist":
        return
    if a[0] == "cb_tx":
        for n in (1, 2, 100, 101):
            yield " ".join(a[:4] + ["ab" * n] + a[5:])
        return
    coin = a[1]
    v, lock, ins, outs = parse_fields(a[2])
    # nearby: each output value ±1, each index ±1, script length ±1
    for j, (val, s) in enumerate(outs):
        for dlt in (-1, 1):
            o2 = list(outs)
            o2[j] = (val + dlt, s)
            yield "%s %s %s" % (a[0], coin, show_fields((v, lock, ins, o2)))
    for j, (h, i, s, q, w) in enumerate(ins):
        for dlt in (-1, 1):
            if 0 <= i + dlt < 2 ** 32:
                i2 = list(ins)
                i2[j] = (h, i + dlt, s, q, w)
                yield "%s %s %s" % (a[0], coin, show_fields((v, lock, i2, outs)))
        i2 = list(ins)
        i2[j] = (h, i, s + b"\x00", q, w)
        yield "%s %s %s" % (a[0], coin, show_fields((v, lock, i2, outs)))
        if s:
            i2 = list(ins)
            i2[j] = (h, i, s[:-1], q, w)
            yield "%s %s %s" % (a[0], coin, show_fields((v, lock, i2, outs)))


KNOWN = {}


# ---------------------------------------------------------------- generators

def H(n):
    return bytes([n % 251 + 1]) * 32


def nin(h, i=0, s=b"", q=NULL_INDEX, w=()):
    return (h, i, s, q, list(w))


def sized_fields(total, with_witness=0):
    """a one-input one-output transaction whose witness-stripped size is exactly `total` (plus `with_witness` bytes of witness data)"""
    base = (1, 0, [nin(H(1), 0, b"")], [(5, b"\x51")])
    n0 = len(txlib.ref_legacy(base))
    L = total - n0
    while True:
        extra = len(compact_size(L)) - 1
        if n0 + L + extra == total:
            break
        L -= 1
        if L < 0:
            raise ValueError
    wit = []
    if with_witness:
        wit = [b"\x07" * with_witness]
    return (1, 0, [nin(H(1), 0, b"\x51" * L, NULL_INDEX, wit)], [(5, b"\x51")])


def gen_coinbase(ctx, emit):
    rng = ctx.rng

    def sec():
        c = rng.randrange(3)
        if c == 0:
            return bytes([rng.choice([2, 3])]) + rng.randbytes(32)
        if c == 1:
            return b"\x04" + rng.randbytes(64)
        return bytes([rng.choice([6, 7])]) + rng.randbytes(64)
    for coin in COINS:
        mm = REF_MAX_MONEY[coin]
        for n in (0, 1, 2, 3, 99, 100, 101, 102):
            emit("cb_tx %s %s %d %s 1 0" % (coin, sec().hex(), 50 * COIN, rng.randbytes(n).hex() or "-"))
        for val in (0, 1, mm - 1, mm, mm + 1, -1, 2 ** 63):
            emit("cb_tx %s %s %d %s 1 0" % (coin, sec().hex(), val, rng.randbytes(4).hex()))
        # a decimal-looking key: every hex digit of the SEC is 0..9 (must still be pushed as data)
        emit("cb_tx %s %s %d %s 2 7" % (coin, (b"\x02" + bytes([0x12, 0x34, 0x56, 0x78] * 8)).hex(), 1, "abcd"))
        for _ in range(ctx.n(40, 2000)):
            emit("cb_tx %s %s %d %s %d %d" % (coin, sec().hex(), rng.choice([0, 50 * COIN, rng.randrange(mm + 1), mm + rng.randrange(1, 10 ** 6)]),
                                              rng.randbytes(rng.choice([0, 1, 2, 4, 50, 100, 101, rng.randrange(0, 120)])).hex() or "-",
                                              rng.choice([1, 2, 0, 2 ** 32 - 1]), rng.choice([0, 1, 2 ** 32 - 1, rng.randrange(2 ** 32)])))


def gen(ctx, emit):
    gen_coinbase(ctx, emit)
    rng = ctx.rng

    def E(coin, f, ids=None, kinds=("check_tx",)):
        t = show_fields(f)
        for kd in kinds:
            if kd == "check_tx" and ids is not None:
                emit("check_tx %s %s %s" % (coin, t, show_list(ids)))
            else:
                emit("%s %s %s" % (kd, coin, t))

    ALLK = ("check_tx", "is_coinbase", "bad_solution_count")
    good_in = [nin(H(1), 0), nin(H(2), 1, b"\x51")]
    good_out = [(5, b"\x51"), (7, b"")]
    for coin in COINS:
        mm = REF_MAX_MONEY[coin]
        E(coin, (1, 0, good_in, good_out), kinds=ALLK)
        E(coin, (1, 0, [], good_out), kinds=ALLK)
        E(coin, (1, 0, good_in, []), kinds=ALLK)
        E(coin, (1, 0, [], []), kinds=ALLK)
        # output values at the boundaries, at every position of three outputs
        for val in (0, 1, mm - 1, mm, mm + 1, -1, 2 ** 63 - 1, 2 ** 63, 2 ** 63 + 1, 2 ** 64 - 1, 2 ** 64,
                    REF_MAX_MONEY["btc"], REF_MAX_MONEY["btc"] + 1, REF_MAX_MONEY["grs"], REF_MAX_MONEY["grs"] + 1):
            for pos in range(3):
                outs = [(0, b"\x51")] * 3
                outs[pos] = (val, b"\x52")
                E(coin, (1, 0, good_in, outs))
        # totals that cross MAX_MONEY only cumulatively
        for outs_v in ([mm, 1], [mm - 1, 1], [1, mm], [mm // 2 + 1, mm // 2], [mm // 2, mm // 2], [mm // 2, mm // 2, 1],
                       [0, mm, 0], [0, mm, 0, 1], [mm // 3] * 3, [mm // 3 + 1] * 3, [mm, 0, 0, 0], [1] * 5 + [mm - 5], [1] * 5 + [mm - 4],
                       [mm, -1, 1], [mm, 1, -1]):
            E(coin, (1, 0, good_in, [(x, b"\x51") for x in outs_v]))
        # coinbase script lengths, exact null outpoint vs zero hash with another index, alone and beside a normal input
        for idx in (NULL_INDEX, 0, 1, NULL_INDEX - 1):
            for L in (0, 1, 2, 3, 50, 99, 100, 101, 102, 252, 253):
                E(coin, (1, 0, [nin(ZERO32, idx, b"\x51" * L)], good_out), kinds=ALLK)
            for other_first in (False, True):
                ins = [nin(ZERO32, idx, b"\x51\x51"), nin(H(3), 0)]
                if other_first:
                    ins.reverse()
                E(coin, (1, 0, ins, good_out), kinds=ALLK)
        E(coin, (1, 0, [nin(ZERO32, NULL_INDEX, b"\x51\x51")] * 2, good_out), kinds=ALLK)
        E(coin, (1, 0, [nin(ZERO32[:31] + b"\x01", NULL_INDEX, b"")], good_out), kinds=ALLK)
        E(coin, (1, 0, [nin(b"\x01" + ZERO32[:31], NULL_INDEX, b"")], good_out), kinds=ALLK)
    # duplicate outpoints at every pair of positions (n = 2..5), near misses, and shared objects
    for coin in COINS:
        for n in range(2, 6 if coin == "btc" else 4):
            base = [nin(H(10 + j), j) for j in range(n)]
            E(coin, (1, 0, base, good_out))
            for i in range(n):
                for j in range(i + 1, n):
                    ins = list(base)
                    ins[j] = nin(base[i][0], base[i][1], b"\x52", 7)      # same outpoint, other script/sequence
                    E(coin, (1, 0, ins, good_out))
                    ins[j] = nin(base[i][0], base[i][1] + 1)              # same hash, next index: fine
                    E(coin, (1, 0, ins, good_out))
                    ins[j] = nin(base[j][0], base[i][1])                  # same index, other hash: fine
                    E(coin, (1, 0, ins, good_out))
                    ins = list(base)
                    ins[j] = base[i]
                    ids = list(range(n))
                    ids[j] = i                                            # the very same object twice
                    E(coin, (1, 0, ins, good_out), ids=ids)
    # duplicate outpoints at any two positions i<j with every kind of filler between them: other outputs of the SAME
    # previous transaction, the same index of other transactions, many fillers; always distinct TxIn objects, with equal
    # and with different scripts/sequences
    for coin in COINS:
        hA, hB = H(40), H(41)
        pools = {
            "same_hash": lambda k: nin(hA, 1 + k),
            "same_index": lambda k: nin(H(50 + k), 0),
            "mixed": lambda k: nin(hA, 1 + k) if k % 2 == 0 else nin(hB, k),
        }
        for fill_name, fill in pools.items():
            for n_fill in ((0, 1, 2, 3, 7) if coin == "btc" else (1, 2)):
                for same_fields in (True, False):
                    first = nin(hA, 0, b"\x51", 7)
                    last = nin(hA, 0, b"\x51", 7) if same_fields else nin(hA, 0, b"\x52\x53", 9)
                    mid = [fill(k) for k in range(n_fill)]
                    for lead in (0, 1):
                        ins = [nin(H(60), 5)] * lead + [first] + mid + [last]
                        E(coin, (1, 0, ins, good_out))                       # duplicate: must be rejected
                        E(coin, (1, 0, ins + [nin(H(61), 0)], good_out))
                        ok_last = nin(hA, 100, last[2], last[3])
                        E(coin, (1, 0, [nin(H(60), 5)] * lead + [first] + mid + [ok_last], good_out))   # no duplicate: accepted
        # the seeded shape itself: (h,0),(h,1),(h,0) and longer alternations
        E(coin, (1, 0, [nin(hA, 0), nin(hA, 1), nin(hA, 0)], good_out))
        E(coin, (1, 0, [nin(hA, 0), nin(hA, 1), nin(hA, 2), nin(hA, 1)], good_out))
        E(coin, (1, 0, [nin(hA, 0), nin(hB, 0), nin(hA, 1), nin(hB, 1), nin(hA, 0)], good_out))
        E(coin, (1, 0, [nin(hA, 0), nin(hA, 1), nin(hA, 2), nin(hA, 3)], good_out))
    # ---- histories on ONE object: check, mutate in place, check again
    def HIST(coin, f, steps):
        emit("check_hist %s %s %s" % (coin, show_fields(f), "!".join(steps)))

    def sb(b):
        return txlib.show_bytes_compact(b)

    for coin in (COINS if ctx.thorough else ["btc", "ltc"]):
        # the size boundary crossed by growing a script in place (as signing does): 999,980 -> 1,000,087 stripped bytes -> back
        f0 = sized_fields(999_980)
        L0 = len(f0[2][0][2])
        HIST(coin, f0, ["check", "bin_len", "script=0=" + sb(b"\x51" * (L0 + 107)), "check", "bin_len", "script=0=" + sb(b"\x51" * (L0 + 20)), "check",
                        "script=0=" + sb(b"\x51" * (L0 + 21)), "check", "bin_len", "script=0=-", "check"])
        # same shape (counts, has-witness flag) throughout, only an output script grows
        HIST(coin, f0, ["check", "oscript=0=" + sb(b"\x6a" * 200), "check", "oscript=0=51", "check"])
        # witness data pushes the total (not the stripped) size over: the code rejects, the property allows either
        HIST(coin, sized_fields(999_000), ["check", "witness=0=" + sb(b"\x07" * 2000), "check", "bin_len", "setwit=0=~", "check"])
    for coin in COINS:
        mm = REF_MAX_MONEY[coin]
        base = (1, 0, [nin(H(1), 0), nin(H(1), 1, b"\x51")], [(5, b"\x51"), (7, b"")])
        # values and totals changed in place
        HIST(coin, base, ["check", "oval=0=%d" % mm, "check", "oval=1=0", "check", "oval=1=1", "check", "oval=0=%d" % (mm - 1), "check", "oval=0=-1", "check",
                          "oval=0=%d" % (mm + 1), "check", "oval=0=0", "check", "addout=%d:51" % mm, "check", "delout=2", "check", "delout=0", "delout=0", "check"])
        # a duplicate outpoint created and removed by assigning previous_index / previous_hash
        HIST(coin, base, ["check", "idx=1=0", "check", "idx=1=1", "check", "idx=0=1", "check", "phash=0=" + txlib.hx(H(2)), "check",
                          "addin=%s:1:-:0:~" % txlib.hx(H(2)), "check", "delin=0", "check", "addin=%s:1:52:9:~" % txlib.hx(H(1)), "check"])
        # coinbase-ness and the coinbase script rule as the single input is edited; inputs removed down to none
        HIST(coin, base, ["is_coinbase", "bad", "delin=1", "is_coinbase", "bad", "phash=0=" + txlib.hx(ZERO32), "is_coinbase", "bad", "check",
                          "idx=0=%d" % NULL_INDEX, "is_coinbase", "bad", "check", "script=0=5151", "check", "script=0=" + sb(b"\x51" * 100), "check",
                          "script=0=" + sb(b"\x51" * 101), "check", "script=0=51", "check", "idx=0=0", "check", "is_coinbase", "bad",
                          "addin=%s:0:-:0:~" % txlib.hx(H(9)), "is_coinbase", "bad", "check", "idx=0=%d" % NULL_INDEX, "check", "delin=1", "delin=0", "check", "is_coinbase", "bad", "delin=0"])
        # fields leaving and re-entering their wire range
        HIST(coin, base, ["check", "ver=-1", "check", "ver=4294967295", "check", "lock=4294967296", "check", "lock=0", "seq=0=-5", "check", "seq=0=5", "check"])
    # sizes around 1,000,000 (few: each costs ~0.1 s)
    sizes = [(1_000_000, 0), (1_000_001, 0), (999_999, 0), (999_000, 2000)]
    if ctx.thorough:
        sizes += [(1_000_002, 0), (999_998, 0), (1_000_000, 1), (999_990, 3), (500_000, 500_100), (1_000_001, 10), (65_535 + 60, 0), (65_536 + 60, 0)]
    for coin in (COINS if ctx.thorough else ["btc", "grs"]):
        for tot, w in sizes:
            E(coin, sized_fields(tot, w))
    # fields outside their wire range reach struct.error in _check_size_limit
    E("btc", (-1, 0, good_in, good_out))
    E("btc", (2 ** 32, 0, good_in, good_out))
    E("btc", (1, 2 ** 32, good_in, good_out))
    E("btc", (1, 0, [nin(H(1), 2 ** 32)], good_out))
    E("btc", (1, 0, [nin(H(1), -1)], good_out))
    E("btc", (1, 0, [nin(H(1), 0, b"", 2 ** 32)], good_out))

    # seeded random: a defect-free transaction, then at most one injected defect
    def rs(n):
        return bytes(rng.randrange(256) for _ in range(n))

    # random histories: a small transaction, then observers and mutators at random
    for _ in range(ctx.n(1500, 25000)):
        coin = rng.choice(COINS)
        mm = REF_MAX_MONEY[coin]
        pool_h = [rs(32), rs(32), ZERO32]
        f = (1, 0, [nin(rng.choice(pool_h[:2]), rng.randrange(3)) for _j in range(rng.choice([1, 2, 3]))], [(rng.choice([0, 5, mm // 2]), b"\x51") for _j in range(rng.choice([1, 2]))])
        steps = []
        for _s in range(rng.randrange(3, 12)):
            r = rng.randrange(16)
            i, j = rng.randrange(4), rng.randrange(3)
            if r < 5:
                steps.append("check")
            elif r == 5:
                steps.append(rng.choice(["is_coinbase", "bad", "bin_len"]))
            elif r == 6:
                steps.append("script=%d=%s" % (i, txlib.hx(rs(rng.choice([0, 1, 2, 100, 101])))))
            elif r == 7:
                steps.append("idx=%d=%d" % (i, rng.choice([0, 1, 2, NULL_INDEX])))
            elif r == 8:
                steps.append("phash=%d=%s" % (i, txlib.hx(rng.choice(pool_h))))
            elif r == 9:
                steps.append("oval=%d=%d" % (j, rng.choice([0, 1, mm, mm + 1, mm // 2, mm // 2 + 1, -1])))
            elif r == 10:
                steps.append("addin=%s:%d:%s:0:~" % (txlib.hx(rng.choice(pool_h)), rng.choice([0, 1, 2, NULL_INDEX]), txlib.hx(rs(rng.choice([0, 2])))))
            elif r == 11:
                steps.append("delin=%d" % i)
            elif r == 12:
                steps.append("addout=%d:51" % rng.choice([0, 1, mm, mm // 2]))
            elif r == 13:
                steps.append("delout=%d" % j)
            elif r == 14:
                steps.append(rng.choice(["witness", "setwit"]) + "=%d=%s" % (i, rng.choice(["~", "01", "-/02", "0102/-"])))
            else:
                steps.append(rng.choice(["ver=2", "lock=7", "seq=%d=5" % i, "oscript=%d=6a" % j]))
        steps.append("check")
        HIST(coin, f, steps)
    for _ in range(ctx.n(3000, 40000)):
        coin = rng.choice(COINS)
        pool_h = [rs(32) for _p in range(rng.choice([1, 2, 3]))]
        n_in = rng.choice([2, 3, 3, 4, 5, 8])
        ins = [nin(rng.choice(pool_h), rng.randrange(rng.choice([2, 3, 5])), rs(rng.choice([0, 0, 2])), rng.choice([0, NULL_INDEX])) for _j in range(n_in)]
        E(coin, (1, 0, ins, [(5, b"\x51")]))
    for _ in range(ctx.n(12000, 150000)):
        coin = rng.choice(COINS)
        mm = REF_MAX_MONEY[coin]
        n_in = rng.choice([1, 1, 2, 3, 4, 6])
        n_out = rng.choice([1, 2, 3, 5])
        ins = []
        for j in range(n_in):
            wit = [rs(rng.randrange(0, 4)) for _w in range(rng.randrange(0, 3))] if rng.random() < 0.3 else []
            ins.append(nin(rs(32), rng.choice([0, 1, 2, 7, NULL_INDEX, rng.randrange(2 ** 32)]), rs(rng.choice([0, 1, 2, 5, 100, 101])),
                           rng.choice([0, NULL_INDEX, rng.randrange(2 ** 32)]), wit))
        budget = mm
        outs = []
        for j in range(n_out):
            val = rng.choice([0, min(1, budget), budget, budget // 2, rng.randrange(0, budget + 1)])
            budget -= val
            outs.append((val, rs(rng.choice([0, 1, 25]))))
        kind = rng.randrange(14)
        kinds = ("check_tx",)
        if kind == 0:
            ins = []
        elif kind == 1:
            outs = []
        elif kind == 2:
            j = rng.randrange(n_out)
            outs[j] = (rng.choice([-1, mm + 1, -rng.randrange(1, 10 ** 6), mm + rng.randrange(1, 10 ** 9), 2 ** 64 - 1]), outs[j][1])
        elif kind == 3:
            # total exceeds only cumulatively: top up the remaining budget + 1 on a random output
            j = rng.randrange(n_out)
            if outs[j][0] + budget + 1 <= mm:
                outs[j] = (outs[j][0] + budget + 1, outs[j][1])
        elif kind == 4 and n_in >= 2:
            i, j = rng.sample(range(n_in), 2)
            ins[j] = nin(ins[i][0], ins[i][1], rs(2), 5, ins[j][4])
        elif kind == 5:
            L = rng.choice([0, 1, 2, 3, 99, 100, 101, rng.randrange(0, 130)])
            ins = [nin(ZERO32, rng.choice([NULL_INDEX, NULL_INDEX, 0, rng.randrange(2 ** 32)]), rs(L))]
            kinds = ALLK
        elif kind == 6:
            j = rng.randrange(n_in)
            ins[j] = nin(ZERO32, rng.choice([NULL_INDEX, NULL_INDEX, 0, 5]), ins[j][2], ins[j][3], ins[j][4])
            kinds = ALLK
        elif kind == 7:
            # top up exactly to MAX_MONEY: still fine
            j = rng.randrange(n_out)
            outs[j] = (outs[j][0] + budget, outs[j][1])
        elif kind == 8:
            kinds = ALLK
        E(coin, (rng.choice([0, 1, 2, 2 ** 32 - 1]), rng.choice([0, 1, 2 ** 32 - 1]), ins, outs), kinds=kinds)
