"""C01 — ECDSA: deterministic signatures verify for the signer and for nobody else.

Ops on the real generator objects (`sign_with_recid`/`sign`, `verify`, `possible_public_pairs_for_signature`,
`deterministic_generate_k`) in both arithmetic configurations (worker processes, see curve_common.py).
"""
from __future__ import annotations

from props import curve_common as cc
from props.curve_common import parse_pt, show_pt, consts, on_curve, split_curve

MANIFEST = {
    "text": "Lean theorems over an executable model of Generator.sign_with_recid/sign/verify/possible_public_pairs_for_signature and "
            "rfc6979.deterministic_generate_k (HMAC-SHA256): verify accepts exactly when 1 <= r,s < n and x((z/s)G + (r/s)Q) mod n = r in "
            "Mathlib's group; signatures produced by sign verify under d*G and lie in range; verify is invariant under s -> n-s; recovered "
            "keys verify and contain the signer; the nonce equals an RFC 6979 specification written from the RFC text. Generic in a curve "
            "with p, n prime and n*G = infinity, facts proved for secp256k1/secp256r1 in C02, together with #E(F_p) = n, which makes the "
            "verify and recovery theorems hypothesis-free on these two curves. "
            "NATIVE BACKENDS ('whichever arithmetic backend is active'): the Generator methods are modelled once over an explicit method "
            "table (Model/NativeCurve.lean, Gen.*: self.inverse_mod / self.multiply / self.raw_mul / self.__mul__ are virtual calls), "
            "proved equal to the pure model for the pure table (C01_methods_pure); the OpenSSL and libsecp256k1 mixins are modelled "
            "statement by statement with the C library an explicit parameter and what it is assumed to do a hypothesis (LibCryptoOk, "
            "LibSecpOk - satisfiable: executable instances built from the pure model). Under LibCryptoOk verify, sign_with_recid/sign "
            "(RFC 6979 nonce: no side condition) and recovery (every r >= 0) through the OpenSSL class EQUAL those of the pure class "
            "(C01_native_openssl_*_secp256k1/_secp256r1), so every theorem above holds verbatim for the OpenSSL configuration. Under "
            "LibSecpOk the libsecp256k1 verify equals Generator.verify for 1 <= z < 2^256, 0 <= r,s < 2^256, and its sign returns the same "
            "r and s or n-s, the low-S one (C01_native_libsecp_*). Models tied to the code by differential correspondence in both "
            "arithmetic configurations (pure model vs both classes; the OpenSSL glue model vs the OpenSSL class: ops ossl_sign/verify/"
            "recover) and an independent Python RFC 6979 on every run. "
            "FOR NOBODY ELSE (converse of recovery; secp256k1/secp256r1, where #E = n and p <= 2n are proved): a reduced curve point Q verifies "
            "(z, r, s) IF AND ONLY IF 1 <= r,s < n and Q is among possible_public_pairs_for_signature(z, (r, s)) or among "
            "possible_public_pairs_for_signature(z, (r + n, s)) (C01_verifying_keys_secp256k1/_secp256r1; in the group: Q = r^-1(s*R - z*G) for a "
            "point R with x(R) mod n = r, C01_verifying_keys_group_partial); recovery as Generator users call it looks at the abscissa r only, so a key "
            "whose nonce point has x(R) = r + n verifies and is not returned (it is for r >= p - n: C01_verifying_keys_eq_recovered_*); any "
            "verifying key with x(R) < n is returned (C01_recover_complete_of_verify_*); at most four keys verify one (z, r, s) "
            "(C01_verifying_keys_finite_*) and at most four residue classes of z verify under one key and (r, s) "
            "(C01_verifying_hashes_finite_*); verify sees z modulo n only (C01_verify_hash_mod_n_*: z and z + n alike, z = n not refused). "
            "NONCE: deterministic_generate_k is a function of int2octets(d) || bits2octets(z) alone (C01_nonce_factors_through_seed), that seed "
            "is the RFC's (C01_nonce_seed_eq_spec) and an injective encoding of (d, bits2int(z) mod n) (C01_nonce_seed_injective); on a "
            "256-bit order the (key, hash) pairs sharing their HMAC input are exactly z' in {z, z + n, z - n} with the same key "
            "(C01_nonce_seed_collisions_256), and there the whole signature coincides (C01_sign_hash_plus_n_*). "
            "KEY.SIGN / KEY.VERIFY (Model/KeySign.lean over the DER model of C10): Key.verify returns a Boolean for EVERY byte string as "
            "signature and as hash (C01_key_verify_total: sigdecode_der raises only UnexpectedDER / ValueError, Generator.verify nothing on a "
            "curve point), equals Generator.verify of the strictly decoded pair and False when it does not decode (C01_key_verify_eq_verify), "
            "Key.verify(h, Key.sign(h)) = True under the key, its public_copy() and any key with the same pair (C01_key_sign_verifies), a "
            "public key raises RuntimeError (C01_key_sign_public), and in any history of sign / verify / public_copy / from_sec(sec()) steps on "
            "one object every verify answer is that of a fresh public key (C01_key_history_fresh). The driver evaluates the model with the "
            "_powers table of the two curves built once; C01_driver_cached_is_model proves these functions equal to the model's.",
    "note": "libsecp256k1 is ABSENT from this sandbox: its glue (native/secp256k1.py: sign with low-S normalisation, verify, the key and "
            "signature parsing around the calls) is modelled and its contract LibSecpOk stated BY READING ONLY - no correspondence run is "
            "possible here; evidence.coverage.libsecp256k1 of C02 reports whether the library is loadable where the check runs. Caveats "
            "found by reading: out of [0, 2^256) the glue's to_bytes_32 raises OverflowError where Generator.verify returns False "
            "(C01_native_libsecp_verify_overflow); the default nonce of libsecp256k1 is RFC 6979 over the unreduced 32 hash bytes, so "
            "agreement with deterministic_generate_k is stated for z < n only; secp256k1_ecdsa_signature_normalize is called without "
            "argtypes. LibCryptoOk (OpenSSL) is probed on the real library on every run, OpenSSL's internals are not verified. Fixed "
            "defect: OpenSSL inverse_mod ignored BN_mod_inverse's NULL, so recovery with r = n (secp256k1) / r = 0 (secp256r1) "
            "returned [infinity, infinity] where the pure class raises AssertionError. "
            "'Nonce never shared between distinct (key, hash)' is "
            "k = RFC6979(d, z) (proved against a specification written from the RFC) plus an assumption on HMAC-SHA256; unforgeability is a "
            "cryptographic assumption, not a theorem. The generic verify_iff_partial / recover_sound_partial carry the hypothesis "
            "n*Q = infinity; for secp256k1 and secp256r1 it is discharged (C01_verify_iff_secp256k1/_secp256r1, C01_verify_neg_s_*, "
            "C01_recover_sound_secp256k1/_secp256r1 hold for every curve point, no torsion or 2-torsion hypothesis): #E(F_p) = n is "
            "proved in Lean without Hasse (#E <= 2p+1 < 3n, n | #E, no point of order two by a generated kernel-checked certificate). "
            "Known finding: on toy curves the retry loop k += 1 can reach k = n and raise TypeError (C01_sign_returns_refuted). "
            "READING OF TWO GLOSSES OF THE STATEMENT (no pycoin defect, true of every ECDSA / RFC 6979 implementation): (1) 'rejects a "
            "signature presented with any other hash' - a signature (r, s) valid for z under d*G is valid for z' = -z - 2rd (mod n) too "
            "(C01_second_hash_verifies; toy witness replayed: curve of order 53, d = 2, (r, s) = (14, 41) verifies for z = 1 and z = 49), "
            "and for z + n; what holds is the verification equation, and 'at most four classes of z' - the rest is an assumption on the hash "
            "function. (2) 'the nonce is never shared between distinct (key, hash) pairs' - RFC 6979's bits2octets reduces the hash modulo n, so "
            "z and z + n (both below 2^256; e.g. secp256k1, d = 7, z = 5 and z = 5 + n) get the same nonce BY THE RFC; the signatures are then "
            "identical, nothing leaks; 'distinct' has to be read modulo n. pycoin never reduces z itself (verify refuses z = 0 but accepts z = n; "
            "from_bytes_32 has no length check, so Key.sign of a hash longer than 32 bytes with value >= 2^256 + n raises OverflowError - outside "
            "the quantifier). possible_public_pairs_for_signature enumerates x = r only (never r + n): keys whose nonce point has x(R) >= n are "
            "not recovered unless the caller passes r + n. Key histories: the model of public_copy / from_sec(sec()) keeps the pair; the Key "
            "object's hash160 caches are C10's concern.",
    "technique": "Lean 4 proof (Mathlib group law over ZMod p, field arithmetic mod n; native glue over explicit library contracts) + "
                 "differential correspondence model vs implementation per backend, glue model vs OpenSSL class + independent RFC 6979 "
                 "reference + exhaustive toy-curve enumeration (test)",
}
RULE = ("ops sign/verify/recover/rfc6979/rfc6979n/rfc6979_spec/keysign/keyverify/keysign_der/keyverify_der/keyhist/toy_sign/toy_verify/toy_keys on secp256k1, secp256r1 (pure and OpenSSL), toy curves of prime "
        "order; ossl_sign/ossl_verify/ossl_recover: Generator methods over the glue model of native/openssl.py against the OpenSSL class; "
        "boundary scalars d,z in {1,2,n-1}, z in {n,n+1,2^256-1}, r,s in {0,n,n+1,2^256-1}, s -> n-s, foreign key, foreign "
        "hash, single-bit changes of d and z, z +- n (same nonce, same signature, same verdict), the second hash -z - 2rd, a constructed nonce "
        "point with x(R) = n + t on both 256-bit curves; keysign_der/keyverify_der/keyhist: Key.sign / Key.verify of the BTC Key class "
        "(secp256k1) and of Key.make_subclass over secp256r1 on byte strings - the DER blob itself, ~45 malformed blobs (empty, truncated, "
        "trailing bytes outside / inside the sequence, wrong tags, wrong / long-form / indefinite lengths, empty INTEGER, negative, "
        "non-minimal and oversized INTEGERs, bit flips), hashes of other lengths, keys from secret / pair / SEC, histories (sign, verify, sign "
        "again, public_copy, from_sec(sec())) on one object, each op evaluated in both arithmetic configurations; toy_keys: all curve "
        "points verifying (z, r, s) against recovery at r and r + n; distinct = distinct op line; trivial = z = 0")
ASSUMPTIONS = [
    "libsecp256k1 is not installed: the libsecp256k1 backend (which also low-S normalises) is never run; its glue model and the contract LibSecpOk "
    "(hypothesis of the C01_native_libsecp_* theorems) are tied to native/secp256k1.py and the library's documentation by reading only",
    "libcrypto does what LibCryptoOk says (hypothesis of the C01_native_openssl_* theorems; probed on the real library by C02's ossl_probe ops), not verified",
    "hashlib/hmac SHA-256 are modelled by Pycoin.Hash.sha256 / hmacSha256L (validated against hashlib on every run), not verified",
    "distinctness of RFC 6979 nonces for distinct seeds int2octets(d) || bits2octets(z) is a property of HMAC-SHA256 (assumption: a collision of "
    "HMAC-DRBG outputs on distinct inputs); proved: the nonce is a function of that seed and the seed is injective in (d, bits2int(z) mod n); checked: "
    "k = RFC6979(d, z), k changes with a bit of d or z, k(d, z) = k(d, z +- n)",
    "that the second hash -z - 2rd of a signature (and the up to four keys r^-1(s*R - z*G)) cannot be exploited is an assumption on the hash function / the "
    "discrete logarithm (unforgeability), not a theorem",
]
TRUSTED = ["harness/props/curve_common.py: rfc6979_ref, an independent RFC 6979 written from the RFC text with hashlib/hmac",
           "lean/Pycoin/Proofs/NativeContract.lean (LibCryptoOk) and lean/Pycoin/Proofs/NativeSecp.lean (LibSecpOk): the statements about the C libraries the native theorems assume"]


def _retry_walks_into_infinity(v) -> bool:
    """sign on a toy curve: the first RFC 6979 nonce k gives r = 0 or s = 0 and so does every k+1, k+2, … up to n-1, so the
    retry loop `k += 1` reaches k = n, where k*G is infinity and `p1[0] % n` raises TypeError"""
    import re
    op = str(v.get("input", ""))
    m = re.match(r"sign raised TypeError for d=(\d+) z=(\d+)$", str(v.get("what", "")))
    if not (op.startswith("toy_sign toy:") and m):
        return False
    tok = op.split(" ")[1]
    n = consts(tok)[5]
    d, z = int(m.group(1)), int(m.group(2))
    if n >= 2 ** 16 or int(op.split(" ")[2]) != d:
        return False
    k = cc.rfc6979_ref(n, d, _hash_bytes(z))
    while k < n:
        R = parse_pt(cc.impl("ec_mul %s %s %d" % (tok, _G(tok), k))[3:])
        r = R[0] % n
        sg = pow(k, -1, n) * (z + d * r) % n
        if r != 0 and sg != 0:
            return False
        k += 1
    return True


KNOWN = {"sign-retry-walks-into-infinity": _retry_walks_into_infinity}

BIG = ("secp256k1", "secp256r1")


def impl(op: str) -> str:
    return cc.impl(op)


def trivial(op: str) -> bool:
    a = op.split(" ")
    if a[0] == "sign":
        return a[3] == "0"
    if a[0] == "verify":
        return a[3] == "0"
    return False


def _other(tok):
    name, cfg = split_curve(tok)
    if name in BIG:
        return name + "/" + ("openssl" if cfg == "pure" else "pure")
    return None


def _cross(op, out):
    a = op.split(" ")
    o = _other(a[1])
    if o is None:
        return None
    out2 = cc.impl(" ".join([a[0], o] + a[2:]))
    if out2 != out:
        return "configurations disagree: %s gives %s, %s gives %s" % (a[1], out[:200], o, out2[:200])
    return None


def _G(tok):
    gx, gy = consts(tok)[3:5]
    return "%d,%d" % (gx, gy)


def _pub(tok, d):
    return cc.impl("ec_mul %s %s %d" % (tok, _G(tok), d))[3:]


def _hash_bytes(z: int) -> bytes:
    return z.to_bytes(32, "big")


def _ref_sig(tok, d, z):
    """independent RFC 6979 ECDSA: nonce from rfc6979_ref, r and s from the implementation's own group operations"""
    n = consts(tok)[5]
    k = cc.rfc6979_ref(n, d, _hash_bytes(z))
    R = parse_pt(cc.impl("ec_mul %s %s %d" % (tok, _G(tok), k))[3:])
    r = R[0] % n
    s = pow(k, -1, n) * (z + d * r) % n
    return k, R, r, s


def _h32(z: int) -> str:
    return "%064x" % z


def _hexb(s: str) -> bytes:
    return b"" if s == "-" else bytes.fromhex(s)


def _der_int(v: int) -> bytes:
    """reference DER INTEGER of v >= 0 (minimal, one 00 in front when the top bit is set), short or long-form length"""
    b = v.to_bytes(max(1, (v.bit_length() + 7) // 8), "big")
    if b[0] & 0x80:
        b = b"\x00" + b
    return b"\x02" + _der_len(len(b)) + b


def _der_len(l: int) -> bytes:
    if l < 0x80:
        return bytes([l])
    lb = l.to_bytes((l.bit_length() + 7) // 8, "big")
    return bytes([0x80 | len(lb)]) + lb


def _der_sig(r: int, s: int) -> bytes:
    body = _der_int(r) + _der_int(s)
    return b"\x30" + _der_len(len(body)) + body


def _der_mutations(rng, r: int, s: int, n: int, flips: int = 1):
    """byte strings presented to Key.verify as signatures: the DER of (r, s) and every way of getting it wrong"""
    good = _der_sig(r, s)
    ri, si = _der_int(r), _der_int(s)
    rb = r.to_bytes(32, "big")
    out = [good, b"", b"\x30", b"\x30\x00", b"\x30\x80", b"\x30\x81", good[:-1], good[:len(good) // 2], good[:2], good[:3],
           good + b"\x00", good + good, good + bytes([rng.randrange(256)]),                      # trailing bytes after the sequence
           b"\x31" + good[1:], b"\x30" + bytes([good[1] + 1]) + good[2:] + b"\x00",               # other tag; trailing byte INSIDE the sequence
           b"\x30" + bytes([good[1] + 1]) + good[2:], b"\x30" + bytes([good[1] - 1]) + good[2:],  # announced length off by one
           b"\x30\x81" + good[1:],                                                               # long-form length of the sequence
           b"\x30\x82\x00" + good[1:], b"\x30\x80" + good[2:],                                    # non-minimal / indefinite length
           b"\x30" + _der_len(len(ri) + 2) + ri + b"\x02\x00",                                    # empty INTEGER: int(b"", 16) -> ValueError
           b"\x30" + _der_len(2 + len(si)) + b"\x02\x00" + si,
           b"\x30" + _der_len(3 + len(si)) + b"\x02\x80\x00" + si,                                # INTEGER with length byte 0x80 -> ValueError
           b"\x30" + _der_len(len(ri) + len(si)) + b"\x03" + ri[1:] + si,                         # wrong INTEGER tag
           b"\x30" + _der_len(len(ri)) + ri,                                                     # only one INTEGER
           _der_sig(0, s), _der_sig(r, 0), _der_sig(n, s), _der_sig(r, n), _der_sig(r + n, s), _der_sig(r, s + n), _der_sig(r, n - s),
           _der_sig(2 ** 256 - 1, s), _der_sig(r, 2 ** 256 + 5), _der_sig(2 ** 520 + r, s), _der_sig(r ^ 1, s), _der_sig(s, r),
           # negative INTEGERs (top bit set, no 00 in front) and non-minimal ones (extra 00)
           b"\x30" + _der_len(34 + len(si)) + b"\x02\x20" + bytes([rb[0] | 0x80]) + rb[1:] + si,
           b"\x30" + _der_len(3 + len(si)) + b"\x02\x01\xff" + si,
           b"\x30" + _der_len(len(ri) + 1 + len(si)) + b"\x02" + bytes([ri[1] + 1]) + b"\x00" + ri[2:] + si,
           b"\x30" + _der_len(len(ri) + len(si) + 1) + ri[:1] + b"\x81" + ri[1:] + si,            # long-form length of an INTEGER
           bytes(rng.randrange(256) for _ in range(rng.randrange(1, 80)))]
    for _ in range(flips):
        b = bytearray(good)
        b[rng.randrange(len(b))] ^= 1 << rng.randrange(8)
        out.append(bytes(b))
    return out


def _ctor_pub(tok, ctor):
    """the public pair (as op text) a key constructor text denotes, or None; computed with the implementation"""
    q = ctor.split(":")
    if q[0] == "d":
        n = consts(tok)[5]
        return _pub(tok, int(q[1])) if 1 <= int(q[1]) < n else None
    if q[0] == "pair":
        P = parse_pt(q[1])
        return q[1] if P != (None, None) and on_curve(tok, P) and cc.reduced(tok, P) else None
    if q[0] == "sec":
        b = _hexb(q[1])
        p = consts(tok)[0]
        if len(b) == 65 and b[0] == 4:
            P = (int.from_bytes(b[1:33], "big"), int.from_bytes(b[33:], "big"))
            return show_pt(P) if on_curve(tok, P) and cc.reduced(tok, P) else None
        if len(b) == 33 and b[0] in (2, 3) and int.from_bytes(b[1:], "big") < p:
            ans = cc.impl("ec_points_for_x %s %d" % (tok, int.from_bytes(b[1:], "big")))
            if ans.startswith("ok "):
                for P in ans[3:].split(" "):
                    if parse_pt(P)[1] & 1 == b[0] & 1:
                        return P
    return None


def _key_verify_expect(tok, Q, h, sig_hex):
    """what Key.verify must answer for the public pair Q: Generator.verify of the pair pycoin's own strict sigdecode_der
    returns, False when that raises UnexpectedDER / ValueError; None = the hash is outside the quantifier"""
    hb = _hexb(h)
    z = int.from_bytes(hb, "big")
    if len(hb) != 32 or z == 0:
        return None
    dec = cc.impl("c01_derdec " + sig_hex)
    if dec.startswith("ok "):
        r, s = dec[3:].split(" ")
        return cc.impl("verify %s %s %d %s %s" % (tok, Q, z, r, s))
    return "ok 0"


def oracle(op: str, out: str):
    """the property evaluated on the implementation alone; an auxiliary implementation call that raises where the property
    says it cannot (sum of two curve points, multiple of a curve point) makes the answer unparsable and is reported"""
    try:
        return _oracle(op, out)
    except (ValueError, IndexError, TypeError) as e:
        return "an auxiliary group operation on curve points raised or returned a malformed value (%s: %s)" % (type(e).__name__, str(e)[:80])


def _oracle(op: str, out: str):
    a = op.split(" ")
    k = a[0]
    if k in ("rfc6979", "rfc6979n"):
        n = consts(a[1])[5] if k == "rfc6979" else int(a[1])
        d, z = int(a[2]), int(a[3])
        if not (n > 2 and 1 <= d < n and 1 <= z < 2 ** 256):
            return None
        if not out.startswith("ok "):
            return "deterministic_generate_k raised: " + out
        kk = int(out[3:])
        if not 1 <= kk < n:
            return "nonce outside [1, n-1]"
        ref = cc.rfc6979_ref(n, d, _hash_bytes(z))
        if kk != ref:
            return "nonce differs from RFC 6979: %d" % ref
        if k == "rfc6979" and n.bit_length() == 256:
            # the nonce depends on the key and on the hash: a changed hash bit / key bit changes it (equality would be an
            # HMAC-SHA256 collision) - EXCEPT for z and z +- n, which bits2octets of RFC 6979 maps to the same octets
            # (C01_nonce_seed_collisions_256): there the nonce must be the same
            z2 = z ^ 1 if (z ^ 1) % n != z % n and z ^ 1 else z + 2
            o2 = cc.impl("rfc6979 %s %d %d" % (a[1], d, z2))
            if z2 < 2 ** 256 and o2 == out:
                return "the nonce does not depend on the hash: same nonce for z and z' = %d" % z2
            d2 = d ^ 1 if 1 <= d ^ 1 < n else d - 2
            if 1 <= d2 < n and cc.impl("rfc6979 %s %d %d" % (a[1], d2, z)) == out:
                return "the nonce does not depend on the key: same nonce for d and d' = %d" % d2
            zt = z + n if z + n < 2 ** 256 else (z - n if z > n else None)
            if zt is not None and cc.impl("rfc6979 %s %d %d" % (a[1], d, zt)) != out:
                return "z and z +- n (same bits2octets) get different nonces: RFC 6979 prescribes the same"
        return None
    if k == "sign":
        tok = a[1]
        n = consts(tok)[5]
        d, z = int(a[2]), int(a[3])
        if not (1 <= d < n and 1 <= z < 2 ** 256):
            return None
        if not out.startswith("ok "):
            return "sign raised: " + out
        r, s, recid = (int(v) for v in out[3:].split(" "))
        if not (1 <= r < n and 1 <= s < n):
            return "r or s outside [1, n-1]"
        Q = _pub(tok, d)
        v = cc.impl("verify %s %s %d %d %d" % (tok, Q, z, r, s))
        if v != "ok 1":
            return "signature does not verify under d*G: " + v
        kk, R, r0, s0 = _ref_sig(tok, d, z)
        if r0 != 0 and s0 != 0:
            if r != r0 or (s != s0 and s != n - s0):
                return "signature is not the RFC 6979 signature (up to s <-> n-s)"
            if s == s0 and recid != (R[1] & 1) + (2 if R[0] > n else 0):
                return "recovery id does not describe the nonce point"
            # recovery contains the signer when x(R) < n, and only verifying keys
            rec = cc.impl("recover %s %d %d %d ~" % (tok, z, r, s))
            if not rec.startswith("ok"):
                return "recovery raised: " + rec
            keys = [] if rec == "ok ~" else rec[3:].split(";")
            if R[0] < n and Q not in keys:
                return "recovered keys do not contain the signer"
            if R[0] < n:
                one = cc.impl("recover %s %d %d %d %d" % (tok, z, r, s, recid & 1))
                if one != "ok " + Q:
                    return "recovery with the parity of y(R) does not return exactly the signer: " + one
        if n.bit_length() == 256:
            # z and z +- n: same nonce (RFC 6979) and the same signing equation, hence the same signature (C01_sign_hash_plus_n_*)
            zt = z + n if z + n < 2 ** 256 else (z - n if z > n else None)
            if zt is not None and cc.impl("sign %s %d %d" % (tok, d, zt)) != out:
                return "sign(d, z) and sign(d, z +- n) differ although the hashes are congruent modulo n and share the nonce"
        return _cross(op, out)
    if k == "verify":
        tok = a[1]
        n = consts(tok)[5]
        p = consts(tok)[0]
        Q = parse_pt(a[2])
        z, r, s = int(a[3]), int(a[4]), int(a[5])
        if Q == (None, None) or not on_curve(tok, Q) or not (1 <= z < 2 ** 256):
            return None
        if out not in ("ok 0", "ok 1"):
            return "verify raised: " + out
        # the ECDSA equation evaluated with the implementation's own group operations
        want = False
        if 1 <= r < n and 1 <= s < n:
            si = pow(s, -1, n)
            A = cc.impl("ec_mul %s %s %d" % (tok, _G(tok), z * si % n))[3:]
            B = cc.impl("ec_mul %s %s %d" % (tok, a[2], r * si % n))[3:]
            S = cc.impl("ec_add %s %s %s" % (tok, A, B))[3:]
            want = S != "inf" and parse_pt(S)[0] % n == r
        if (out == "ok 1") != want:
            return "verify returns %s, the ECDSA equation says %s" % (out[3:], want)
        if 1 <= s < n:
            o2 = cc.impl("verify %s %s %d %d %d" % (tok, a[2], z, r, n - s))
            if o2 != out:
                return "verify is not invariant under s -> n-s"
        # the hash enters modulo n only (C01_verify_hash_mod_n_*): z and z +- n verify alike (z = n is not refused)
        zt = z + n if z + n < 2 ** 256 else (z - n if z > n else None)
        if zt is not None and cc.impl("verify %s %s %d %d %d" % (tok, a[2], zt, r, s)) != out:
            return "verify(z) and verify(z +- n) differ"
        if want and cc.reduced(tok, Q) and split_curve(tok)[0] in BIG and split_curve(tok)[1] == "openssl":
            # converse of recovery (C01_recover_complete_of_verify_*): a key that verifies and whose nonce point
            # (z/s)G + (r/s)Q has x < n is among the recovered keys; with x >= n it is recovered at the abscissa r + n
            # (asked of the OpenSSL configuration only, for speed: recovery itself is compared across configurations by its own ops)
            xs = parse_pt(S)[0]
            rec = cc.impl("recover %s %d %d %d ~" % (tok, z, r if xs < n else r + n, s))
            keys = [] if not rec.startswith("ok ") or rec == "ok ~" else rec[3:].split(";")
            if a[2] not in keys:
                return "a key that verifies is not among the keys recovered at the abscissa of its nonce point (%s): %s" % (
                    "r" if xs < n else "r + n", rec[:120])
        return _cross(op, out)
    if k == "keysign":
        tok = a[1]
        n = consts(tok)[5]
        d, z = int(a[2]), int(a[3])
        if not (1 <= d < n and 1 <= z < 2 ** 256):
            return None
        ref = cc.impl("sign %s %d %d" % (tok, d, z))
        if not out.startswith("ok ") or not ref.startswith("ok ") or out[3:].split(" ") != ref[3:].split(" ")[:2]:
            return "Key.sign (through DER) differs from Generator.sign: %s vs %s" % (out, ref)
        return None
    if k == "keyverify":
        tok = a[1]
        Q = parse_pt(a[2])
        z = int(a[3])
        if Q == (None, None) or not on_curve(tok, Q) or not (1 <= z < 2 ** 256):
            return None
        ref = cc.impl("verify %s %s" % (tok, " ".join(a[2:])))
        if out != ref:
            return "Key.verify (through DER) differs from Generator.verify: %s vs %s" % (out, ref)
        return None
    if k == "keysign_der":
        tok, ctor = a[1], a[2]
        n = consts(tok)[5]
        q = ctor.split(":")
        hb = _hexb(a[3])
        z = int.from_bytes(hb, "big")
        if q[0] != "d":
            # a key without secret exponent cannot sign: RuntimeError (as documented), never a signature
            if _ctor_pub(tok, ctor) is not None and out != "err RuntimeError":
                return "Key.sign on a public key did not raise RuntimeError: " + out[:80]
            return None
        d = int(q[1])
        if not (1 <= d < n and len(hb) == 32 and z != 0):
            return None
        if not out.startswith("ok "):
            return "Key.sign raised: " + out
        ref = cc.impl("sign %s %d %d" % (tok, d, z))
        if not ref.startswith("ok "):
            return "Generator.sign raised: " + ref
        r, s_ = (int(v) for v in ref[3:].split(" ")[:2])
        if _hexb(out[3:]) != _der_sig(r, s_):
            return "Key.sign is not the DER encoding of Generator.sign(d, z): %s vs (%d, %d)" % (out[3:40], r, s_)
        Q = _pub(tok, d)
        for c2 in ("pair:%s:1" % Q, "pair:%s:0" % Q, ctor):
            v = cc.impl("keyverify_der %s %s %s %s" % (tok, c2, a[3], out[3:]))
            if v != "ok 1":
                return "Key.verify(h, Key.sign(h)) is not True (key %s): %s" % (c2.split(":")[0], v)
        return _cross(op, out)
    if k == "keyverify_der":
        tok, ctor = a[1], a[2]
        Q = _ctor_pub(tok, ctor)
        if Q is None:
            return None
        want = _key_verify_expect(tok, Q, a[3], a[4])
        if want is None:
            return None
        if out not in ("ok 0", "ok 1"):
            return "Key.verify did not return a Boolean: " + out
        if out != want:
            return "Key.verify returns %s, Generator.verify of the strictly decoded pair (False when it does not decode) says %s" % (out, want)
        return _cross(op, out)
    if k == "keyhist":
        tok, ctor = a[1], a[2]
        Q = _ctor_pub(tok, ctor)
        if Q is None:
            return None
        if not out.startswith("ok "):
            return "history raised: " + out
        outs = out[3:].split(";")
        steps = a[3].split(",")
        if len(outs) != len(steps):
            return "history has %d answers for %d steps" % (len(outs), len(steps))
        cur = ctor            # constructor text of a FRESH key equal to the current object (fields only)
        last, last_h = "-", None
        for st, o in zip(steps, outs):
            q = st.split(":")
            if q[0] == "s":
                fresh = cc.impl("keysign_der %s %s %s" % (tok, cur, q[1]))
                want = fresh[3:] if fresh.startswith("ok ") else "!" + fresh[4:]
                if o != want:
                    return "step %s: the object answers %s, a fresh key built from its fields %s" % (st[:20], o[:40], want[:40])
                if fresh.startswith("ok "):
                    last, last_h = o, q[1]
            elif q[0] in ("v", "l"):
                sig = q[2] if q[0] == "v" else last
                fresh = cc.impl("keyverify_der %s pair:%s:1 %s %s" % (tok, Q, q[1], sig))
                want = fresh[3:] if fresh.startswith("ok ") else "!" + fresh[4:]
                if o != want:
                    return "step %s: the object answers %s, a fresh public key %s" % (st[:20], o, want)
                hb = _hexb(q[1])
                if q[0] == "l" and last_h == q[1] and len(hb) == 32 and int.from_bytes(hb, "big") != 0 and o != "1":
                    return "step %s: the signature this key made for this hash does not verify: %s" % (st[:20], o)
            elif q[0] == "p":
                if o != "pub":
                    return "public_copy raised: " + o
                cur = "pair:%s:%s" % (Q, cur.split(":")[2] if cur.split(":")[0] != "sec" else ("1" if len(cur) < 80 else "0"))
            elif q[0] == "c":
                if o != "sec":
                    return "Key.from_sec(key.sec()) raised: " + o
                cur = "pair:%s:%s" % (Q, cur.split(":")[2] if cur.split(":")[0] != "sec" else ("1" if len(cur) < 80 else "0"))
        return _cross(op, out)
    if k == "toy_keys":
        tok = a[1]
        p, ca, cb, gx, gy, n = consts(tok)
        z, r, s_ = int(a[2]), int(a[3]), int(a[4])
        if not out.startswith("ok ") or z == 0 or p > 2 * n:
            return None if out.startswith("ok ") else "toy_keys raised: " + out
        ver, rec1, rec2 = out[3:].split("|")
        if "!" in rec1 + rec2:
            return ("recovery raised: " + rec1 + " / " + rec2) if (1 <= r < n and 1 <= s_ < n) else None
        V = set() if ver == "~" else set(ver.split(";"))
        R1 = set() if rec1 == "~" else set(rec1.split(";"))
        R2 = set() if rec2 == "~" else set(rec2.split(";"))
        if not (1 <= r < n and 1 <= s_ < n):
            return "a signature with r or s outside [1, n-1] verifies under " + ver if V else None
        if len(V) > 4:
            return "more than four keys verify one (z, r, s): " + ver
        if V != (R1 | R2) - {"inf"}:
            return "the keys that verify (%s) are not the keys recovered at the abscissas r and r + n (%s | %s)" % (ver, rec1, rec2)
        return None
    if k in ("ossl_sign", "ossl_verify", "ossl_recover"):
        # model side: Generator.* over the GLUE MODEL of the OpenSSL class; on the implementation alone: the OpenSSL class
        # answers what the pure class answers (for recovery: whenever r >= 0, the domain of C01_native_recover)
        name = split_curve(a[1])[0]
        ref = cc.impl(" ".join([k[5:], name + "/pure"] + a[2:]))
        if ref != out:
            return "the OpenSSL class and the pure class disagree on identical input: OpenSSL %s, pure %s" % (out[:160], ref[:160])
        return None
    if k == "recover":
        tok = a[1]
        n = consts(tok)[5]
        z, r, s = int(a[2]), int(a[3]), int(a[4])
        if not (1 <= z < 2 ** 256 and 1 <= r < n and 1 <= s < n):
            return None
        if not out.startswith("ok"):
            return "recovery raised: " + out
        if out == "ok ~":
            return _cross(op, out)
        for Q in out[3:].split(";"):
            if Q == "inf":
                continue
            if not on_curve(tok, parse_pt(Q)):
                return "recovered key is not on the curve"
            v = cc.impl("verify %s %s %d %d %d" % (tok, Q, z, r, s))
            if v != "ok 1":
                return "signature does not verify under a recovered key: " + v
        return _cross(op, out)
    if k == "toy_sign":
        tok = a[1]
        n = consts(tok)[5]
        d = int(a[2])
        if not out.startswith("ok "):
            return "sign raised: " + out
        for z, cell in enumerate(out[3:].split(";"), start=1):
            if "." not in cell:
                return "sign raised %s for d=%d z=%d" % (cell, d, z)
            r, s, recid = (int(v) for v in cell.split("."))
            if not (1 <= r < n and 1 <= s < n):
                return "r or s outside [1, n-1] for d=%d z=%d" % (d, z)
            kk, R, r0, s0 = _ref_sig(tok, d, z)
            if r0 != 0 and s0 != 0 and (r, s) != (r0, s0):
                return "signature differs from the RFC 6979 signature for d=%d z=%d" % (d, z)
            v = cc.impl("verify %s %s %d %d %d" % (tok, _pub(tok, d), z, r, s))
            if v != "ok 1":
                return "signature does not verify for d=%d z=%d" % (d, z)
        return None
    if k == "toy_verify":
        tok = a[1]
        p, ca, cb, gx, gy, n = consts(tok)
        d, z = int(a[2]), int(a[3])
        if not out.startswith("ok ") or z % (2 ** 256) == 0:
            return None if out.startswith("ok ") else "verify raised: " + out
        bits = out[3:]
        # reference by brute force on the toy group: multiples of G by repeated addition on the implementation
        mult = ["inf"]
        for _ in range(n):
            mult.append(cc.impl("ec_add %s %s %s" % (tok, mult[-1], _G(tok)))[3:])
        i = 0
        for r in range(0, n + 2):
            for s in range(0, n + 2):
                want = False
                if 1 <= r < n and 1 <= s < n:
                    si = pow(s, -1, n)
                    e = (z * si + r * si * d) % n
                    S = mult[e]
                    want = S != "inf" and parse_pt(S)[0] % n == r
                if bits[i] not in "01":
                    return "verify raised for r=%d s=%d" % (r, s)
                if (bits[i] == "1") != want:
                    return "verify(d*G, z, (%d,%d)) = %s, the ECDSA equation says %s" % (r, s, bits[i], want)
                i += 1
        return None
    return None


def neighbours(op: str, rng):
    a = op.split(" ")
    res = []
    if a[0] == "sign":
        d, z = int(a[2]), int(a[3])
        res += ["sign %s %d %d" % (a[1], d, z ^ 1), "sign %s %d %d" % (a[1], d ^ 1 or 1, z), "rfc6979 %s %d %d" % (a[1], d, z)]
    if a[0] == "rfc6979":
        d, z = int(a[2]), int(a[3])
        res += ["rfc6979 %s %d %d" % (a[1], d, z ^ (1 << rng.randrange(256))) for _ in range(3)]
        res += ["rfc6979 %s %d %d" % (a[1], (d ^ (1 << rng.randrange(200))) or 1, z) for _ in range(3)]
    if a[0] == "verify":
        n = consts(a[1])[5]
        Q, z, r, s = a[2], int(a[3]), int(a[4]), int(a[5])
        res += ["verify %s %s %d %d %d" % (a[1], Q, z, r, (n - s) % n), "verify %s %s %d %d %d" % (a[1], Q, z, r, s + n),
                "verify %s %s %d %d %d" % (a[1], Q, z, r + n, s), "verify %s %s %d %d %d" % (a[1], Q, z + 1, r, s)]
    return res


def gen(ctx, emit):
    rng = ctx.rng
    two256 = 2 ** 256
    # libsecp256k1's sign/verify glue is tied to the source by reading only; say in the evidence whether the library is
    # loadable where this run happens (a note, never a violation)
    hello = cc.worker_hello("openssl")
    ctx.extra_cov["libsecp256k1"] = {
        "present": "libsecp256k1=1" in hello, "worker": hello,
        "note": ("libsecp256k1 IS loadable here: Optimizations.sign/verify of native/secp256k1.py are what pycoin runs, but their glue "
                 "model (Secp.sign, Secp.verify) and LibSecpOk have never been compared with a real library - extend the correspondence")
                if "libsecp256k1=1" in hello else
                "libsecp256k1 not loadable: native/secp256k1.py is never executed; its glue model is tied to the source by reading only"}
    for name in BIG:
        p, ca, cb, gx, gy, n = consts(name)
        for cfg in ("pure", "openssl"):
            tok = name + "/" + cfg
            # ---- boundary corpus
            ds = [1, 2, n - 1]
            zs = [1, 2, n - 1, n, n + 1, 2 * n if 2 * n < two256 else two256 - 2, two256 - 1]
            for d in ds:
                for z in zs:
                    if d == 1 or z in (1, n, two256 - 1) or ctx.thorough:
                        emit("sign %s %d %d" % (tok, d, z))
                    emit("rfc6979 %s %d %d" % (tok, d, z))
            for d, z in ((0, 1), (n, 1), (-1, 1), (1, 0), (1, two256), (1, -1), (two256, 5)):  # outside the quantifier: raise as coded
                emit("sign %s %d %d" % (tok, d, z))
            # a fixed signature and every way of presenting it wrongly
            d0, z0 = 12345678901234567890, 98765432109876543210987654321
            so = cc.impl("sign %s %d %d" % (tok, d0, z0))
            if so.startswith("ok "):
                r, s, _rid = (int(v) for v in so[3:].split(" "))
                Q = cc.impl("ec_mul %s %d,%d %d" % (tok, gx, gy, d0))[3:]
                Q2 = cc.impl("ec_mul %s %d,%d %d" % (tok, gx, gy, d0 + 1))[3:]
                emit("verify %s %s %d %d %d" % (tok, Q, z0, r, s))
                emit("verify %s %s %d %d %d" % (tok, Q, z0, r, n - s))
                emit("verify %s %s %d %d %d" % (tok, Q2, z0, r, s))          # foreign key
                emit("verify %s %s %d %d %d" % (tok, Q, z0 + 1, r, s))       # foreign hash
                emit("verify %s %s %d %d %d" % (tok, Q, z0 + n, r, s))       # same hash mod n: accepted, as the equation says
                emit("verify %s %s 0 %d %d" % (tok, Q, r, s))
                for bad in (0, n, n + 1, two256 - 1, -1, r + n, s + n):
                    emit("verify %s %s %d %d %d" % (tok, Q, z0, bad, s))
                    emit("verify %s %s %d %d %d" % (tok, Q, z0, r, bad))
                emit("verify %s %s %d %d %d" % (tok, Q, z0, r ^ 1, s))
                emit("verify %s %s %d %d %d" % (tok, Q, z0, r, s ^ 1))
                qx, qy = parse_pt(Q)
                emit("verify %s %d,%d %d %d %d" % (tok, qx, qy + 1, z0, r, s))  # off-curve key: NoSuchPointError as coded
                emit("verify %s %d,%d %d %d %d" % (tok, qx, p - qy, z0, r, s))   # -Q
                emit("recover %s %d %d %d ~" % (tok, z0, r, s))
                emit("recover %s %d %d %d 0" % (tok, z0, r, s))
                emit("recover %s %d %d %d 1" % (tok, z0, r, s))
                emit("recover %s %d %d %d ~" % (tok, z0, r, n - s))
                emit("recover %s %d %d %d ~" % (tok, z0 + 1, r, s))
            if cfg == "openssl" and so.startswith("ok "):
                # the same through the GLUE MODEL of native/openssl.py (Lean: Gen.* over Ossl.methods over the pure-model libcrypto)
                emit("ossl_sign %s %d %d" % (tok, d0, z0), "ossl-glue")
                emit("ossl_sign %s 1 %d" % (tok, two256 - 1), "ossl-glue")
                emit("ossl_sign %s 1 0" % tok, "ossl-glue")
                for rr, ss in ((r, s), (r, n - s), (0, s), (r, n), (r ^ 1, s)):
                    emit("ossl_verify %s %s %d %d %d" % (tok, Q, z0, rr, ss), "ossl-glue")
                emit("ossl_verify %s %s %d %d %d" % (tok, Q2, z0, r, s), "ossl-glue")
                emit("ossl_verify %s %d,%d 1 %d 1" % (tok, gx, gy, n - 1), "ossl-glue")          # the sum is infinity
                emit("ossl_verify %s %s %d %d %d" % (tok, Q, n, r, s), "ossl-glue")               # u1*G is infinity
                emit("ossl_recover %s %d %d %d ~" % (tok, z0, r, s), "ossl-glue")
                emit("ossl_recover %s %d %d %d 1" % (tok, z0, r, n - s), "ossl-glue")
                # r without an inverse mod n (r = n < p on secp256k1; r = 0 is an abscissa of secp256r1): AssertionError in both classes
                for rr in (0, n, 1, p - 1, p):
                    emit("ossl_recover %s 5 %d 3 ~" % (tok, rr), "ossl-glue")
                    emit("recover %s 5 %d 3 ~" % (tok, rr), "ossl-glue")
                    emit("recover %s/pure 5 %d 3 ~" % (name, rr), "ossl-glue")
            if name == "secp256k1" and so.startswith("ok "):
                # Key.sign / Key.verify (DER wrapper) of the BTC Key class
                for d in (1, 2, n - 1, d0):
                    emit("keysign %s %d %d" % (tok, d, z0))
                emit("keysign %s 0 %d" % (tok, z0))
                emit("keysign %s %d %d" % (tok, n, z0))
                emit("keysign %s 5 0" % tok)
                for rr, ss in ((r, s), (r, n - s), (r, s + n), (0, s), (r, 0), (n, s), (two256 - 1, s), (r ^ 1, s), (r, two256 + 5)):
                    emit("keyverify %s %s %d %d %d" % (tok, Q, z0, rr, ss))
                emit("keyverify %s %s 0 %d %d" % (tok, Q, r, s))
                emit("keyverify %s %s %d %d %d" % (tok, Q2, z0, r, s))
                emit("keyverify %s %d,%d %d %d %d" % (tok, parse_pt(Q)[0], parse_pt(Q)[1] + 1, z0, r, s))
                emit("keyverify %s %d,%d 1 %d 1" % (tok, gx, gy, n - 1))
            if so.startswith("ok "):
                # ---- Key.sign / Key.verify on BYTE STRINGS (Model/KeySign.lean): the DER blob itself, every malformed blob as
                # signature (Key.verify must answer a Boolean), histories on one Key object.  secp256k1: the BTC network's Key
                # class; secp256r1: Key.make_subclass over that generator.  The oracle of every one of these ops evaluates the op in
                # the OTHER arithmetic configuration too (_cross), so the full lists are emitted under the OpenSSL token only (one
                # model evaluation, both implementations) and a sample under the pure token.
                full = cfg == "openssl"
                k1 = name == "secp256k1"
                h0 = _h32(z0)
                kd, kq = "d:%d:1" % d0, "pair:%s:1" % Q
                qx, qy = parse_pt(Q)
                sec_c = (bytes([2 + (qy & 1)]) + qx.to_bytes(32, "big")).hex()
                sec_u = (b"\x04" + qx.to_bytes(32, "big") + qy.to_bytes(32, "big")).hex()
                good = _der_sig(r, s).hex()
                emit("keysign_der %s %s %s" % (tok, kd, h0), "key-der")
                emit("keysign_der %s %s %s" % (tok, kq, h0), "key-der")                        # public key: RuntimeError
                if full and k1:
                    emit("keysign_der %s d:%d:0 %s" % (tok, n - 1, _h32(two256 - 1)), "key-der")
                    emit("keysign_der %s d:1:1 %s" % (tok, _h32(n)), "key-der")                # z = n (not refused, not reduced)
                    emit("keysign_der %s d:2:1 %s" % (tok, _h32(n + 5)), "key-der")            # z >= n ...
                    emit("keysign_der %s d:2:1 %s" % (tok, _h32(5)), "key-der")                # ... same signature as z - n
                    emit("keysign_der %s sec:%s %s" % (tok, sec_c, h0), "key-der")
                if full:
                    for bad in ("d:0:1", "d:%d:1" % n, "d:-1:1", "pair:inf:1", "pair:%d,%d:1" % (qx, qy + 1), "sec:02" + "00" * 31, "sec:-"):
                        emit("keysign_der %s %s %s" % (tok, bad, h0), "key-der")                # constructor errors, as coded
                    for hh in (_h32(0), "-", "00" + h0, "ff" * 33, "01"):                       # hashes outside the quantifier, as coded
                        emit("keysign_der %s %s %s" % (tok, kd, hh), "key-der")
                muts = _der_mutations(rng, r, s, n, 3 if ctx.thorough else 2)
                if not (full and k1):
                    muts = muts[:1] + muts[(1 if full else 2)::4]
                for m in muts:
                    emit("keyverify_der %s %s %s %s" % (tok, kq, h0, m.hex() or "-"), "key-der")
                if full:
                    kks = ["pair:%s:0" % Q, "pair:%s:1" % Q2, "pair:%d,%d:1" % (qx, qy + 1), "pair:inf:1"]
                    hhs = [_h32(z0 + 1), _h32(0), "-"]
                    if k1:
                        kks += ["sec:" + sec_c, "pair:%d,%d:1" % (qx, p - qy), "pair:%d,%d:1" % (qx + p, qy)]
                        hhs += [_h32(z0 + n) if z0 + n < two256 else h0, h0[2:], "ff" * 40]
                    if ctx.thorough or k1:
                        kks += ["sec:" + sec_u, kd]
                        hhs += ["00" + h0]
                    for kk in kks:
                        emit("keyverify_der %s %s %s %s" % (tok, kk, h0, good), "key-der")
                    for hh in hhs:
                        emit("keyverify_der %s %s %s %s" % (tok, kq, hh, good), "key-der")
                hA, hB = h0, _h32(z0 ^ (1 << 200))
                if full and k1:
                    emit("keyhist %s %s l:%s,s:%s,l:%s,s:%s,l:%s,p,l:%s,s:%s,c,l:%s,v:%s:%s,v:%s:%s00,v:%s:-" % (
                        tok, kd, hA, hA, hA, hB, hA, hB, hA, hB, hA, good, hA, good, hA), "key-history")
                    emit("keyhist %s %s v:%s:%s,s:%s,p,c,v:%s:%s" % (tok, kq, hA, good, hA, hB, good), "key-history")
                    emit("keyhist %s sec:%s v:%s:%s,c,p,v:%s:%s,s:%s" % (tok, sec_u, hA, good, hB, good, hA), "key-history")
                else:
                    emit("keyhist %s d:%d:0 s:%s,c,l:%s,p,l:%s,s:%s" % (tok, n - 1, hB, hB, hA, hB), "key-history")
                # ECDSA's second hash (C01_second_hash_verifies): (r, s) verifies for z' = -z - 2rd too - what the equation says
                z2 = (-z0 - 2 * r * d0) % n
                if z2:
                    emit("verify %s %s %d %d %d" % (tok, Q, z2, r, s))
                # a nonce point with x(R) >= n (constructed: it does not happen by chance): R = (n + t, y), r = t; the keys
                # r^-1(s*R - z*G) come from recovery called with the abscissa n + t; they verify (z, r, s) and recovery called with r
                # does not return them (C01_verifying_keys_*)
                for t in range(1, 40) if full else ():
                    if cc.impl("ec_points_for_x %s %d" % (tok, n + t)).startswith("ok ") and n + t < p:
                        rec = cc.impl("recover %s %d %d %d ~" % (tok, z0, n + t, s))
                        emit("recover %s %d %d %d ~" % (tok, z0, n + t, s))
                        emit("recover %s %d %d %d ~" % (tok, z0, t, s))
                        if rec.startswith("ok ") and rec != "ok ~":
                            for K in rec[3:].split(";")[:1 if not ctx.thorough else 2]:
                                emit("verify %s %s %d %d %d" % (tok, K, z0, t, s))
                                emit("verify %s %s %d %d %d" % (tok, K, z0, t + 1, s))
                        break
            # degenerate verification inputs (always run, both backends; every verify case is also compared across backends):
            #   u1*G + u2*Q = infinity  (Q = t*G, z = -r*t mod n; with r = x(Q) mod n, and with another r)
            #   u1*G = infinity alone   (z = n, i.e. z = 0 mod n but non-zero), accepted and rejected signature
            #   u1*G = u2*Q             (z = r*t mod n: the final addition is a doubling), accepted and rejected
            #   (u2*Q = infinity alone is impossible: r is in [1, n-1] and Q is affine)
            for t, s_ in ((1, 1), (7, n - 1), (rng.randrange(2, n), rng.randrange(2, n))):
                Qt = cc.impl("ec_mul %s %d,%d %d" % (tok, gx, gy, t))[3:]
                rq = parse_pt(Qt)[0] % n
                for r_ in (rq, (rq + 1) % n or 1):
                    z_ = (-r_ * t) % n
                    if z_:
                        emit("verify %s %s %d %d %d" % (tok, Qt, z_, r_, s_))
                        if r_ == rq and (t == 7 or ctx.thorough):
                            emit("verify %s %s %d %d %d" % (tok, Qt, z_ + n if z_ + n < two256 else z_, r_, (s_ * 3) % n or 1))
            for t, k_ in (((3, 5), (rng.randrange(2, n), rng.randrange(2, n))) if ctx.thorough else ((rng.randrange(2, n), rng.randrange(2, 2 ** 64)),)):
                Qt = cc.impl("ec_mul %s %d,%d %d" % (tok, gx, gy, t))[3:]
                Rk = parse_pt(cc.impl("ec_mul %s %s %d" % (tok, Qt, k_))[3:])
                r_ = Rk[0] % n
                s_ = r_ * pow(k_, -1, n) % n
                emit("verify %s %s %d %d %d" % (tok, Qt, n, r_, s_))            # u1 = 0: accepted, the point is k*Q
                emit("verify %s %s %d %d %d" % (tok, Qt, n, r_, (s_ + 1) % n or 1))
                # doubling: u1 = u2*t, so u1*G = u2*Q and the sum is 2*u1*G
                u1 = k_
                D = parse_pt(cc.impl("ec_mul %s %d,%d %d" % (tok, gx, gy, 2 * u1 % n))[3:])
                r2 = D[0] % n
                # u2 = u1/t, s = r2/u2, z = u1*s
                u2 = u1 * pow(t, -1, n) % n
                s2 = r2 * pow(u2, -1, n) % n
                z2 = u1 * s2 % n
                if r2 and s2 and z2:
                    emit("verify %s %s %d %d %d" % (tok, Qt, z2, r2, s2))
                    emit("verify %s %s %d %d %d" % (tok, Qt, z2, (r2 + 1) % n or 1, s2))
            # u1*G + u2*Q = infinity: z + r*d = 0 (mod n)  (fixed defect: used to raise TypeError)
            emit("verify %s %d,%d 1 %d 1" % (tok, gx, gy, n - 1))
            emit("verify %s %d,%d 5 %d 7" % (tok, gx, gy, n - 5))
            # recovery: abscissas with no point, r = 1, 2, 3 ...
            for r in (1, 2, 3, 4, 5, 6, 7):
                emit("recover %s 1 %d 1 ~" % (tok, r))
            # ---- random stream
            for it in range(ctx.n(2, 140)):
                keyder = cfg == "openssl" and (not ctx.thorough or it % 3 == 0)
                d = rng.choice([rng.randrange(1, n), rng.randrange(1, n), rng.randrange(1, 2 ** 64), n - rng.randrange(1, 1000)])
                z = rng.choice([rng.randrange(1, two256), rng.randrange(1, two256), rng.randrange(1, n), rng.getrandbits(rng.randrange(1, 257)) or 1])
                emit("sign %s %d %d" % (tok, d, z))
                if z < two256 and keyder:
                    emit("keysign_der %s d:%d:%d %s" % (tok, d, rng.randrange(2), _h32(z)), "key-der")
                bit = 1 << rng.randrange(256)
                emit("rfc6979 %s %d %d" % (tok, d, z))
                emit("rfc6979 %s %d %d" % (tok, d, (z ^ bit) or 1))                 # nonce depends on the hash …
                emit("rfc6979 %s %d %d" % (tok, ((d ^ (bit >> 1)) % n) or 1, z))    # … and on the key
                so = cc.impl("sign %s %d %d" % (tok, d, z))
                if not so.startswith("ok "):
                    continue
                r, s, rid = (int(v) for v in so[3:].split(" "))
                Q = cc.impl("ec_mul %s %d,%d %d" % (tok, gx, gy, d))[3:]
                mode = rng.randrange(8)
                if z < two256 and keyder:
                    mm = _der_mutations(rng, r, s, n)
                    for m in [mm[0], rng.choice(mm[1:])] + ([rng.choice(mm[1:])] if ctx.thorough else []):
                        emit("keyverify_der %s pair:%s:1 %s %s" % (tok, Q, _h32(z), m.hex() or "-"), "key-der")
                    hist = "keyhist %s d:%d:1 s:%s,l:%s,%s,l:%s,v:%s:%s" % (tok, d, _h32(z), _h32(z), rng.choice(["p", "c", "p,c"]), _h32(z),
                                                                          _h32(z ^ bit or 1), _der_sig(r, s).hex())
                    if name == "secp256k1" or ctx.thorough:
                        emit(hist, "key-history")
                if mode == 0:
                    emit("verify %s %s %d %d %d" % (tok, Q, z, r, s))
                elif mode == 1:
                    emit("verify %s %s %d %d %d" % (tok, Q, z, r, n - s))
                elif mode == 2:
                    emit("verify %s %s %d %d %d" % (tok, cc.impl("ec_mul %s %d,%d %d" % (tok, gx, gy, rng.randrange(1, n)))[3:], z, r, s))
                elif mode == 3:
                    emit("verify %s %s %d %d %d" % (tok, Q, z ^ bit or 1, r, s))
                elif mode == 4:
                    emit("verify %s %s %d %d %d" % (tok, Q, z, r ^ bit, s))
                elif mode == 5:
                    emit("verify %s %s %d %d %d" % (tok, Q, z, rng.choice([0, n, n + 1, two256 - 1, r + n]), rng.choice([s, 0, n, n + 1, two256 - 1, s + n])))
                elif mode == 6:
                    emit("recover %s %d %d %d %s" % (tok, z, r, s, rng.choice(["~", "0", "1", str(rid)])))
                else:
                    emit("recover %s %d %d %d ~" % (tok, z, rng.randrange(1, n), rng.randrange(1, n)))
    # rfc6979 for group orders of every bit length class (qlen < 256, = 256, > 256, not a multiple of 8)
    for n in (3, 5, 7, 11, 13, 251, 257, 65537, 2 ** 61 - 1, 2 ** 127 - 1, 2 ** 255 - 19, 2 ** 256 - 189, 2 ** 256 + 297, 2 ** 384 - 317, 2 ** 521 - 1,
              consts("bls12_381")[5]):
        for _ in range(ctx.n(3, 40)):
            emit("rfc6979n %d %d %d" % (n, rng.randrange(1, n), rng.choice([1, two256 - 1, rng.randrange(1, two256)])))
        emit("rfc6979n %d %d %d" % (n, n - 1, two256 - 1))
        for _ in range(ctx.n(2, 20)):
            emit("rfc6979_spec %d %d %s" % (n, rng.randrange(1, n), cc_hex(rng, 32)))
        emit("rfc6979n %d %d %d" % (n, n, 1))          # OverflowError only when d does not fit order_size bytes
        emit("rfc6979n %d %d %d" % (n, -1, 1))
    for key, msg in (("0b" * 20, "4869205468657265"), ("-", "-"), ("aa" * 131, "54657374"), ("00" * 64, "ff" * 100), ("01" * 65, "-")):
        emit("c01_hmac256 %s %s" % (key, msg))
    for _ in range(ctx.n(20, 300)):
        emit("c01_hmac256 %s %s" % (cc_hex(rng, rng.choice([0, 1, 32, 63, 64, 65, 100])), cc_hex(rng, rng.choice([0, 1, 55, 56, 64, 119, 120, 200]))))
    # ---- toy curves (prime order, built through pycoin's Generator): exhaustive in the thorough tier
    toy = []
    for p in cc.TOY_PRIMES_SMALL:
        toy += cc.toy_curves(p)
    # always-run toy curves: one with n > p (abscissas r in [p, n) have no point), one with n < p (nonce points with
    # x >= n, so that `x mod n` matters in verify and the recid bit 2 is exercised)
    fixed = ["toy:7:0:3:1:2:13", "toy:19:0:2:4:3:13"] + (["toy:43:41:40:0:13:53", "toy:43:6:24:0:14:37"] if ctx.thorough else [])
    for tok in fixed:
        p, ca, cb, gx, gy, n = consts(tok)
        for d in (1, 2, n - 1):
            emit("toy_sign %s %d %d" % (tok, d, n + 2), "toy-table")
        emit("toy_verify %s 1 1" % tok, "toy-table")
        emit("toy_verify %s 2 %d" % (tok, n + 1), "toy-table")
        if ctx.thorough:
            emit("toy_verify %s %d %d" % (tok, n - 1, 2 ** 256 - 1), "toy-table")
        for r in sorted({1, 2, 3, p - 1, p, p + 1, n - 2, n - 1}):
            if 1 <= r < n:
                emit("recover %s 5 %d 3 ~" % (tok, r))
        # the converse of recovery by enumeration: the curve points under which (z, r, s) verifies are exactly the keys recovered at
        # the abscissas r and r + n, and there are at most four (every r in [0, n], s and z at the boundaries)
        for r in range(0, n + 1):
            for s_, z in ((1, 5), (3, n), (n - 1, 2 * n + 1)):
                emit("toy_keys %s %d %d %d" % (tok, z, r, s_), "toy-keys")
        emit("toy_keys %s 5 3 0" % tok, "toy-keys")
        emit("toy_keys %s 5 3 %d" % (tok, n), "toy-keys")
    # generators that are EQUAL AS TUPLES (same base-point coordinates) but different groups, used alternately in one
    # process: recovery and signing on each must not be influenced by what another one was asked before
    fam = cc.shared_base_family()
    fam = fam[:4] + (fam[4:] if ctx.thorough else rng.sample(fam[4:], min(2, len(fam[4:]))))
    for r in range(1, ctx.n(9, 30)):
        for tok in fam:
            n = consts(tok)[5]
            if r < n:
                emit("recover %s 5 %d 3 ~" % (tok, r), "shared-base-point")
                emit("recover %s %d %d %d %s" % (tok, 1 + r % 7, r, 1 + (2 * r) % (n - 1), "01"[r & 1]), "shared-base-point")
    for tok in fam[:3]:
        emit("toy_sign %s 2 %d" % (tok, 6), "shared-base-point")
    # verification of the SAME (Q, z, r, s) on every member in turn: a verdict remembered under the generator *as a tuple*
    # (functools.lru_cache on a method, a dict keyed by self) is served to another group
    small = fam[:5]
    common = {}
    for tok in small:
        p_, ca_, cb_ = consts(tok)[:3]
        for P in cc.curve_points(p_, ca_, cb_):
            common.setdefault(P, []).append(tok)
    shared_pts = sorted(P for P, ts in common.items() if len(ts) > 1)
    for Q in (shared_pts if ctx.thorough else shared_pts[:6]):
        for z in (1, 2, 5):
            for r in range(1, 6):
                for s_ in range(1, 6):
                    for tok in common[Q]:
                        emit("verify %s %d,%d %d %d %d" % (tok, Q[0], Q[1], z, r, s_), "shared-base-point")
    chosen = rng.sample(toy, ctx.n(2, 40))
    for tok in chosen:
        p, ca, cb, gx, gy, n = consts(tok)
        ds = range(1, n) if (ctx.thorough and n <= 31) else sorted({1, 2, n - 1, rng.randrange(1, n)})
        for d in ds:
            emit("toy_sign %s %d %d" % (tok, d, 4 * n if (ctx.thorough or n < 20) else n + 2), "toy-table")
        for d in (list(ds)[:3] if not ctx.thorough else list(ds)[:6]):
            if n <= 31 or ctx.thorough:
                emit("toy_verify %s %d %d" % (tok, d, rng.choice([1, d, n - 1, n + 1, rng.randrange(1, 4 * n)])), "toy-table")
        for _ in range(ctx.n(4, 30)):
            z, r, s = rng.randrange(1, 4 * n), rng.randrange(0, n + 2), rng.randrange(0, n + 2)
            emit("recover %s %d %d %d %s" % (tok, z, r, s, rng.choice(["~", "0", "1"])))


def cc_hex(rng, k):
    return bytes(rng.randrange(256) for _ in range(k)).hex() if k else "-"
