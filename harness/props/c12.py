"""C12 — script integers, data pushes and script text encode canonically and losslessly
(IntStreamer, ScriptStreamer.compile_push_data / get_opcode, ScriptTools.compile / disassemble)."""
from __future__ import annotations

from lib import hx, unhx, show_list

from pycoin.coins.SolutionChecker import ScriptError
from pycoin.satoshi.IntStreamer import IntStreamer
from pycoin.symbols.btc import network as BTC
from pycoin.coins.bitcoin.VM import BitcoinVM

MANIFEST = {
    "text": "Lean theorems over models of IntStreamer.int_to_script_bytes/int_from_script_bytes, ScriptStreamer.compile_push_data/get_opcode "
            "(tables regenerated from the live BitcoinScriptStreamer) and ScriptTools.compile/disassemble: decode∘encode = id for all integers, "
            "minimal/unique/shortest encoding, require_minimal accepts exactly encode's image, compile_push_data = the unique push accepted by Core's "
            "CheckMinimalPush and is read back by get_opcode with minimal verification on, truncated pushes are malformed, "
            "compile(disassemble(s)) = s for scripts of known opcodes and minimal pushes; models tied to the code by differential correspondence on every run.",
    "note": "String layer of compile (str.split, str.upper, int(), unhexlify, utf-8) is modelled for ASCII text outside quoted tokens and tied by correspondence only.",
    "technique": "Lean 4 proof (induction/omega/decide over generated tables) + differential correspondence model vs implementation",
}
RULE = ("ops numenc/numdec/push/getop/ops/disasm/compile; boundary corpus (integers around every byte-length and sign-bit boundary to 2^71, all encodings of "
        "length <= 2, push lengths around 75/76/255/256/65535/65536, every single byte as data, truncations of every push form at every cut, whole opcode "
        "alphabet) + seeded random; distinct = distinct op line; trivial = empty input")
ASSUMPTIONS = ["text given to compile is ASCII outside '…' quoted tokens and numeric literals have fewer than 4300 digits (Python str.upper/int()/split on other "
               "Unicode is not modelled)",
               "data length < 2^32 (compile_push_data raises struct.error beyond; not executed)"]
TRUSTED = ["harness-side reference of Bitcoin Core GetScriptOp / CheckMinimalPush / CScriptNum (harness/props/c12.py ref_*), used by the oracle"]

ST = BTC.script
STREAMER = BitcoinVM.ScriptStreamer  # the decoder the VM calls in eval_instruction


# ------------------------------------------------------------------ implementation adapter

def _flag(s):
    return s == "1"


def _optbytes(s):
    return None if s == "none" else unhx(s)


def _show_data(d):
    return "none" if d is None else hx(bytes(d))


def _foreign_dialect():
    """build and use a second ScriptStreamer of ANOTHER dialect in this process (a user-defined script language: other
    constants, direct pushes only up to 40 bytes, opcode 76 with a TWO-byte length): instances must not share tables"""
    import struct
    from pycoin.vm.ScriptStreamer import ScriptStreamer

    def dec(fmt):
        n = struct.calcsize(fmt)

        def f(script, pc):
            pc += 1
            try:
                size = struct.unpack(fmt, script[pc:pc + n])[0]
            except Exception:  # noqa: BLE001
                return None, pc
            return size, pc + n
        return f
    consts = [("OP_%d" % i, bytes([i + 100])) for i in range(1, 5)]
    sized = [("OP_PUSH_%d" % i, i) for i in range(1, 41)]
    var = [("OP_PUSHDATA1", (1 << 16) - 1, lambda d: struct.pack("<H", d), dec("<H"))]
    lookup = dict([("OP_%d" % i, 0x51 + i) for i in range(1, 5)] + [("OP_PUSH_%d" % i, i) for i in range(1, 41)] + [("OP_PUSHDATA1", 76)])
    st = ScriptStreamer(consts, sized, var, lookup, lambda msg: None)
    blob = st.compile_push_data(b"\x07" * 300) + st.compile_push_data(b"\x65") + st.compile_push_data(b"ab")
    pc = 0
    while pc < len(blob):
        _o, _d, pc, _ok = st.get_opcode(blob, pc, verify_minimal_data=True)


def impl(op: str) -> str:
    a = op.split(" ")
    k = a[0]
    if k == "asview":
        # the script argument as another bytes-like type (bytearray / memoryview): the decoders read the same instructions
        conv = {"bytearray": bytearray, "memoryview": memoryview}[a[1]]
        kk, b = a[2], conv(unhx(a[3]))
        try:
            if kk == "getop":
                opcode, data, pc, is_ok = STREAMER.get_opcode(b, int(a[4]), verify_minimal_data=_flag(a[5]))
                return "ok %d %s %d %d" % (opcode, _show_data(data), pc, 1 if is_ok else 0)
            if kk == "ops":
                items, err = [], ""
                try:
                    for opcode, data, pc, new_pc in ST.get_opcodes(b, verify_minimal_data=_flag(a[4])):
                        items.append("%d:%s:%d:%d" % (opcode, _show_data(data), pc, new_pc))
                except Exception as e:  # noqa: BLE001
                    err = " err " + type(e).__name__
                return "ok " + show_list(items) + err
            if kk == "disasm":
                return "ok " + hx(ST.disassemble(b).encode("utf8"))
        except Exception as e:  # noqa: BLE001
            return "err " + type(e).__name__
        return "bad-op"
    if k == "dialect_then":
        try:
            _foreign_dialect()
        except Exception as e:  # noqa: BLE001
            return "bad-op foreign dialect could not be built: " + type(e).__name__
        return impl(op.split(" ", 1)[1])
    try:
        if k == "numenc":
            return "ok " + hx(IntStreamer.int_to_script_bytes(int(a[1])))
        if k == "numdec":
            return "ok %d" % IntStreamer.int_from_script_bytes(unhx(a[2]), require_minimal=_flag(a[1]))
        if k == "push":
            lst = [] if a[1] == "~" else [_optbytes(x) for x in a[1].split(",")]
            return "ok " + hx(ST.compile_push_data_list(lst))
        if k == "getop":
            opcode, data, pc, is_ok = STREAMER.get_opcode(unhx(a[1]), int(a[2]), verify_minimal_data=_flag(a[3]))
            return "ok %d %s %d %d" % (opcode, _show_data(data), pc, 1 if is_ok else 0)
        if k == "ops":
            items = []
            err = ""
            try:
                for opcode, data, pc, new_pc in ST.get_opcodes(unhx(a[1]), verify_minimal_data=_flag(a[2])):
                    items.append("%d:%s:%d:%d" % (opcode, _show_data(data), pc, new_pc))
            except Exception as e:  # noqa: BLE001
                err = " err " + type(e).__name__
            return "ok " + show_list(items) + err
        if k == "disasm":
            return "ok " + hx(ST.disassemble(unhx(a[1])).encode("utf8"))
        if k == "compile":
            return "ok " + hx(ST.compile(unhx(a[1]).decode("utf8")))
    except Exception as e:  # noqa: BLE001
        return "err " + type(e).__name__
    return "bad-op"


# ------------------------------------------------------------------ independent references (from Bitcoin Core)

def ref_serialize(v: int) -> bytes:
    """CScriptNum::serialize"""
    if v == 0:
        return b""
    neg = v < 0
    a = abs(v)
    out = bytearray()
    while a:
        out.append(a & 0xFF)
        a >>= 8
    if out[-1] & 0x80:
        out.append(0x80 if neg else 0)
    elif neg:
        out[-1] |= 0x80
    return bytes(out)


def ref_minimal(b: bytes) -> bool:
    """the fRequireMinimal test of CScriptNum's constructor"""
    if len(b) > 0 and (b[-1] & 0x7F) == 0:
        if len(b) <= 1 or (b[-2] & 0x80) == 0:
            return False
    return True


def ref_decode(b: bytes) -> int:
    """CScriptNum::set_vch"""
    if not b:
        return 0
    r = 0
    for i, x in enumerate(b):
        r |= x << (8 * i)
    if b[-1] & 0x80:
        return -(r & ~(0x80 << (8 * (len(b) - 1))))
    return r


def ref_getop(s: bytes, pc: int):
    """GetScriptOp: (opcode, payload, new pc) or None when bytes are missing"""
    opcode = s[pc]
    pc += 1
    if opcode > 0x4E:
        return opcode, b"", pc
    if opcode < 0x4C:
        n = opcode
    else:
        w = {0x4C: 1, 0x4D: 2, 0x4E: 4}[opcode]
        if len(s) - pc < w:
            return None
        n = int.from_bytes(s[pc:pc + w], "little")
        pc += w
    if len(s) - pc < n:
        return None
    return opcode, s[pc:pc + n], pc + n


def ref_check_minimal_push(data: bytes, opcode: int) -> bool:
    """CheckMinimalPush, opcode <= OP_PUSHDATA4"""
    if len(data) == 0:
        return opcode == 0
    if len(data) == 1 and 1 <= data[0] <= 16:
        return False
    if len(data) == 1 and data[0] == 0x81:
        return False
    if len(data) <= 75:
        return opcode == len(data)
    if len(data) <= 255:
        return opcode == 0x4C
    if len(data) <= 65535:
        return opcode == 0x4D
    return True


def ref_push_value(opcode: int, payload: bytes):
    if opcode <= 0x4E:
        return payload
    if opcode == 0x4F:
        return b"\x81"
    if 0x51 <= opcode <= 0x60:
        return bytes([opcode - 0x50])
    return None


# Core's opcode names (script.h / GetOpName, with the BIP65/BIP112 names at 0xb1/0xb2) for the non-push range
CORE_NAMES = dict(enumerate("""NOP VER IF NOTIF VERIF VERNOTIF ELSE ENDIF VERIFY RETURN TOALTSTACK FROMALTSTACK 2DROP 2DUP 3DUP 2OVER 2ROT 2SWAP
IFDUP DEPTH DROP DUP NIP OVER PICK ROLL ROT SWAP TUCK CAT SUBSTR LEFT RIGHT SIZE INVERT AND OR XOR EQUAL EQUALVERIFY RESERVED1 RESERVED2 1ADD 1SUB 2MUL
2DIV NEGATE ABS NOT 0NOTEQUAL ADD SUB MUL DIV MOD LSHIFT RSHIFT BOOLAND BOOLOR NUMEQUAL NUMEQUALVERIFY NUMNOTEQUAL LESSTHAN GREATERTHAN LESSTHANOREQUAL
GREATERTHANOREQUAL MIN MAX WITHIN RIPEMD160 SHA1 SHA256 HASH160 HASH256 CODESEPARATOR CHECKSIG CHECKSIGVERIFY CHECKMULTISIG CHECKMULTISIGVERIFY NOP1
CHECKLOCKTIMEVERIFY CHECKSEQUENCEVERIFY NOP4 NOP5 NOP6 NOP7 NOP8 NOP9 NOP10""".split(), start=0x61))
CORE_NAMES.update({0x00: "0", 0x4C: "PUSHDATA1", 0x4D: "PUSHDATA2", 0x4E: "PUSHDATA4", 0x4F: "1NEGATE", 0x50: "RESERVED", 0xFF: "INVALIDOPCODE"})
CORE_NAMES.update({0x50 + i: str(i) for i in range(1, 17)})
CORE_NAMES = {k: "OP_" + v for k, v in CORE_NAMES.items()}
CORE_ALIASES = {"OP_NOP2": 0xB1, "OP_NOP3": 0xB2}
CORE_BYTES = dict({v: k for k, v in CORE_NAMES.items()}, **CORE_ALIASES)
KNOWN_PLAIN = frozenset([0x50, 0xFF]) | frozenset(range(0x61, 0xBA))  # non-push opcodes that have a name


def ref_clean(s: bytes) -> bool:
    """script made of known opcodes and minimal pushes only (the quantifier of the compile/disassemble clause)"""
    pc = 0
    while pc < len(s):
        r = ref_getop(s, pc)
        if r is None:
            return False
        opcode, payload, pc = r
        if opcode <= 0x4E:
            if not ref_check_minimal_push(payload, opcode):
                return False
        elif opcode == 0x4F or 0x51 <= opcode <= 0x60:
            pass
        elif opcode not in KNOWN_PLAIN:
            return False
    return True


def ref_disasm(s: bytes) -> str:
    """text of a clean script written with consensus names (independent of the implementation)"""
    toks = []
    pc = 0
    while pc < len(s):
        ro, payload, pc = ref_getop(s, pc)
        toks.append("[%s]" % payload.hex() if ro <= 0x4E and payload else CORE_NAMES[ro])
    return " ".join(toks)


# ------------------------------------------------------------------ oracle: the property on the implementation alone

def _parse_item(x):
    o, d, pc, npc = x.split(":")
    return int(o), _optbytes(d), int(pc), int(npc)


def _check_instr(s, pc, minimal, opcode, data, new_pc, is_ok):
    """clauses about one decoded instruction (is_ok None when not observable)"""
    r = ref_getop(s, pc)
    if opcode != s[pc]:
        return "decoder reports opcode %d for byte %d" % (opcode, s[pc])
    if r is None:
        if is_ok is True or data is not None:
            return "truncated push at pc=%d not reported as malformed" % pc
        return None
    ro, payload, rpc = r
    val = ref_push_value(ro, payload)
    if val is not None:
        if data is None or is_ok is False:
            return "complete push at pc=%d reported as malformed" % pc
        if bytes(data) != val:
            return "push at pc=%d read back as different data" % pc
        if new_pc != rpc:
            return "push at pc=%d: next pc %d, expected %d" % (pc, new_pc, rpc)
    return None


def _minimal_instr(s, pc):
    r = ref_getop(s, pc)
    if r is None:
        return True  # truncated: must be reported malformed, never rejected as non-minimal
    ro, payload, _ = r
    return ro > 0x4E or ref_check_minimal_push(payload, ro)


def oracle(op: str, out: str):
    a = op.split(" ")
    k = a[0]
    if k == "dialect_then":
        return oracle(op.split(" ", 1)[1], out)
    if k == "asview":
        return oracle(op.split(" ", 2)[2], out)
    if k == "numenc":
        v = int(a[1])
        if not out.startswith("ok "):
            return "int_to_script_bytes raised"
        b = unhx(out[3:])
        if b != ref_serialize(v):
            return "encoding is not the minimal sign-magnitude form"
        if not ref_minimal(b):
            return "encoding has a redundant top byte"
        for m in "01":
            if impl("numdec %s %s" % (m, hx(b))) != "ok %d" % v:
                return "decode(encode(v)) != v with require_minimal=%s" % m
        return None
    if k == "numdec":
        b = unhx(a[2])
        if a[1] == "0":
            if out != "ok %d" % ref_decode(b):
                return "decoded value differs from sign-magnitude little-endian value"
            return None
        canonical = impl("numenc %d" % ref_decode(b)) == "ok " + hx(b)
        if out.startswith("ok "):
            if out != "ok %d" % ref_decode(b):
                return "decoded value differs from sign-magnitude little-endian value"
            if not canonical:
                return "require_minimal accepted a non-canonical encoding"
        elif canonical:
            return "require_minimal rejected the canonical encoding"
        elif out != "err ScriptError":
            return "unexpected exception"
        return None
    if k == "push":
        lst = [] if a[1] == "~" else [_optbytes(x) for x in a[1].split(",")]
        want = [d for d in lst if d is not None]
        if any(len(d) >= 1 << 32 for d in want):
            return None
        if not out.startswith("ok "):
            return "compile_push_data raised"
        s = unhx(out[3:])
        pc = 0
        got = []
        while pc < len(s):
            r = ref_getop(s, pc)
            if r is None:
                return "emitted push is truncated"
            ro, payload, pc = r
            val = ref_push_value(ro, payload)
            if val is None:
                return "emitted opcode %d is not a push" % ro
            if ro <= 0x4E and not ref_check_minimal_push(payload, ro):
                return "emitted push of %d bytes with opcode %d violates CheckMinimalPush" % (len(payload), ro)
            got.append(val)
        if got != want:
            return "emitted pushes carry different data"
        back = impl("ops %s 1" % hx(s))
        if " err " in back or not back.startswith("ok "):
            return "own push rejected by the decoder under minimal-data verification (%s)" % back.split(" ")[-1]
        items = [] if back == "ok ~" else [_parse_item(x) for x in back[3:].split(",")]
        if [bytes(i[1]) if i[1] is not None else None for i in items] != want:
            return "decoder reads back different data"
        return None
    if k == "getop":
        s, pc, minimal = unhx(a[1]), int(a[2]), _flag(a[3])
        if pc >= len(s):
            return None
        if out.startswith("err "):
            if out == "err ScriptError" and minimal and not _minimal_instr(s, pc):
                return None
            return "decoder raised %s on a %s instruction" % (out[4:], "minimal" if minimal else "non-verified")
        _, o, d, npc, ok = out.split(" ")
        return _check_instr(s, pc, minimal, int(o), _optbytes(d), int(npc), ok == "1")
    if k == "ops":
        s, minimal = unhx(a[1]), _flag(a[2])
        body, _, err = out[3:].partition(" err ")
        items = [] if body == "~" else [_parse_item(x) for x in body.split(",")]
        pc = 0
        for o, d, ipc, npc in items:
            if ipc != pc:
                return "iteration resumed at pc=%d instead of %d" % (ipc, pc)
            why = _check_instr(s, ipc, minimal, o, d, npc, None)
            if why:
                return why
            if npc <= ipc:
                return "pc did not advance"
            pc = npc
        if err:
            if not (err == "ScriptError" and minimal and pc < len(s) and not _minimal_instr(s, pc)):
                return "decoder raised %s at pc=%d" % (err, pc)
        elif pc < len(s):
            return "iteration stopped early at pc=%d" % pc
        return None
    if k == "disasm":
        s = unhx(a[1])
        if not out.startswith("ok "):
            return "disassemble raised"
        text = unhx(out[3:]).decode("utf8")
        if ref_clean(s):
            back = impl("compile " + hx(text.encode("utf8")))
            if back != "ok " + hx(s):
                return "compile(disassemble(s)) != s"
            toks = text.split()
            # every printed opcode name is the consensus name of the byte it stands for
            pc = 0
            for t in toks:
                ro, payload, pc = ref_getop(s, pc)
                if not t.startswith("[") and CORE_NAMES.get(ro) != t:
                    return "byte %d disassembled as %s" % (ro, t)
        return None
    if k == "compile":
        text = unhx(a[1]).decode("utf8")
        toks = text.split()
        if out.startswith("ok "):
            s = unhx(out[3:])
            if all(t in CORE_BYTES for t in toks) and s != bytes(CORE_BYTES[t] for t in toks):
                return "opcode names compiled to different bytes than their consensus values"
            if ref_clean(s):
                d = impl("disasm " + hx(s))
                back = impl("compile " + d[3:])
                if back != "ok " + hx(s):
                    return "compile(disassemble(compile(text))) != compile(text)"
        elif toks and all(t in CORE_BYTES for t in toks):
            return "consensus opcode name refused by compile"
        return None
    return None


def trivial(op: str) -> bool:
    a = op.split(" ")
    if a[0] == "dialect_then":
        a = a[1:]
    if a[0] == "asview":
        a = a[2:]
    return (a[0] in ("push", "compile", "disasm") and a[1] in ("~", "-")) or (a[0] in ("getop", "ops") and a[1] == "-")


def neighbours(op, rng):
    a = op.split(" ")
    k = a[0]
    if k == "dialect_then":
        for o in neighbours(op.split(" ", 1)[1], rng):
            yield "dialect_then " + o
        return
    if k == "asview":
        return
    if k == "numenc":
        v = int(a[1])
        for d in (-2, -1, 0, 1, 2):
            yield "numenc %d" % (v + d)
            yield "numenc %d" % -(v + d)
    elif k == "numdec":
        b = unhx(a[2])
        for m in "01":
            yield "numdec %s %s" % (m, hx(b))
            yield "numdec %s %s" % (m, hx(b + b"\x00"))
            yield "numdec %s %s" % (m, hx(b + b"\x80"))
            if b:
                yield "numdec %s %s" % (m, hx(b[:-1]))
    elif k == "push":
        for x in (a[1].split(",") if a[1] != "~" else []):
            d = _optbytes(x)
            if d is None:
                continue
            for n in (len(d) - 1, len(d), len(d) + 1):
                if n >= 0:
                    yield "push " + hx((d + b"\x00")[:n] if n <= len(d) else d + b"\x00")
    elif k in ("getop", "ops"):
        s = unhx(a[1])
        for cut in range(max(0, len(s) - 6), len(s) + 1):
            yield "ops %s 1" % hx(s[:cut])
            yield "ops %s 0" % hx(s[:cut])
        pc = 0
        while pc < len(s):  # the pushes of the script, recompiled
            r = ref_getop(s, pc)
            if r is None:
                break
            if r[0] <= 0x4E:
                yield "push " + hx(r[1])
            pc = r[2]
    elif k == "disasm":
        s = unhx(a[1])
        for b in set(s):
            yield "disasm %02x" % b
    elif k == "compile":
        for t in unhx(a[1]).decode("utf8").split():
            yield "compile " + hx(t.encode("utf8"))
            yield "compile " + hx(t.upper().encode("utf8"))


# ------------------------------------------------------------------ generators

def push_form(d: bytes, form: str) -> bytes:
    """a push of d in the given (possibly non-minimal) form"""
    n = len(d)
    if form == "direct":
        return bytes([n]) + d
    if form == "p1":
        return b"\x4c" + bytes([n]) + d
    if form == "p2":
        return b"\x4d" + n.to_bytes(2, "little") + d
    return b"\x4e" + n.to_bytes(4, "little") + d


def minimal_push(d: bytes) -> bytes:
    n = len(d)
    if n == 0:
        return b"\x00"
    if n == 1 and 1 <= d[0] <= 16:
        return bytes([0x50 + d[0]])
    if d == b"\x81":
        return b"\x4f"
    return push_form(d, "direct" if n <= 75 else "p1" if n <= 255 else "p2" if n <= 65535 else "p4")


INT_BOUNDS = sorted({s * (b + d) for e in list(range(0, 73)) for b in (1 << e,) for d in (-2, -1, 0, 1, 2) for s in (1, -1)}
                    | {s * (x + d) for x in (127, 128, 255, 256, 32767, 32768, 65535, 65536, 8388607, 8388608, 16777215, 16777216,
                                             2147483647, 2147483648, 4294967295, 4294967296, (1 << 63) - 1, 1 << 63, (1 << 64) - 1, 1 << 64,
                                             (1 << 71) - 1, 1 << 71) for d in (-1, 0, 1) for s in (1, -1)})
LEN_BOUNDS = [0, 1, 2, 16, 17, 74, 75, 76, 77, 254, 255, 256, 257, 258, 65534, 65535, 65536, 65537, 70000]


def gen(ctx, emit):
    rng = ctx.rng

    def rb(n):
        return rng.randbytes(n)

    tx = lambda s: hx(s.encode("utf8"))  # noqa: E731

    # ---- script numbers
    for v in INT_BOUNDS:
        emit("numenc %d" % v)
    if ctx.thorough:
        for v in range(-(1 << 17), (1 << 17) + 1):
            emit("numenc %d" % v)
    else:
        for v in range(-1100, 1101):
            emit("numenc %d" % v)
        for c in (32768, 65536, 1 << 17):
            for d in range(-40, 41):
                emit("numenc %d" % (c + d))
                emit("numenc %d" % -(c + d))
    for _ in range(ctx.n(6000, 150000)):
        e = rng.randint(1, 72)
        v = rng.randrange(1 << (e - 1), 1 << e)
        emit("numenc %d" % (v if rng.random() < 0.5 else -v))
    # candidate encodings: every byte string of length <= 2, both modes
    emit("numdec 0 -")
    emit("numdec 1 -")
    for m in "01":
        for x in range(256):
            emit("numdec %s %02x" % (m, x))
    two = range(65536) if ctx.thorough else [x for x in range(65536) if (x & 0xFF) in (0, 1, 0x7F, 0x80, 0x81, 0xFF) or (x >> 8) in (0, 1, 0x7F, 0x80, 0x81, 0xFF) or rng.random() < 0.08]
    for x in two:
        for m in "01":
            emit("numdec %s %04x" % (m, x))
    for v in INT_BOUNDS:  # canonical forms and their padded / re-signed variants
        b = ref_serialize(v)
        for cand in (b, b + b"\x00", b + b"\x80", b + b"\x00\x00", b + b"\x00\x80", (b[:-1] + bytes([b[-1] ^ 0x80])) if b else b"\x80"):
            for m in "01":
                emit("numdec %s %s" % (m, hx(cand)))
    for _ in range(ctx.n(6000, 150000)):
        n = rng.randint(1, 10)
        b = bytearray(rb(n))
        r = rng.random()
        if r < 0.3:
            b[-1] = rng.choice([0, 0x80])
        elif r < 0.5 and n > 1:
            b[-1] = rng.choice([0, 0x80])
            b[-2] = rng.choice([0, 0x7F, 0x80, 0xFF])
        for m in "01":
            emit("numdec %s %s" % (m, hx(bytes(b))))

    # ---- pushes
    emit("push ~")
    emit("push none")
    for x in range(256):  # every single byte as data (OP_1..16 / OP_1NEGATE cases)
        emit("push %02x" % x)
    for n in LEN_BOUNDS:
        emit("push " + hx(rb(n)))
        emit("push " + hx(b"\x00" * n))
    for n in range(0, 80):
        emit("push " + hx(rb(n)))
    for _ in range(ctx.n(400, 6000)):
        n = rng.choice([rng.randint(0, 80), rng.randint(70, 300), rng.randint(250, 600), rng.choice([255, 256, 257]),
                        rng.randint(65530, 65540) if rng.random() < 0.2 else rng.randint(0, 100), rng.randint(0, 70000) if rng.random() < 0.1 else 5])
        emit("push " + hx(rb(n)))
    for _ in range(ctx.n(150, 5000)):
        items = []
        for _i in range(rng.randint(0, 6)):
            r = rng.random()
            items.append("none" if r < 0.15 else hx(bytes([rng.randrange(256)])) if r < 0.4 else hx(rb(rng.choice([0, 1, 2, 20, 32, 33, 75, 76, 255, 256]))))
        emit("push " + show_list(items))

    # ---- decoder: every push form, every cut point (big forms: cuts near both ends), both modes, pc = 0
    forms = []
    for n in (0, 1, 2, 5, 75):
        forms.append(push_form(rb(n), "direct"))
    for n in (0, 1, 75, 76, 255):
        forms.append(push_form(rb(n), "p1"))
    for n in (0, 1, 75, 76, 255, 256, 257, 300):
        forms.append(push_form(rb(n), "p2"))
    for n in (0, 1, 75, 76, 255, 256, 257):
        forms.append(push_form(rb(n), "p4"))
    for f in forms:
        for cut in range(len(f) + 1):
            if len(f) > 40 and 8 < cut < len(f) - 3 and cut % 37:
                continue
            for m in "01":
                emit("getop %s 0 %s" % (hx(f[:cut] if cut else b""), m))
                emit("ops %s %s" % (hx(f[:cut] if cut else b""), m))
    for n, form in ((65535, "p2"), (65535, "p4"), (65536, "p4"), (65537, "p4"), (70000, "p4")):
        f = push_form(rb(n), form)
        for cut in (len(f), len(f) - 1, len(f) // 2, 6, 5, 4, 3, 2, 1):
            for m in "01":
                emit("getop %s 0 %s" % (hx(f[:cut]), m))
    # declared length far beyond the remaining bytes
    for hdr in ("4cff", "4dffff", "4effffffff", "4e00000001", "4d0001", "4b", "4c", "4d", "4e", "4d00", "4e00", "4e0000", "4e000000"):
        for tail in (b"", b"\x00", rb(3)):
            for m in "01":
                emit("getop %s 0 %s" % (hx(unhx(hdr) + tail), m))
                emit("ops %s %s" % (hx(unhx(hdr) + tail), m))
    # every single opcode byte alone and followed by a few bytes, at pc 0 and pc 1, and pc past the end
    for x in range(256):
        for m in "01":
            emit("getop %02x 0 %s" % (x, m))
            emit("getop 61%02x%s 1 %s" % (x, rb(2).hex(), m))
        emit("ops %02x%s 1" % (x, rb(rng.randint(0, 3)).hex()))
    emit("getop - 0 0")
    emit("getop 51 1 0")
    emit("getop 51 7 1")

    # ---- scripts: instruction lists of known opcodes + minimal pushes (clean), with occasional damage
    plain = sorted(KNOWN_PLAIN)

    def clean_script(maxlen=12):
        out = b""
        for _i in range(rng.randint(0, maxlen)):
            r = rng.random()
            if r < 0.45:
                out += bytes([rng.choice(plain)])
            elif r < 0.6:
                out += minimal_push(bytes([rng.randrange(256)]))
            else:
                out += minimal_push(rb(rng.choice([0, 1, 2, 3, 20, 32, 33, 65, 72, 75, 76, 77, 100, 255, 256, 300])))
        return out

    emit("disasm -")
    for x in range(256):
        emit("disasm %02x" % x)
    emit("disasm " + hx(bytes(plain)))
    emit("disasm b1b2")
    for n in LEN_BOUNDS[:-5] + [65535, 65536]:
        emit("disasm " + hx(minimal_push(rb(n))))
    for x in range(256):
        emit("disasm " + hx(minimal_push(bytes([x]))))
        emit("disasm 01%02x" % x)
    for _ in range(ctx.n(4000, 60000)):
        s = clean_script()
        emit("disasm " + hx(s))
        m = rng.choice("01")
        emit("ops %s %s" % (hx(s), m))
        if s and rng.random() < 0.5:
            emit("getop %s %d %s" % (hx(s), rng.randrange(len(s) + 1), m))
        r = rng.random()
        if s and r < 0.35:  # damage: truncate, or insert a non-minimal push / unknown opcode
            cut = rng.randrange(len(s))
            emit("ops %s %s" % (hx(s[:cut]), m))
            emit("disasm " + hx(s[:cut]))
        elif r < 0.7:
            d = rb(rng.choice([0, 1, 1, 2, 75, 76, 255, 256]))
            if rng.random() < 0.4:
                d = bytes([rng.choice(list(range(0, 18)) + [0x80, 0x81, 0x82])])
            form = rng.choice(["direct", "p1", "p2", "p4"]) if len(d) <= 75 else rng.choice(["p1", "p2", "p4"]) if len(d) <= 255 else rng.choice(["p2", "p4"])
            s2 = s + push_form(d, form) + clean_script(3)
            emit("ops %s 1" % hx(s2))
            emit("ops %s 0" % hx(s2))
            emit("disasm " + hx(s2))
    for _ in range(ctx.n(3000, 40000)):  # random bytes over the whole alphabet incl. unknown opcodes 0xba..0xff
        s = bytes(rng.choice([rng.randrange(256), rng.randrange(0xBA, 0x100), rng.randrange(0x4C, 0x62), rng.randrange(0, 6)]) for _i in range(rng.randint(1, 24)))
        emit("ops %s %s" % (hx(s), rng.choice("01")))
        emit("disasm " + hx(s))
        emit("getop %s %d %s" % (hx(s), rng.randrange(len(s)), rng.choice("01")))

    # ---- compile: the text layer
    names = [k for k, _ in ST.opcode_to_int.items()]
    for nm in names:
        emit("compile " + tx(nm))
        emit("compile " + tx(nm[3:]))
    for nm in sorted(CORE_BYTES):
        emit("compile " + tx(nm))
    for nm in rng.sample(names, 12):
        emit("compile " + tx(nm.lower()))
        emit("compile " + tx(nm[3:].lower()))
        emit("compile " + tx(nm.capitalize()))
    lits = ["0", "-0", "+0", "1", "-1", "+1", "16", "17", "-16", "-17", "00", "01", "007", "10", "0a", "0A", "a", "abc", "ABCD", "127", "128", "-128", "255", "256",
            "32767", "32768", "-32768", "65535", "65536", "18446744073709551615", "-18446744073709551615", "+18446744073709551615", "18446744073709551616",
            "-18446744073709551616", "184467440737095516160", "1844674407370955161600", "1_0", "1__0", "_1", "1_", "-_1", "--1", "+-1", "-", "+", "1e5", "1.0", "0x", "0X", "0x00", "0xabc",
            "0xAB", "0Xab", "0xzz", "0x4c", "0x4cff", "[]", "[", "]", "][", "[00]", "[0]", "[zz]", "[AbCd]", "[01]", "[81]", "[11]", "''", "'", "'a'", "'ab", "a'", "'OP_DUP'",
            "'['", "[']", "???", "OP_", "OP_PUSH_1", "OP_PUSH_75", "OP_PUSH_76", "PUSH_5", "OP_OP_DUP", "OP_NOP2", "NOP3", "[" + "ab" * 76 + "]", "[" + "00" * 256 + "]",
            "'" + "x" * 80 + "'", "ff" * 75, "ff" * 76, "'é中'", "'\U0001f600'"]
    for l in lits:
        emit("compile " + tx(l))
    for sep in (" ", "  ", "\t", "\n", " \r\n ", "\x0b", "\x0c", "\x1c", "\x1f", "\x85", "\xa0", " ", "　"):
        emit("compile " + tx("OP_DUP" + sep + "OP_HASH160" + sep + "[" + "ab" * 20 + "]" + sep))
        emit("compile " + tx(sep + "1" + sep + "'a'"))
    emit("compile -")
    emit("compile " + tx("   "))

    def rand_token():
        r = rng.random()
        if r < 0.3:
            return rng.choice(names)
        if r < 0.36:
            return rng.choice(names)[3:]
        if r < 0.5:
            return "[" + rb(rng.choice([0, 1, 1, 2, 20, 33, 75, 76])).hex() + "]"
        if r < 0.6:
            return rb(rng.randint(1, 6)).hex()
        if r < 0.78:
            e = rng.randint(1, 66)
            return str(rng.choice([1, -1]) * rng.randrange(0, 1 << e))
        if r < 0.86:
            return "'" + "".join(rng.choice("abcXYZ019_[]-+") for _i in range(rng.randint(0, 5))) + "'"
        if r < 0.92:
            return "0x" + rb(rng.randint(0, 4)).hex()
        if r < 0.96:
            return rng.choice(lits)
        return "".join(rng.choice("0123456789abcdefABCDEFxX_-+[]'OP") for _i in range(rng.randint(1, 6)))

    for _ in range(ctx.n(5000, 80000)):
        toks = [rand_token() for _i in range(rng.randint(1, 5))]
        emit("compile " + tx(rng.choice([" ", " ", "\t", "\n", "  "]).join(toks)))
    for _ in range(ctx.n(1000, 20000)):  # disassembly text of clean scripts, recompiled
        emit("compile " + tx(ref_disasm(clean_script())))

    # ---- a second ScriptStreamer of another dialect is built and used in this process, then the Bitcoin streamer is asked
    # again (instances must not share encoder/decoder tables); last, so that everything above ran on the untouched state
    for n in (0, 1, 2, 40, 41, 75, 76, 77, 255, 256, 300, 65535, 65536):
        d = rb(n)
        emit("dialect_then push %s" % hx(d), "second-streamer")
    for blob in (b"\x00", b"\x01\x07", b"\x4c\x01\x07", b"\x4c\x4c" + b"\x09" * 76, b"\x4d\x00\x01" + b"\x09" * 256, b"\x29" + b"\x05" * 41,
                 b"\x4e\x00\x00\x01\x00" + b"\x09" * 65536, b"\x51", b"\x52\x60", b"\x4f", b"\x4c\x02\x01", b"\x4d\x05"):
        for m in (0, 1):
            emit("dialect_then getop %s 0 %d" % (hx(blob), m), "second-streamer")
            emit("dialect_then ops %s %d" % (hx(blob), m), "second-streamer")
        emit("dialect_then disasm %s" % hx(blob), "second-streamer")
    for _ in range(ctx.n(30, 600)):
        sc = clean_script()
        emit("dialect_then disasm %s" % hx(sc), "second-streamer")
        emit("dialect_then compile " + tx(ref_disasm(sc)), "second-streamer")

    # ---- the script as a bytearray / a memoryview (bytes-like arguments are scripts too)
    for kind in ("bytearray", "memoryview"):
        for blob in (b"\x00", b"\x01\x07", b"\x4c\x01\x07", b"\x4c\x4c" + b"\x09" * 76, b"\x4d\x00\x01" + b"\x09" * 256, b"\x51\x76\xa9\x14" + b"\x05" * 20 + b"\x88\xac",
                     b"\x29" + b"\x05" * 41, b"\x02\x01", b"\x4c"):
            emit("asview %s getop %s 0 0" % (kind, hx(blob)), "bytes-like-script")
            emit("asview %s ops %s 1" % (kind, hx(blob)), "bytes-like-script")
            emit("asview %s disasm %s" % (kind, hx(blob)), "bytes-like-script")
        for _ in range(ctx.n(20, 400)):
            emit("asview %s disasm %s" % (kind, hx(clean_script())), "bytes-like-script")
