"""C05 — signing standard inputs yields valid canonical signatures, changing nothing else
(Solver.sign / Solver.solve / signing_solver / Keychain / tx_utils.sign_tx on BTC, XTN, LTC, BCH, BTG and other networks)."""
from __future__ import annotations

import hashlib
import importlib
import itertools
import sys

from lib import show_list
import grsenv  # noqa: F401  first: Groestl stand-in hash before txlib imports pycoin.symbols.grs (WIF / addresses on grs then run)
import txlib
from props import c05_machinery
from txlib import hx, parse_bytes, parse_fields, show_fields, fields_of, dump_tx, parse_unspents_text, show_unspents

from pycoin.encoding.hash import hash160
from pycoin.encoding.sec import public_pair_to_sec
from pycoin.satoshi import der, flags as FL
from pycoin.solve.some_solvers import signing_solver
from pycoin.solve.constraints import Atom
from pycoin.solve.utils import build_p2sh_lookup
from pycoin.coins.bitcoin.Solver import generate_default_placeholder_signature
from pycoin.coins.bitcoin.VM import BitcoinVM
from pycoin.coins.SolutionChecker import ScriptError
from pycoin.ecdsa.secp256k1 import secp256k1_generator as G

MANIFEST = {
    "text": "Lean theorems over the model of the signer (signing_solver: reuse of existing signatures, max_sigs, reverse key order, low-S, DER + hash type, "
            "placeholder padding, ordering; the scriptSig/witness written for P2PK, P2PKH, bare/P2SH/P2WSH/P2SH-P2WSH multisig, P2WPKH, P2SH-P2WPKH; "
            "Solver.sign's frame: input subset, skipping valid inputs, fork-id forcing; Keychain lookups): emitted signatures are strict DER, low-S and carry "
            "the requested hash type; the consensus specification accepts the model's solutions under the full standard flag set with CheckSig = ECDSA-verify "
            "(C01) of the C04 digest — single-key templates and m-of-n multisig for every 1 <= m <= n <= 20 in all four wrappings (counts 17..20 as the "
            "one-byte pushes 01 11..01 14 pycoin emits and MINIMALDATA requires; redeem scripts pushed direct / PUSHDATA1 / PUSHDATA2; under P2SH the 520-byte "
            "limit admits exactly n <= 15 compressed or n <= 7 uncompressed keys); any sequence of signing passes on the model leaves min(m, distinct listed "
            "keys supplied) signatures and placeholders otherwise, is accepted exactly when m distinct listed keys were supplied, whatever the order of the "
            "passes, and a wrong secret leaves the input rejected; nothing but the script and witness of the chosen inputs changes. The symbolic "
            "machinery of the solver is inside the model as well (Model/Constraints.lean, Model/ConstraintSolver.lean: DynamicStack and its atoms x_i / w_i, "
            "the traceback hook with its stack_size rule and the five symbolic opcodes, the stages of check_solution under the hook, determine_constraints with "
            "the closing constraints of P2SH / P2WSH, the three registered solver patterns in registration order, the while-progress loop, atoms ordered by number, "
            "Solver.solve) and connected by theorems: for every standard template (multisig by induction on the key list, every 1 <= m <= n <= 20, the four "
            "wrappers) the constraint list is the stated one, the solver loop turns it into exactly the items of the result-level model, the machinery's "
            "scriptSig/witness for a fresh input is the one the consensus specification accepts, an exception Solver.sign swallows leaves the input untouched, "
            "and the two fuel bounds (fetch loop, solver loop) are never reached. Opcodes outside the mirrored set (any opcode on constants is run through C03's VM "
            "model; an opcode that would meet an atom otherwise) make the model answer `unsupported`; generated cases stay inside.",
    "note": "The signature hash is computed inside the model by C04's Model/Sighash.lean (the digests pycoin computes are sent along and cross-checked); DER and SEC "
            "encodings are C10's models. Supplied by the harness from pycoin: whether an input already validates under the default flags (C03). ECDSA "
            "unforgeability appears as explicit hypotheses of the _partial theorems: the placeholder signature verifies for no key; a signature made for one "
            "listed key (or with a wrong secret) does not verify for another listed key. Legacy end-to-end theorems carry the side condition that "
            "FindAndDelete of the pushed signatures leaves the script code unchanged (signatures do not occur inside the puzzle script).",
    "technique": "Lean 4 proof over an executable model + differential correspondence model vs implementation (exact bytes) + validation oracles on the implementation",
}
RULE = ("ops c05_sign_tx (one or several signing passes over a transaction mixing the standard templates), c05_sign_solver, c05_der, c05_lax, c05_sec, "
        "c05_keychain, c05_who_signed (public_pairs_signed on the transactions the signing ops leave), c05_constraints / c05_solve_machinery / c05_sign_machinery "
        "(the real determine_constraints, Solver.solve, tx.sign against the modelled machinery: constraint lists printed canonically with the digest of each "
        "sighash closure; every template, m-of-n for every pair up to 20, wrong/missing keys and scripts, non-standard puzzles, inputs carrying stale signatures); boundary corpus (every template x key form x hash type x coin, subsets incl. the empty one, m-of-n at the size limits) + seeded random; "
        "distinct = distinct op line; trivial = ops that sign nothing")
ASSUMPTIONS = ["the signature hash is C04's model (Model/Sighash.lean); the driver answers DigestMismatch when it differs from what pycoin computed",
               "whether an input is already valid under the default flags is taken from pycoin's validator (tied to consensus by C03)",
               "ECDSA sign/verify/RFC 6979 of the model are those of C01/C02 (secp256k1, SHA-256)",
               "ECDSA unforgeability: the placeholder signature, and a signature made with a different key, do not verify"]
TRUSTED = ["pycoin's own validator is used by the oracle to decide validity under the standard flags (checked against consensus by C03)"]

N_ORDER = G.order()
PLACEHOLDER = generate_default_placeholder_signature(None)

STD_FLAGS = (FL.VERIFY_P2SH | FL.VERIFY_STRICTENC | FL.VERIFY_DERSIG | FL.VERIFY_LOW_S | FL.VERIFY_NULLDUMMY | FL.VERIFY_SIGPUSHONLY
             | FL.VERIFY_MINIMALDATA | FL.VERIFY_DISCOURAGE_UPGRADABLE_NOPS | FL.VERIFY_CLEANSTACK | FL.VERIFY_CHECKLOCKTIMEVERIFY
             | FL.VERIFY_CHECKSEQUENCEVERIFY | FL.VERIFY_WITNESS | FL.VERIFY_DISCOURAGE_UPGRADABLE_WITNESS_PROGRAM | FL.VERIFY_MINIMALIF
             | FL.VERIFY_NULLFAIL | FL.VERIFY_WITNESS_PUBKEYTYPE)

_NETS: dict = {}


def NET(coin):
    if coin not in _NETS:
        _NETS[coin] = importlib.import_module("pycoin.symbols." + coin).network
    return _NETS[coin]


FORK_COINS = ("bch", "btg", "xch", "xtg")


def is_fork(coin):
    return coin in FORK_COINS


def std_flags(coin):
    return STD_FLAGS & ~FL.VERIFY_STRICTENC if is_fork(coin) else STD_FLAGS


def eff_ht(coin, ht):
    h = 1 if ht is None else ht
    return h | 0x40 if is_fork(coin) else h


# ---------------------------------------------------------------- text forms

def show_entry(e):
    h, d, x, y, c = e
    return "%s=%d.%d.%d.%s" % (hx(h), d, x, y, "c" if c else "u")


def parse_entry(s):
    h, v = s.split("=")
    d, x, y, c = v.split(".")
    return (parse_bytes(h), int(d), int(x), int(y), c == "c")


def parse_entries(s):
    return [] if s == "~" else [parse_entry(x) for x in s.split(",")]


def lookup_of(entries):
    return {h: (d, (x, y), c, G) for h, d, x, y, c in entries}


def parse_hexlist(s):
    return [] if s == "~" else [parse_bytes(x) for x in s.split(",")]


def parse_passes(s):
    """pass := idxs ":" valid [":" hash_type]   (a per-pass hash type overrides the op's)"""
    res = []
    for p in s.split("|"):
        idxs, valid = p.split(":")[:2]
        res.append(([] if idxs == "~" else [int(x) for x in idxs.split(",")], valid))
    return res


def parse_pass_hts(s):
    return [(int(p.split(":")[2]) if p.count(":") >= 2 else None) for p in s.split("|")]


def parse_subset(s):
    if s == "all":
        return None
    return [] if s == "~" else [int(x) for x in s.split(",")]


def build(coin, tx_s, us_s):
    tx = _build_tx(coin, parse_fields(tx_s))
    T = NET(coin).tx
    us = []
    for x in ([] if us_s == "~" else us_s.split("|")):
        if x == "none":
            us.append(None)
        else:
            v, sc = x.split(":")
            us.append(T.TxOut(int(v), parse_bytes(sc)))
    tx.unspents = us
    return tx


def _build_tx(coin, f):
    T = NET(coin).tx
    v, lock, ins, outs = f
    txs_in = []
    for h, i, s, q, wit in ins:
        t = T.TxIn(h, i, s, q)
        t.witness = list(wit)
        txs_in.append(t)
    return T(v, txs_in, [T.TxOut(val, s) for val, s in outs], lock)


# ---------------------------------------------------------------- independent template analysis (harness side)

def data_pushes(script):
    """(opcode, data) list of a script, written from the protocol documentation; None when cut short"""
    out = []
    pc = 0
    n = len(script)
    while pc < n:
        op = script[pc]
        pc += 1
        if op <= 0x4e:
            if op < 0x4c:
                ln = op
            else:
                w = {0x4c: 1, 0x4d: 2, 0x4e: 4}[op]
                if pc + w > n:
                    return None
                ln = int.from_bytes(script[pc:pc + w], "little")
                pc += w
            if pc + ln > n:
                return None
            out.append((op, script[pc:pc + ln]))
            pc += ln
        elif 0x51 <= op <= 0x60:
            out.append((op, bytes([op - 0x50])))
        else:
            out.append((op, None))
    return out


def analyse_base(script):
    """('p2pkh', h) | ('p2pk', sec) | ('multisig', m, keys) | None"""
    if len(script) == 25 and script[:3] == b"\x76\xa9\x14" and script[23:] == b"\x88\xac":
        return ("p2pkh", script[3:23])
    ops = data_pushes(script)
    if not ops:
        return None
    if len(ops) == 2 and ops[1][0] == 0xac and ops[0][0] <= 0x4b and ops[0][1] is not None and len(ops[0][1]) in (33, 65):
        return ("p2pk", ops[0][1])
    if len(ops) >= 4 and ops[-1][0] == 0xae:
        first, last = ops[0], ops[-2]
        keys = ops[1:-2]
        if first[1] is None or last[1] is None or len(first[1]) != 1 or len(last[1]) != 1:
            return None
        m, n = first[1][0], last[1][0]
        if all(o <= 0x4b and d is not None and len(d) in (33, 65) for o, d in keys) and len(keys) == n and 1 <= m <= n <= 20:
            return ("multisig", m, [d for _, d in keys])
    return None


def is_witness_v0(script):
    return 4 <= len(script) <= 42 and script[0] == 0 and script[1] + 2 == len(script)


def analyse(puzzle, scripts):
    """-> dict(kind, base, code, witness: bool, redeem, wscript) or None; `code` = the script the digest commits to"""
    by160 = {hash160(s): s for s in scripts}
    by256 = {hashlib.sha256(s).digest(): s for s in scripts}
    redeem = None
    inner = puzzle
    if len(puzzle) == 23 and puzzle[:2] == b"\xa9\x14" and puzzle[22:] == b"\x87":
        redeem = by160.get(puzzle[2:22])
        if redeem is None:
            return None
        inner = redeem
    if is_witness_v0(inner):
        prog = inner[2:]
        if len(prog) == 20:
            return dict(base=("p2pkh", prog), code=b"\x76\xa9\x14" + prog + b"\x88\xac", witness=True, redeem=redeem, wscript=None)
        if len(prog) == 32:
            ws = by256.get(prog)
            if ws is None:
                return None
            b = analyse_base(ws)
            return b and dict(base=b, code=ws, witness=True, redeem=redeem, wscript=ws)
        return None
    b = analyse_base(inner)
    return b and dict(base=b, code=inner, witness=False, redeem=redeem, wscript=None)


def digest_for(tx, i, ht, info):
    sc = tx.SolutionChecker(tx)
    try:
        if info["witness"]:
            return sc._signature_for_hash_type_segwit(info["code"], i, ht)
        return sc._signature_hash(info["code"], i, ht)
    except ScriptError:
        return None


def digests_text(tx, scripts, hts):
    """digest table of every input for the hash types `hts` plus the last byte of every existing 0x30-blob"""
    out = []
    for i, tin in enumerate(tx.txs_in):
        u = tx.unspents[i] if i < len(tx.unspents) else None
        if u is None:
            continue
        info = analyse(u.script, scripts)
        if not info:
            continue
        want = set(hts)
        blobs = list(tin.witness) + [d for _, d in (data_pushes(tin.script) or []) if d]
        for b in blobs:
            if b[:1] == b"\x30":
                want.add(b[-1])
        for ht in sorted(want):
            z = digest_for(tx, i, ht, info)
            if z is not None:
                out.append("%d.%d=%d" % (i, ht, z))
    return ",".join(out) or "~"


# ---------------------------------------------------------------- implementation

class SignOp:
    def __init__(self, op):
        a = op.split(" ")
        (_, self.coin, self.mech, self.tx_s, self.us_s, self.p2sh_s, ht, subset, self.keys_s, self.passes_s, self.dig_s) = a
        self.ht = None if ht == "none" else int(ht)
        self.subset = parse_subset(subset)
        self.entries = parse_entries(self.keys_s)
        self.passes = parse_passes(self.passes_s)
        self.pass_ht = parse_pass_hts(self.passes_s)
        self.scripts = parse_hexlist(self.p2sh_s)
        self.net = NET(self.coin)


def _kc_parts(mech):
    """kc.<seedhex>:<pathhex>;…  -> [(seed, path)] one per pair of entries"""
    return [(parse_bytes(x.split(":")[0]), parse_bytes(x.split(":")[1]).decode()) for x in mech[3:].split(";")]


def run_passes(o: SignOp, observe=None):
    """perform the signing passes on a fresh transaction through the mechanism named by the op; `observe(k, tx_before_fields, tx)` after each"""
    tx = build(o.coin, o.tx_s, o.us_s)
    net = o.net
    kw = {}
    if o.ht is not None:
        kw["hash_type"] = o.ht
    if o.subset is not None:
        kw["tx_in_idx_set"] = list(o.subset)
    keychain = None
    added = set()
    if o.mech.startswith("kc."):
        parts = _kc_parts(o.mech)
        nodes = [net.keys.bip32_seed(seed) for seed, _ in parts]
        keychain = net.keychain()
        for node, (_, path) in zip(nodes, parts):
            keychain.add_key_paths(node, [path])
        keychain.add_p2s_scripts(o.scripts)
    for k, (idxs, _valid) in enumerate(o.passes):
        before = fields_of(tx)
        if o.pass_ht[k] is not None:
            kw["hash_type"] = o.pass_ht[k]
        elif o.ht is not None:
            kw["hash_type"] = o.ht
        else:
            kw.pop("hash_type", None)
        if o.mech == "dict":
            lookup = lookup_of([o.entries[i] for i in idxs])
            tx.sign(lookup, p2sh_lookup=build_p2sh_lookup(o.scripts), **kw)
        elif o.mech == "wif":
            secrets = []
            for i in idxs:
                if o.entries[i][1] not in secrets:
                    secrets.append(o.entries[i][1])
            wifs = [net.keys.private(d).wif() for d in secrets]
            net.tx_utils.sign_tx(tx, wifs, p2sh_lookup=build_p2sh_lookup(o.scripts), **kw)
        else:
            for i in idxs:
                j = i // 2
                if j not in added:
                    added.add(j)
                    keychain.add_secret(nodes[j])
            tx.sign(keychain, p2sh_lookup=keychain, **kw)
        if observe:
            observe(k, before, tx)
    return tx


def _atoms(n):
    return [Atom("x_%d" % i) for i in range(n)]


def impl(op: str) -> str:
    a = op.split(" ")
    k = a[0]
    if k in c05_machinery.OPS:
        return c05_machinery.impl(op, sys.modules[__name__])
    try:
        if k == "c05_der":
            return "ok " + hx(der.sigencode_der(int(a[1]), int(a[2])))
        if k == "c05_lax":
            try:
                r, s = der.sigdecode_der_lax(parse_bytes(a[1]))
            except der.UnexpectedDER:
                return "err UnexpectedDER"
            return "ok %d %d" % (r, s)
        if k == "c05_sec":
            return "ok " + hx(public_pair_to_sec((int(a[1]), int(a[2])), compressed=a[3] == "c"))
        if k == "c05_sign_solver":
            keys = parse_hexlist(a[1])
            nsigs = int(a[2])
            existing = parse_hexlist(a[3])
            lookup = lookup_of(parse_entries(a[4]))
            ht = int(a[5])
            dig = {} if a[7] == "~" else {int(x.split("=")[0]): int(x.split("=")[1]) for x in a[7].split(",")}

            def f(t):
                if t not in dig:
                    raise ScriptError("no digest")
                return dig[t]
            atoms = _atoms(nsigs)
            fn, _targets, _deps = signing_solver({"sec_list": keys, "sig_list": atoms, "signature_for_hash_type_f": f})
            kw = dict(hash160_lookup=lookup, signature_type=ht, generator_for_signature_type_f=BitcoinVM.generator_for_signature_type,
                      existing_script=existing)
            kw["signature_placeholder"] = None if a[6] == "none" else parse_bytes(a[6])
            res = fn({}, **kw)
            return "ok " + show_list([res.get(x) for x in atoms], lambda b: "none" if b is None else hx(b))
        if k == "c05_sign_tx":
            tx = run_passes(SignOp(op))
            return "ok " + dump_tx(tx)
        if k == "c05_keychain":
            return _keychain(a[1])
        if k == "c05_who_signed":
            tx = build(a[1], a[2], a[3])
            ws = NET(a[1]).who_signed
            out = []
            for i in range(len(tx.txs_in)):
                r = ws.public_pairs_signed(tx, i)
                out.append(";".join("%d.%d.%d" % (pp[0], pp[1], t) for pp, _sig, t in r) or "~")
            return "ok " + ("|".join(out) or "-")
        if k == "c05_fastcheck":
            # the driver evaluates the model with a fast secp256k1 instance; this op ties that instance and the C01 model instance to pycoin
            d, z = int(a[1]), int(a[2])
            try:
                r, s = G.sign(d, z)
            except ValueError:
                return "ok ValueError ValueError - -"
            v = G.verify(d * G, z, (r, s + 1 if a[3] == "1" else s))
            return "ok %d.%d %d.%d %d %d" % (r, s, r, s, v, v)
    except Exception as e:  # noqa: BLE001
        return "err " + type(e).__name__
    return "bad-op"


def _keychain(script):
    net = NET("btc")
    kc = net.keychain()
    out = []
    nodes = {}

    def node(seedhex):
        if seedhex not in nodes:
            nodes[seedhex] = net.keys.bip32_seed(parse_bytes(seedhex))
        return nodes[seedhex]
    for act in script.split(","):
        p = act.split(":")
        if p[0] == "path":
            kc.add_key_paths(node(p[4]), [parse_bytes(p[2]).decode()])
        elif p[0] == "secret":
            kc.add_secret(node(p[5]))
        elif p[0] == "p2s":
            kc.add_p2s_script(parse_bytes(p[1]))
        elif p[0] == "get":
            r = kc.get(parse_bytes(p[1]))
            if r is None:
                out.append("none")
            elif isinstance(r, bytes):
                out.append("script:" + hx(r))
            else:
                out.append("%d.%d.%d.%s" % (r[0], r[1][0], r[1][1], "c" if r[2] else "u"))
    return "ok " + show_list(out)


# ---------------------------------------------------------------- oracles

def strict_der_problem(sig: bytes):
    """BIP66 IsValidSignatureEncoding + low S, written from the BIP; None when fine"""
    n = len(sig)
    if n < 9 or n > 73:
        return "length"
    if sig[0] != 0x30 or sig[1] != n - 3:
        return "sequence header"
    lr = sig[3]
    if 5 + lr >= n:
        return "R length"
    ls = sig[5 + lr]
    if lr + ls + 7 != n:
        return "S length"
    if sig[2] != 2 or lr == 0 or sig[4] & 0x80 or (lr > 1 and sig[4] == 0 and not sig[5] & 0x80):
        return "R encoding"
    if sig[lr + 4] != 2 or ls == 0 or sig[lr + 6] & 0x80 or (ls > 1 and sig[lr + 6] == 0 and not sig[lr + 7] & 0x80):
        return "S encoding"
    r = int.from_bytes(sig[4:4 + lr], "big")
    s = int.from_bytes(sig[lr + 6:lr + 6 + ls], "big")
    if not (1 <= r < N_ORDER and 1 <= s < N_ORDER):
        return "r/s out of range"
    if 2 * s > N_ORDER:
        return "high S"
    return None


def sig_items(tin_fields, info):
    """the items of an input that sit where the template has signatures"""
    _h, _i, script, _q, wit = tin_fields
    if info["witness"]:
        items = list(wit)
        if info["wscript"] is not None and items:
            items = items[:-1]
    else:
        ops = data_pushes(script)
        if ops is None:
            return []
        items = [d if d is not None else b"" for _, d in ops]
        if info["redeem"] is not None and items:
            items = items[:-1]
    b = info["base"]
    if b[0] == "p2pkh":
        return items[:1] if len(items) == 2 else []
    if b[0] == "p2pk":
        return items[:1]
    return items[1:]


def entry_good(e):
    """the entry is what build_hash160_lookup would hold: secret*G = (x, y) and the key hashes to h"""
    h, d, x, y, c = e
    try:
        if not (1 <= d < N_ORDER):
            return False
        P = d * G
        return (P[0], P[1]) == (x, y) and hash160(public_pair_to_sec((x, y), compressed=c)) == h
    except Exception:  # noqa: BLE001
        return False


def listed_keys(info):
    b = info["base"]
    if b[0] == "multisig":
        return b[1], list(b[2])
    return 1, [b[1]]      # p2pk: the sec; p2pkh: the hash


def oracle_sign_tx(op):
    o = SignOp(op)
    fork = is_fork(o.coin)
    want_hts = [eff_ht(o.coin, h if h is not None else o.ht) for h in o.pass_ht]
    if any(w > 255 for w in want_hts):
        return None
    good = [entry_good(e) for e in o.entries]
    tx0 = build(o.coin, o.tx_s, o.us_s)
    if tx0.missing_unspents():
        return None
    infos = [analyse(u.script, o.scripts) for u in tx0.unspents]
    n_in = len(tx0.txs_in)
    chosen = set(range(n_in)) if o.subset is None else set(o.subset)
    if any(i >= n_in for i in chosen):
        return None
    # keys that could have signed so far, per input (only from correct entries)
    signed = [set() for _ in range(n_in)]
    problems = []
    flags = std_flags(o.coin)
    prev_valid = [tx0.is_solution_ok(i) for i in range(n_in)]
    fresh_in = [not t.script and not t.witness for t in tx0.txs_in]
    pair_of = {}
    for e, g in zip(o.entries, good):
        if g:
            pair_of[e[0]] = (e[2], e[3])
    initial_items = [set(sig_items(t, infos[i])) if infos[i] else set() for i, t in enumerate(fields_of(tx0)[2])]

    def observe(k, before, tx):
        after = fields_of(tx)
        idxs = o.passes[k][0]
        if (before[0], before[1], before[3]) != (after[0], after[1], after[3]):
            problems.append("pass %d changed version, lock time or outputs" % k)
        if len(before[2]) != len(after[2]):
            problems.append("pass %d changed the number of inputs" % k)
            return
        avail = {o.entries[i][0] for i in idxs if good[i]}
        for i, (b, a) in enumerate(zip(before[2], after[2])):
            if b[:2] != a[:2] or b[3] != a[3]:
                problems.append("pass %d changed outpoint or sequence of input %d" % (k, i))
            if (i not in chosen or prev_valid[i]) and (b[2], b[4]) != (a[2], a[4]):
                problems.append("pass %d changed input %d, which %s" % (k, i, "was already valid" if prev_valid[i] else "it was not asked to sign"))
            info = infos[i]
            if info is None:
                continue
            m, keys = listed_keys(info)
            if i in chosen and not prev_valid[i]:
                # the signer walks the keys in script order and stops at m signatures
                for key in keys:
                    kh = key if info["base"][0] == "p2pkh" else hash160(key)
                    if kh in avail and key not in signed[i] and len(signed[i]) < m:
                        signed[i].add(key)
            ok_default = tx.is_solution_ok(i)
            ok_std = tx.is_solution_ok(i, flags=flags)
            expect = prev_valid[i] or len(signed[i]) >= m
            if expect and not prev_valid[i] and not ok_std:
                problems.append("pass %d: input %d has its %d key(s) but does not validate under the standard flags" % (k, i, m))
            if not expect and (ok_default or ok_std):
                problems.append("pass %d: input %d reported valid with %d of %d signatures" % (k, i, len(signed[i]), m))
            # who_signed: on an input that started unsigned, the signers reported are exactly the keys that signed
            if fresh_in[i]:
                try:
                    got = sorted((pp[0], pp[1]) for pp, _sg, _t in o.net.who_signed.public_pairs_signed(tx, i))
                    n_addr = len(o.net.who_signed.who_signed_tx(tx, i))
                except ImportError:
                    got, n_addr = None, None      # (not reached: Groestlcoin addresses run under the stand-in hash of harness/grsenv.py)
                except Exception as e:  # noqa: BLE001
                    problems.append("pass %d: who_signed raised %s on input %d" % (k, type(e).__name__, i))
                    got, n_addr = None, None
                if got is not None:
                    exp = sorted(pair_of[key if info["base"][0] == "p2pkh" else hash160(key)] for key in signed[i])
                    if got != exp or n_addr != len(exp):
                        problems.append("pass %d: who_signed reports %d signer(s) for input %d, %d of its keys have signed%s"
                                        % (k, len(got), i, len(exp), " (fork-id coin)" if fork else ""))
            # every signature present: canonical; new ones carry the requested hash type
            old = set(sig_items(b, info)) | initial_items[i]
            for s in sig_items(a, info):
                if s == PLACEHOLDER or s == b"":
                    continue
                if i in chosen and not prev_valid[i] and s not in old:
                    why = strict_der_problem(s[:-1] + b"\x01") if s else "empty"
                    if why:
                        problems.append("pass %d: input %d carries a signature that is not strict DER / low S (%s)" % (k, i, why))
                    # the signature commits to the digest a FRESH checker computes for its hash type (a checker that keeps state
                    # between digests signs, and later validates, something else: validation alone cannot see it)
                    try:
                        z_fresh = digest_for(tx, i, s[-1], info)
                        rs = der.sigdecode_der(s[:-1])
                        if z_fresh is not None and not any(G.verify(pp, z_fresh, rs) for pp in {(e[2], e[3]) for e in o.entries}):
                            problems.append("pass %d: the new signature of input %d (hash type 0x%02x) verifies for none of the supplied keys "
                                            "under the signature hash a fresh checker computes" % (k, i, s[-1]))
                    except Exception:  # noqa: BLE001  (not DER: reported above)
                        pass
                    if s[-1] != want_hts[k]:
                        problems.append("pass %d: input %d signed with hash type 0x%02x, 0x%02x requested%s"
                                        % (k, i, s[-1], want_hts[k], " (fork-id coin)" if fork else ""))
            prev_valid[i] = ok_default
    try:
        run_passes(o, observe)
    except Exception as e:  # noqa: BLE001
        return "signing raised " + type(e).__name__
    return problems[0] if problems else None


def oracle(op: str, out: str):
    a = op.split(" ")
    k = a[0]
    if k in c05_machinery.OPS:
        try:
            return c05_machinery.oracle(op, out, sys.modules[__name__])
        except Exception as e:  # noqa: BLE001
            return "oracle crashed: %r" % (e,)
    if k == "c05_sign_tx":
        try:
            return oracle_sign_tx(op)
        except Exception as e:  # noqa: BLE001
            return None if isinstance(e, (ValueError, IndexError)) and not out.startswith("ok") else "oracle crashed: %r" % (e,)
    if k == "c05_der" and out.startswith("ok"):
        r, s = int(a[1]), int(a[2])
        if 1 <= r < N_ORDER and 1 <= s < N_ORDER:
            blob = parse_bytes(out[3:])
            why = strict_der_problem(blob + b"\x01")
            if why and why != "high S":
                return "sigencode_der output is not strict DER: " + why
            if impl("c05_lax " + hx(blob)) != "ok %d %d" % (r, s):
                return "DER signature does not decode back"
    if k == "c05_sign_solver" and out.startswith("ok"):
        ht = int(a[5])
        ph = None if a[6] == "none" else parse_bytes(a[6])
        existing = set(parse_hexlist(a[3]))
        res = [] if out[3:] == "~" else out[3:].split(",")
        if ph is not None and len(res) != int(a[2]):
            return "wrong number of signatures"
        for x in res:
            if x == "none":
                continue
            b = parse_bytes(x)
            if b == ph or b in existing:
                continue
            why = strict_der_problem(b[:-1] + b"\x01")
            if why:
                return "signing_solver emitted a signature that is not strict DER / low S (%s)" % why
            if b[-1] != ht:
                return "signing_solver emitted hash type 0x%02x for 0x%02x" % (b[-1], ht)
    if k == "c05_keychain" and out.startswith("ok"):
        return oracle_keychain(a[1], out)
    return None


def oracle_keychain(script, out):
    """after add_secret(node) every registered path of that node answers with the derived key; before, with nothing"""
    net = NET("btc")
    res = [] if out[3:] == "~" else out[3:].split(",")
    paths = {}      # h160 -> (seedhex, path)
    secrets = set()
    p2s = []
    gi = 0
    for act in script.split(","):
        p = act.split(":")
        if p[0] == "path":
            node = net.keys.bip32_seed(parse_bytes(p[4])).subkey_for_path(parse_bytes(p[2]).decode())
            for c in (True, False):
                if c or True:
                    paths.setdefault(node.hash160(is_compressed=c), (p[4], parse_bytes(p[2]).decode(), c))
        elif p[0] == "secret":
            secrets.add(p[5])
        elif p[0] == "p2s":
            p2s.append(parse_bytes(p[1]))
        elif p[0] == "get":
            h = parse_bytes(p[1])
            got = res[gi]
            gi += 1
            if any(hash160(s) == h or hashlib.sha256(s).digest() == h for s in p2s):
                if not got.startswith("script:"):
                    return "keychain does not answer a registered script hash with the script"
                continue
            if h in paths and paths[h][0] in secrets:
                seedhex, path, c = paths[h]
                node = net.keys.bip32_seed(parse_bytes(seedhex)).subkey_for_path(path)
                # only the compressed hash is registered by add_key_paths; the uncompressed one is known once the key was cached
                want = "%d.%d.%d.%s" % (node.secret_exponent(), node.public_pair()[0], node.public_pair()[1], "c" if c else "u")
                if c and got != want:
                    return "keychain.get misses a key whose secret was added (path %s)" % path
            elif h in paths and got != "none" and paths[h][2]:
                return "keychain.get answers for a key whose secret was never added"
    return None


def trivial(op: str) -> bool:
    a = op.split(" ")
    if a[0] == "c05_sign_tx":
        return a[7] == "~" or all(p.split(":")[0] == "~" for p in a[9].split("|"))
    return False


def neighbours(op, rng):
    a = op.split(" ")
    if a[0] == "c05_sign_tx":
        yield op
        # the same transaction through the plain dict mechanism, and each pass on its own
        if a[2] != "dict":
            yield " ".join([a[0], a[1], "dict"] + a[3:])
    else:
        yield op


KNOWN: dict = {}


# ---------------------------------------------------------------- generators

class KeyPool:
    def __init__(self, rng):
        self.rng = rng
        self.cache = {}

    def key(self, d):
        if d not in self.cache:
            P = d * G
            self.cache[d] = (P[0], P[1])
        return self.cache[d]

    def sec(self, d, compressed=True):
        return public_pair_to_sec(self.key(d), compressed=compressed)

    def entries(self, d):
        x, y = self.key(d)
        return [(hash160(public_pair_to_sec((x, y), compressed=c)), d, x, y, c) for c in (True, False)]


COINS_MAIN = ["btc", "xtn", "ltc", "bch", "btg"]
COINS_OTHER = ["doge", "dash", "bc", "mona", "via", "xch", "xtg", "tbtx"]  # grs (own Tx class / digests) has its own block in gen(), dict and WIF mechanisms
HASH_TYPES = [1, 2, 3, 0x81, 0x82, 0x83]
KINDS = ["p2pkh", "p2pk", "p2wpkh", "p2sh-p2wpkh", "ms", "p2sh-ms", "p2wsh-ms", "p2sh-p2wsh-ms"]


def _push(d):
    n = len(d)
    if n < 0x4c:
        return bytes([n]) + d
    if n <= 0xff:
        return b"\x4c" + bytes([n]) + d
    return b"\x4d" + n.to_bytes(2, "little") + d


def _num(n):
    return bytes([0x50 + n]) if 1 <= n <= 16 else _push(bytes([n]))


def multisig_script(m, secs):
    return _num(m) + b"".join(_push(s) for s in secs) + _num(len(secs)) + b"\xae"


def make_input(kind, secs, m=1):
    """-> (puzzle, scripts needed in the p2sh lookup)"""
    if kind == "p2pkh":
        return b"\x76\xa9\x14" + hash160(secs[0]) + b"\x88\xac", []
    if kind == "p2pk":
        return _push(secs[0]) + b"\xac", []
    if kind == "p2wpkh":
        return b"\x00\x14" + hash160(secs[0]), []
    if kind == "p2sh-p2wpkh":
        r = b"\x00\x14" + hash160(secs[0])
        return b"\xa9\x14" + hash160(r) + b"\x87", [r]
    ms = multisig_script(m, secs)
    if kind == "ms":
        return ms, []
    if kind == "p2sh-ms":
        return b"\xa9\x14" + hash160(ms) + b"\x87", [ms]
    if kind == "p2wsh-ms":
        return b"\x00\x20" + hashlib.sha256(ms).digest(), [ms]
    if kind == "p2sh-p2wsh-ms":
        r = b"\x00\x20" + hashlib.sha256(ms).digest()
        return b"\xa9\x14" + hash160(r) + b"\x87", [ms, r]
    raise ValueError(kind)


class Scenario:
    """a transaction under construction: inputs with their templates and the secrets that control them"""

    def __init__(self, ctx, coin, pool):
        self.rng = ctx.rng
        self.coin = coin
        self.pool = pool
        self.ins = []       # (puzzle, value, secrets[list of d], m, kind, compressed)
        self.scripts = []
        self.version = self.rng.choice([1, 2])
        self.lock = self.rng.choice([0, 0, 500000, 1700000000])
        self.n_out = self.rng.randint(1, 3)

    def add(self, kind, secrets, m=1, compressed=True):
        secs = [self.pool.sec(d, compressed) for d in secrets]
        puzzle, scripts = make_input(kind, secs, m)
        for s in scripts:
            if s not in self.scripts:
                self.scripts.append(s)
        self.ins.append((puzzle, 10000 + 1000 * len(self.ins), list(secrets), m, kind, compressed))

    def fields(self):
        rng = self.rng
        ins = []
        for i, _ in enumerate(self.ins):
            ins.append((bytes(rng.randrange(256) for _ in range(32)), rng.randrange(0, 5), b"", rng.choice([0xFFFFFFFF, 0xFFFFFFFE, 0, 5]), []))
        outs = [(rng.randrange(546, 9000), b"\x76\xa9\x14" + bytes(rng.randrange(256) for _ in range(20)) + b"\x88\xac") for _ in range(self.n_out)]
        return (self.version, self.lock, ins, outs)

    def unspents_text(self):
        return "|".join("%d:%s" % (v, hx(p)) for p, v, *_ in self.ins)


def _pht(pass_hts, j):
    return ":%d" % pass_hts[j] if pass_hts and pass_hts[j] is not None else ""


def op_sign_tx(coin, mech, fields, us_text, scripts, ht, subset, entries, pass_idxs, pass_hts=None):
    """assemble the op line: runs the passes on the implementation to learn the parameters of the model
    (validity before each pass, digests)"""
    tx_s = show_fields(fields, compact=False)
    p2sh_s = show_list(scripts, hx)
    keys_s = show_list(entries, show_entry)
    ht_s = "none" if ht is None else str(ht)
    sub_s = "all" if subset is None else show_list(subset)
    # first run with dummy validity to observe validity before each pass
    proto = " ".join(["c05_sign_tx", coin, mech, tx_s, us_text, p2sh_s, ht_s, sub_s, keys_s,
                      "|".join("%s:-%s" % (show_list(p), _pht(pass_hts, j)) for j, p in enumerate(pass_idxs)), "~"])
    o = SignOp(proto)
    valids = []
    tx0 = build(coin, tx_s, us_text)
    n_in = len(tx0.txs_in)

    def bits(tx):
        if tx.missing_unspents():
            return "-"
        return "".join("1" if tx.is_solution_ok(i) else "0" for i in range(n_in)) or "-"
    valids.append(bits(tx0))

    def observe(k, before, tx):
        valids.append(bits(tx))
    try:
        run_passes(o, observe)
    except Exception:  # noqa: BLE001
        pass
    while len(valids) < len(pass_idxs):
        valids.append(valids[-1])
    e_ht = eff_ht(coin, ht)
    hts = [e_ht, 1] if e_ht <= 0xffffffff else [1]
    hts += [eff_ht(coin, h) for h in (pass_hts or []) if h is not None and eff_ht(coin, h) <= 0xffffffff]
    dig = "~" if tx0.missing_unspents() else digests_text(tx0, scripts, hts)
    passes_s = "|".join("%s:%s%s" % (show_list(p), v, _pht(pass_hts, j)) for j, (p, v) in enumerate(zip(pass_idxs, valids)))
    return " ".join(["c05_sign_tx", coin, mech, tx_s, us_text, p2sh_s, ht_s, sub_s, keys_s, passes_s, dig])


def scenario_op(ctx, sc: Scenario, mech="dict", ht=None, subset=None, passes=None, wrong=None, fields=None, pass_hts=None):
    """entries = both forms of every secret of the scenario; passes = list of lists of secrets (None = one pass with all)"""
    secrets = []
    for _p, _v, ds, _m, _k, _c in sc.ins:
        for d in ds:
            if d not in secrets:
                secrets.append(d)
    entries = []
    for d in secrets:
        entries += sc.pool.entries(d)
    if wrong:
        # an entry that maps the hash of one key to another secret
        (d_from, d_to) = wrong
        es = sc.pool.entries(d_to)
        hs = sc.pool.entries(d_from)
        entries += [(hs[0][0],) + es[0][1:], (hs[1][0],) + es[1][1:]]
        wrong_idx = [len(entries) - 2, len(entries) - 1]
    if passes is None:
        passes = [secrets]
    pass_idxs = []
    cum = []
    for p in passes:
        idxs = []
        for d in p:
            j = secrets.index(d)
            idxs += [2 * j, 2 * j + 1]
        if wrong and wrong[0] in p:
            idxs = [i for i in idxs if i // 2 != secrets.index(wrong[0])] + wrong_idx
        if mech.startswith("kc"):
            cum = sorted(set(cum) | set(idxs))
            idxs = list(cum)
        pass_idxs.append(idxs)
    return op_sign_tx(sc.coin, mech, fields or sc.fields(), sc.unspents_text(), sc.scripts, ht, subset, entries, pass_idxs, pass_hts)


def kc_scenario_op(ctx, coin, kinds, ht=None, n_passes=None):
    """inputs controlled by BIP32 sub-keys of distinct seeds; a long-lived keychain gets one secret per pass"""
    rng = ctx.rng
    net = NET(coin)
    pool = KeyPool(rng)
    sc = Scenario(ctx, coin, pool)
    parts = []
    secrets = []

    def new_key():
        seed = bytes(rng.randrange(256) for _ in range(16))
        path = "/".join(str(rng.randrange(0, 50)) + rng.choice(["", "H"]) for _ in range(rng.randint(0, 3)))
        node = net.keys.bip32_seed(seed).subkey_for_path(path)
        d = node.secret_exponent()
        parts.append((seed, path))
        secrets.append(d)
        return d
    for kind in kinds:
        if kind.endswith("ms"):
            n = rng.randint(1, 4)
            m = rng.randint(1, n)
            sc.add(kind, [new_key() for _ in range(n)], m)
        else:
            sc.add(kind, [new_key()])
    entries = []
    for d in secrets:
        entries += pool.entries(d)
    order = list(range(len(secrets)))
    rng.shuffle(order)
    k = n_passes or len(order)
    chunks = [order[i::k] for i in range(k)]
    cum = []
    pass_idxs = []
    for ch in chunks:
        for j in ch:
            cum += [2 * j, 2 * j + 1]
        pass_idxs.append(sorted(cum))
    mech = "kc." + ";".join("%s:%s" % (hx(seed), hx(path.encode())) for seed, path in parts)
    return op_sign_tx(coin, mech, sc.fields(), sc.unspents_text(), sc.scripts, ht, None, entries, pass_idxs)


def gen_sign_solver(ctx, emit, n):
    rng = ctx.rng
    pool = KeyPool(rng)
    for _ in range(n):
        nk = rng.randint(1, 4)
        m = rng.randint(1, nk)
        ds = [rng.randrange(1, N_ORDER) for _ in range(nk)]
        keys = [pool.sec(d, rng.random() < 0.7) for d in ds]
        ht = rng.choice(HASH_TYPES + [0x41, 0xc1, 0, 4, 255])
        z = rng.randrange(1, 1 << 256)
        if rng.random() < 0.5:
            # a digest for which the raw signature of the first key has a high S
            for _try in range(20):
                r, s = G.sign(ds[0], z)
                if 2 * s > N_ORDER:
                    break
                z = rng.randrange(1, 1 << 256)
        have = [d for d in ds if rng.random() < 0.6]
        entries = []
        for d in have:
            entries += pool.entries(d)
        dig = {ht: z, 1: rng.randrange(1, 1 << 256)}
        existing = []
        mode = rng.randrange(5)
        if mode >= 2:
            # signatures already there: by a listed key (possibly high S, possibly another hash type), by a stranger, garbage
            for d in rng.sample(ds, rng.randint(0, nk)):
                t = rng.choice([ht, 1])
                r, s = G.sign(d, dig[t])
                if rng.random() < 0.3:
                    s = N_ORDER - s
                existing.append(der.sigencode_der(r, s) + bytes([t]))
            if rng.random() < 0.3:
                r, s = G.sign(rng.randrange(1, N_ORDER), z)
                existing.append(der.sigencode_der(r, s) + bytes([ht]))
            if rng.random() < 0.3:
                existing.append(PLACEHOLDER)
            if rng.random() < 0.3:
                existing.append(bytes(rng.randrange(256) for _ in range(rng.randint(0, 12))))
            if rng.random() < 0.3:
                existing.append(b"")
            rng.shuffle(existing)
        sec_list = list(reversed(keys)) if rng.random() < 0.7 else keys
        ph = rng.choice([hx(PLACEHOLDER), hx(PLACEHOLDER), "-", "none"])
        emit("c05_sign_solver %s %d %s %s %d %s %s" % (show_list(sec_list, hx), m, show_list(existing, hx), show_list(entries, show_entry), ht, ph,
                                                       ",".join("%d=%d" % kv for kv in sorted(dig.items()))))


def gen_der(ctx, emit, n):
    rng = ctx.rng
    specials = [0, 1, 0x7f, 0x80, 0xff, 0x100, 0x7fff, 0x8000, N_ORDER // 2, N_ORDER // 2 + 1, N_ORDER - 1, N_ORDER, (1 << 255) - 1, 1 << 255, (1 << 256) - 1,
                1 << 256, 1 << 503, 1 << 1015]
    for r in specials:
        for s in (1, N_ORDER // 2, 1 << 255):
            emit("c05_der %d %d" % (r, s))
            emit("c05_der %d %d" % (s, r))
    emit("c05_der -1 5")
    for _ in range(n):
        r = rng.randrange(0, 1 << rng.choice([8, 16, 248, 255, 256, 256, 256]))
        s = rng.randrange(0, 1 << rng.choice([8, 16, 248, 255, 256, 256, 256]))
        emit("c05_der %d %d" % (r, s))
        blob = bytearray(der.sigencode_der(r, s))
        emit("c05_lax " + hx(bytes(blob)))
        mode = rng.randrange(6)
        if mode == 0 and blob:
            blob[rng.randrange(len(blob))] ^= 1 << rng.randrange(8)
        elif mode == 1:
            blob = blob[:rng.randrange(len(blob) + 1)]
        elif mode == 2:
            blob += bytes(rng.randrange(256) for _ in range(rng.randint(1, 3)))
        elif mode == 3:
            blob[1] = rng.choice([0x80, 0x81, 0x82, 0x84, 0xff])
        elif mode == 4:
            blob = bytearray(b"\x30\x81\x06\x02\x82\x00\x01" + bytes([rng.randrange(256)]) + b"\x02\x83\x00\x00\x01" + bytes([rng.randrange(256)]))
        emit("c05_lax " + hx(bytes(blob)))
    for x, y, c in [(0, 0, "c"), (1, 2, "u"), ((1 << 256) - 1, 3, "c"), (1 << 256, 1, "c"), (5, 1 << 256, "u"), (5, 1 << 256, "c"), (-1, 1, "c"), (7, -3, "c")]:
        emit("c05_sec %d %d %s" % (x, y, c))


def gen_keychain(ctx, emit, n):
    rng = ctx.rng
    net = NET("btc")
    for _ in range(n):
        seeds = [bytes(rng.randrange(256) for _ in range(16)) for _ in range(rng.randint(1, 3))]
        nodes = [net.keys.bip32_seed(s) for s in seeds]
        acts = []
        subs = []
        hashes = []
        for _a in range(rng.randint(3, 10)):
            j = rng.randrange(len(seeds))
            t = rng.random()
            if t < 0.35:
                path = "/".join(str(rng.randrange(0, 9)) + rng.choice(["", "H"]) for _ in range(rng.randint(0, 3)))
                sub = nodes[j].subkey_for_path(path)
                acts.append("path:%s:%s:%s:%s" % (hx(sub.hash160()), hx(path.encode()), hx(nodes[j].fingerprint()), hx(seeds[j])))
                x, y = sub.public_pair()
                subs.append("sub:%s:%d:%s=%s:%d:%d:%d" % (hx(nodes[j].fingerprint()), nodes[j].secret_exponent(), hx(path.encode()),
                                                        hx(sub.fingerprint()), sub.secret_exponent(), x, y))
                hashes += [sub.hash160(), sub.hash160(is_compressed=False)]
            elif t < 0.55:
                x, y = nodes[j].public_pair()
                acts.append("secret:%s:%d:%d:%d:%s" % (hx(nodes[j].fingerprint()), nodes[j].secret_exponent(), x, y, hx(seeds[j])))
                hashes += [nodes[j].hash160(), nodes[j].hash160(is_compressed=False)]
            elif t < 0.62:
                sc = bytes(rng.randrange(256) for _ in range(rng.randint(1, 30)))
                acts.append("p2s:" + hx(sc))
                hashes += [hash160(sc), hashlib.sha256(sc).digest()]
            elif hashes:
                acts.append("get:" + hx(rng.choice(hashes)))
            else:
                acts.append("get:" + hx(bytes(20)))
        for h in rng.sample(hashes, min(3, len(hashes))):
            acts.append("get:" + hx(h))
        emit("c05_keychain " + ",".join(subs + acts))


def gen(ctx, emit):
    rng = ctx.rng
    pool = KeyPool(rng)
    sign_ops = []
    emit_all = emit

    def emit(op):  # noqa: F811  (every c05_sign_tx op is remembered: who_signed is asked about a sample of their results)
        emit_all(op)
        if op.startswith("c05_sign_tx "):
            sign_ops.append(op)

    def fresh(n):
        return [rng.randrange(1, N_ORDER) for _ in range(n)]

    for _ in range(ctx.n(4, 40)):
        emit("c05_fastcheck %d %d %d" % (rng.randrange(1, N_ORDER), rng.randrange(0, 1 << 256) if rng.random() < 0.9 else 0, rng.randrange(2)))
    gen_der(ctx, emit, ctx.n(60, 3000))
    gen_sign_solver(ctx, emit, ctx.n(200, 4000))
    gen_keychain(ctx, emit, ctx.n(20, 600))
    c05_machinery.gen(ctx, emit, sys.modules[__name__], pool)

    # --- boundary corpus: every template x coin, default hash type, all inputs
    for coin in COINS_MAIN:
        sc = Scenario(ctx, coin, pool)
        for kind in KINDS:
            if kind.endswith("ms"):
                sc.add(kind, fresh(3), 2)
            else:
                sc.add(kind, fresh(1))
        emit(scenario_op(ctx, sc, "dict"))
    # every hash type (with and without ANYONECANPAY) on a legacy and a witness input, BTC and one fork coin
    for coin in ("btc", "bch", "btg"):
        for ht in HASH_TYPES:
            sc = Scenario(ctx, coin, pool)
            sc.add("p2pkh", fresh(1), compressed=rng.random() < 0.5)
            sc.add("p2wpkh", fresh(1))
            sc.add(rng.choice(["p2sh-ms", "p2wsh-ms", "ms"]), fresh(2), rng.randint(1, 2))
            emit(scenario_op(ctx, sc, rng.choice(["dict", "wif"]), ht=ht))
    # uncompressed keys outside witness programs
    for kind in ("p2pkh", "p2pk", "ms", "p2sh-ms"):
        sc = Scenario(ctx, rng.choice(COINS_MAIN), pool)
        sc.add(kind, fresh(2 if kind.endswith("ms") else 1), 2 if kind.endswith("ms") else 1, compressed=False)
        emit(scenario_op(ctx, sc, "dict"))
    # subsets: None, explicitly empty, singletons, everything but one
    for subset in (None, [], [0], [2], [0, 1], [1, 2, 3]):
        sc = Scenario(ctx, rng.choice(COINS_MAIN), pool)
        for kind in rng.sample(KINDS, 4):
            sc.add(kind, fresh(2) if kind.endswith("ms") else fresh(1), 2 if kind.endswith("ms") else 1)
        emit(scenario_op(ctx, sc, rng.choice(["dict", "wif"]), subset=subset, ht=rng.choice([None, 1, 0x81])))
    # already valid inputs are not touched: sign with one hash type, then ask again with another
    for coin in ("btc", "ltc", "bch"):
        sc = Scenario(ctx, coin, pool)
        sc.add("p2pkh", fresh(1))
        sc.add("p2wpkh", fresh(1))
        sc.add("p2sh-ms", fresh(3), 2)
        f = sc.fields()
        first = scenario_op(ctx, sc, "dict", ht=2, subset=[0, 2], fields=f)
        emit(first)
        out = impl(first)
        if out.startswith("ok"):
            emit(scenario_op(ctx, sc, "dict", ht=0x81, fields=parse_fields(out[3:])))
    # wrong keys: the lookup maps the hash to another secret; missing keys
    for kind in ("p2pkh", "p2wpkh", "p2pk", "ms", "p2sh-ms"):
        sc = Scenario(ctx, "btc", pool)
        ds = fresh(2)
        sc.add(kind, ds if kind.endswith("ms") else ds[:1], 2 if kind.endswith("ms") else 1)
        other = fresh(1)[0]
        emit(scenario_op(ctx, sc, "dict", wrong=(ds[0], other)))
        emit(scenario_op(ctx, sc, "dict", passes=[[]]))
        if kind.endswith("ms"):
            emit(scenario_op(ctx, sc, "dict", passes=[[ds[1]]]))
    # m-of-n across the atom-numbering boundary (x_9 / x_10) and at the size limits
    # (counts above 16 are written as one-byte pushes 01 11 .. 01 14; under P2SH 15 compressed / 7 uncompressed keys fill the 520 bytes)
    big = [("ms", 10, 10), ("p2sh-ms", 9, 9), ("p2wsh-ms", 9, 10), ("ms", 11, 12), ("p2sh-ms", 15, 15), ("p2wsh-ms", 20, 20),
           ("ms", 17, 17), ("p2sh-p2wsh-ms", 16, 17), ("p2sh-ms-u", 7, 7)]
    if ctx.thorough:
        big += [("ms", 20, 20), ("p2sh-p2wsh-ms", 16, 20), ("p2sh-ms", 1, 15), ("p2wsh-ms", 1, 20), ("ms", 16, 17), ("p2wsh-ms", 17, 17),
                ("ms", 1, 18), ("p2sh-p2wsh-ms", 20, 20), ("p2wsh-ms", 18, 19), ("p2sh-ms-u", 1, 7), ("ms-u", 20, 20)]
    for kind, m, n in big:
        sc = Scenario(ctx, rng.choice(["btc", "bch"]), pool)
        if kind.endswith("-u"):
            sc.add(kind[:-2], fresh(n), m, compressed=False)
        else:
            sc.add(kind, fresh(n), m)
        emit(scenario_op(ctx, sc, "dict"))

    # --- multisig one key at a time, every order for n <= 4 (sampled in quick), sampled beyond
    def orders(n, limit):
        perms = list(itertools.permutations(range(n)))
        if len(perms) > limit:
            perms = rng.sample(perms, limit)
        return perms
    for n in (1, 2, 3, 4):
        for m in range(1, n + 1):
            kind = rng.choice(["ms", "p2sh-ms", "p2wsh-ms", "p2sh-p2wsh-ms"])
            for perm in orders(n, ctx.n(1 if n > 2 else 2, 24)):
                sc = Scenario(ctx, rng.choice(COINS_MAIN), pool)
                ds = fresh(n)
                sc.add(kind, ds, m, compressed=(kind not in ("ms", "p2sh-ms")) or rng.random() < 0.6)
                emit(scenario_op(ctx, sc, rng.choice(["dict", "wif"]), ht=rng.choice([None] + HASH_TYPES), passes=[[ds[j]] for j in perm]))
    # --- cosigners using DIFFERENT hash types on a transaction with several inputs: in its pass the second cosigner's checker
    # first verifies the existing NONE/SINGLE signature and then makes an ALL one (whatever a digest computation leaves behind
    # in the checker must not leak into the next digest), while other inputs carry non-zero sequences
    for _ in range(ctx.n(12, 200)):
        kind = rng.choice(["ms", "p2sh-ms", "ms", "p2wsh-ms", "p2sh-p2wsh-ms"])
        n = rng.choice([2, 2, 3])
        m = rng.randint(2, n)
        sc = Scenario(ctx, rng.choice(COINS_MAIN), pool)
        ds = fresh(n)
        other = fresh(2)
        adds = [lambda: sc.add(kind, ds, m, compressed=True), lambda: sc.add(rng.choice(["p2pkh", "p2pk", "p2wpkh"]), [other[0]])]
        if rng.random() < 0.5:
            adds.append(lambda: sc.add("p2pkh", [other[1]]))
        else:
            other = other[:1]
        rng.shuffle(adds)
        for f in adds:
            f()
        order = ds[:]
        rng.shuffle(order)
        passes = [[d] for d in order[:m]]
        passes[-1] = passes[-1] + other
        hts = [rng.choice([2, 3, 0x82, 0x83, 0x81]) for _ in passes]
        hts[-1] = rng.choice([1, 1, 0x81])
        emit(scenario_op(ctx, sc, "dict", passes=passes, pass_hts=hts))
    for _ in range(ctx.n(2, 60)):
        n = rng.randint(5, 12)
        m = rng.randint(2, n)
        kind = rng.choice(["ms", "p2sh-ms", "p2wsh-ms"])
        sc = Scenario(ctx, rng.choice(COINS_MAIN), pool)
        ds = fresh(n)
        sc.add(kind, ds, m)
        perm = list(range(n))
        rng.shuffle(perm)
        emit(scenario_op(ctx, sc, "dict", passes=[[ds[j]] for j in perm[:m + 1]]))

    # --- keychain of BIP32 nodes, one long-lived keychain, secrets added pass by pass
    for _ in range(ctx.n(6, 150)):
        kinds = [rng.choice(KINDS) for _ in range(rng.randint(1, 3))]
        emit(kc_scenario_op(ctx, rng.choice(COINS_MAIN + COINS_OTHER[:3]), kinds, ht=rng.choice([None, 1, 0x83])))

    # --- random mixes
    for _ in range(ctx.n(60, 1500)):
        coin = rng.choice(COINS_MAIN * 3 + COINS_OTHER)
        sc = Scenario(ctx, coin, pool)
        for _i in range(rng.randint(1, 4)):
            kind = rng.choice(KINDS)
            wit = kind in ("p2wpkh", "p2sh-p2wpkh", "p2wsh-ms", "p2sh-p2wsh-ms")
            comp = True if wit else rng.random() < 0.7
            if kind.endswith("ms"):
                n = rng.randint(1, 5)
                sc.add(kind, fresh(n), rng.randint(1, n), compressed=comp)
            else:
                sc.add(kind, fresh(1), compressed=comp)
        n_in = len(sc.ins)
        subset = rng.choice([None, None, None, [], sorted(rng.sample(range(n_in), rng.randint(1, n_in)))])
        ht = rng.choice([None, None] + HASH_TYPES)
        all_secrets = [d for inp in sc.ins for d in inp[2]]
        mode = rng.randrange(4)
        if mode == 0:
            passes = None
        elif mode == 1:
            passes = [[d for d in all_secrets if rng.random() < 0.6]]
        else:
            sh = list(all_secrets)
            rng.shuffle(sh)
            k = rng.randint(1, 3)
            passes = [sh[i::k] for i in range(k)]
        emit(scenario_op(ctx, sc, rng.choice(["dict", "dict", "wif"]), ht=ht, subset=subset, passes=passes))

    # --- Groestlcoin (its own Tx class and Solver: single-SHA256 digests on the legacy and the witness path), keys supplied as
    # a lookup table or as WIF text (network.tx_utils.sign_tx: Groestl-checksummed Base58 under the stand-in hash of grsenv)
    for _ in range(ctx.n(8, 150)):
        sc = Scenario(ctx, "grs", pool)
        for kind in rng.sample(KINDS, rng.randint(2, 4)):
            wit = kind in ("p2wpkh", "p2sh-p2wpkh", "p2wsh-ms", "p2sh-p2wsh-ms")
            if kind.endswith("ms"):
                n = rng.randint(1, 3)
                sc.add(kind, fresh(n), rng.randint(1, n), compressed=True if wit else rng.random() < 0.7)
            else:
                sc.add(kind, fresh(1), compressed=True if wit else rng.random() < 0.7)
        emit(scenario_op(ctx, sc, rng.choice(["dict", "wif"]), ht=rng.choice([None, 1, 3, 0x81])))

    # --- who_signed on the transactions the signing ops leave (unsigned, partially signed with placeholders, complete)
    for op in rng.sample(sign_ops, min(len(sign_ops), ctx.n(70, 900))):
        out = impl(op)
        if out.startswith("ok "):
            a = op.split(" ")
            emit_all("c05_who_signed %s %s %s" % (a[1], out[3:], a[4]))
