"""C16 — peer-to-peer messages round-trip through pack and parse for every message type, and the packed bytes are the
Bitcoin wire encoding (pycoin/message/make_parser_and_packer.py, InvItem.py, PeerAddress.py, satoshi_streamer.py,
serialize/streamer.py), observed at network.message.pack / network.message.parse of the BTC network."""
from __future__ import annotations

from lib import Infra

import msglib as M
from msglib import REF, ALERT_REF, show_fields, parse_fields, show_val, tup, ref_pack, OutOfType, dump_dict, Hang, limited
from txlib import compact_size, ref_wire

from pycoin.symbols.btc import network as BTC
from pycoin.message.make_parser_and_packer import standard_messages
from pycoin.message.PeerAddress import PeerAddress
from pycoin.message.InvItem import InvItem

MANIFEST = {
    "text": "Lean theorems over a model of make_parser_and_packer (layout-string interpretation, pack_from_data, Streamer.parse_struct "
            "with arrays and tuples, every codec letter, post-processors): generic round trip for every well-formed layout over codecs "
            "satisfying the prefix-parser law, a kernel-checked decision over the generated table of all message layouts and codec "
            "letters, and wire-encoding equalities against an independent spec; model tied to the code by differential correspondence "
            "through network.message.pack/parse for all message names on every run. "
            "PeerAddress / InvItem as objects (Model/P2PObjects.lean): constructor assertions, IPv4 embedding and host(), ==, <, the "
               "comparisons functools.total_ordering derives, hashing/set membership, as histories on one object (C16_peer_*, C16_inv_*).",
    "note": "Embedded transactions rely on the C07 transaction model; blocks and headers on the C14 block model.",
    "technique": "Lean 4 proof (prefix-parser law, induction over layouts, decide +kernel over the generated layout table) + differential "
                 "correspondence model vs implementation + independent wire encoder",
}
RULE = ("ops pa_new/pa_cmp/pa_hist/inv_new/inv_cmp/inv_hist (helper objects: boundary addresses of 4/16/other lengths, pairs differing in "
        "exactly one component, prefixes, mutation then comparison); "
        "ops msg_rt <name> <fields> (pack then parse), msg_parse <name> <bytes> and msg_hist (a sequence of pack/parse calls over "
        "btc/ltc/btg/bch/grs/doge/xtg run in a fresh interpreter state, every ordered pair of networks x every message with an embedded "
        "tx/block/header, each step compared with the same call alone in a fresh state); type-directed values per reference layout: boundary "
        "integers, empty/1/252/253/300-element arrays, IPv4-mapped and IPv6 addresses, optional field present/absent, embedded "
        "txs/blocks/headers; malformed stream = truncations and bit flips of valid encodings; distinct = distinct op line; "
        "trivial = messages without fields")
ASSUMPTIONS = ["process histories (msg_hist) are run by forking a worker that has imported the networks but never packed or parsed; "
               "networks covered: btc, ltc, btg, bch, grs, doge, xtg (every distinct Tx/Block class of the registry)",
               "the reference layout table in harness/msglib.py is written from the protocol documentation with pycoin's field names",
               "merkleblock round trip is claimed for field values that form a valid partial merkle tree (the post-processor validates)",
               "malformed-stream inputs whose [hash] array count exceeds what the data can hold by more than 5000 are excluded "
               "(f.read(32) succeeds on an exhausted stream, so the parser loops `count` times); impl calls are time-limited (3 s)"]
KNOWN: dict = {}

NAMES = sorted(REF)


def hash_array_count_sane(name: str, data: bytes) -> bool:
    """False when the `[hash]` array of getblocks/getheaders/merkleblock announces > 5000 elements more than the data can
    hold: both the implementation and the model would loop that many times over an exhausted stream (excluded input)"""
    off = {"getblocks": 4, "getheaders": 4, "merkleblock": 84}.get(name)
    if off is None or len(data) <= off:
        return True
    t = data[off]
    width = {0xFD: 2, 0xFE: 4, 0xFF: 8}.get(t, 0)
    count = t if width == 0 else int.from_bytes(data[off + 1: off + 1 + width].ljust(width, b"\0"), "little")
    have = max(0, len(data) - off - 1 - width) // 32
    return count <= have + 5000


def _cls(e) -> str:
    return type(e).__name__


_SOME_TX = []


def _fatten(v):
    from pycoin.block import Block
    if isinstance(v, Block) and not v.txs:
        if not _SOME_TX:
            import io, random
            _SOME_TX.append(BTC.tx.parse(io.BytesIO(gen_tx_bytes(random.Random(16)))))
        v.txs = [_SOME_TX[0], _SOME_TX[0]]
        return v
    if isinstance(v, list):
        return [_fatten(x) for x in v]
    if isinstance(v, tuple):
        return tuple(_fatten(x) for x in v)
    return v


def _b(s):
    return b"" if s == "-" else bytes.fromhex(s)


def _flags(a, b):
    return "".join(str(int(x)) for x in (a == b, a != b, a < b, a <= b, a > b, a >= b))


def _bin(o):
    import io
    f = io.BytesIO()
    try:
        o.stream(f)
    except Exception as e:  # noqa: BLE001
        return "err:" + _cls(e)
    return f.getvalue().hex() or "-"


def _obj_hist(o, steps, kind):
    out = []
    for st in steps:
        p = st.split(":")
        if p[0] == "host":
            out.append(o.host())
        elif p[0] == "bin":
            out.append(_bin(o))
        elif p[0] == "set":
            attr = {"services": "services", "port": "port", "ip": "ip_bin", "type": "item_type", "data": "data"}[p[1]]
            setattr(o, attr, _b(p[2]) if p[1] in ("ip", "data") else int(p[2]))
            out.append("-")
        elif p[0] == "cmp" and kind == "pa":
            out.append(_flags(o, PeerAddress(int(p[1]), _b(p[2]), int(p[3]))))
        elif p[0] == "cmp":
            other = InvItem(int(p[1]), _b(p[2]), dont_check=True)
            out.append(_flags(o, other) + str(len({o, other})))
    return "ok " + "|".join(out)


def _impl_obj(k, a):
    if k == "pa_new":
        try:
            o = PeerAddress(int(a[1]), _b(a[2]), int(a[3]))
        except AssertionError:
            return "err AssertionError"
        return "ok %d %s %d %s" % (o.services, o.ip_bin.hex() or "-", o.port, o.host())
    if k == "pa_cmp":
        x, y = PeerAddress(int(a[1]), _b(a[2]), int(a[3])), PeerAddress(int(a[4]), _b(a[5]), int(a[6]))
        return "ok %s %d" % (_flags(x, y), int(x == 5 or x == (x.services, x.ip_bin, x.port)))
    if k == "pa_hist":
        return _obj_hist(PeerAddress(int(a[1]), _b(a[2]), int(a[3])), a[4].split(","), "pa")
    if k == "inv_new":
        try:
            o = InvItem(int(a[1]), _b(a[2]), dont_check=(a[3] == "1"))
        except AssertionError:
            return "err AssertionError"
        return "ok %d %s" % (o.item_type, o.data.hex() or "-")
    if k == "inv_cmp":
        x, y = InvItem(int(a[1]), _b(a[2]), dont_check=True), InvItem(int(a[3]), _b(a[4]), dont_check=True)
        return "ok %s %d %d %d" % (_flags(x, y), len({x, y}), int(not (x == y) or hash(x) == hash(y)), int(x == 5 or x == (x.item_type, x.data)))
    if k == "inv_hist":
        return _obj_hist(InvItem(int(a[1]), _b(a[2]), dont_check=True), a[3].split(","), "inv")
    return None


def impl(op: str) -> str:
    a = op.split(" ")
    k = a[0]
    try:
        if k.startswith("pa_") or k.startswith("inv_"):
            r = _impl_obj(k, a)
            if r is not None:
                return r
        if k == "msg_rt":
            name, fields = a[1], parse_fields(a[2])
            try:
                kwargs = {kk: M.to_py(v) for kk, v in fields}
            except Exception as e:  # noqa: BLE001  (the embedded tx/block bytes do not parse: not a message-layer case)
                return "err build"
            if len(a) > 3 and a[3] == "fullblock":
                # the header fields are handed over as Block objects that CARRY transactions (a block just parsed from the
                # wire): a header field is the 80-byte header of that object, nothing more
                kwargs = {kk: _fatten(v) for kk, v in kwargs.items()}
            try:
                data = BTC.message.pack(name, **kwargs)
            except Exception as e:  # noqa: BLE001
                return "err pack " + _cls(e)
            try:
                d = limited(BTC.message.parse, name, data)
            except Hang:
                return "err parse Hang %s" % (data.hex() or "-")
            except Exception as e:  # noqa: BLE001
                return "err parse %s %s" % (_cls(e), data.hex() or "-")
            return "ok %s %s" % (data.hex() or "-", dump_dict(d, [kk for kk, _ in fields]))
        if k == "msg_hist":
            steps = a[1].split("|")
            out = M.zygote().run(steps)
            if out == ["HANG"]:
                return "err Hang"
            return "ok " + "|".join(out)
        if k == "msg_parse":
            name, data = a[1], (b"" if a[2] == "-" else bytes.fromhex(a[2]))
            try:
                d = limited(BTC.message.parse, name, data)
            except Hang:
                return "err Hang"
            except Exception as e:  # noqa: BLE001
                return "err " + _cls(e)
            names = [n for n, _ in REF.get(name, [])]
            return "ok " + dump_dict(d, names)
    except Exception as e:  # noqa: BLE001
        return "err harness " + _cls(e)
    return "bad-op"


def _strip_extra(dump: str) -> str:
    return ";".join(p for p in dump.split(";") if not p.startswith("+")) or "~"


def hist_oracle(steps, out: str):
    """every step's answer must be the answer the same call gives in a process that has done nothing before, and a pack of
    in-type values must be the wire encoding"""
    if not out.startswith("ok "):
        return "history did not finish: " + out
    answers = out[3:].split("|")
    if len(answers) != len(steps):
        return "history: %d answers for %d steps" % (len(answers), len(steps))
    for i, (st, ans) in enumerate(zip(steps, answers)):
        alone = M.zygote().run([st])
        if alone != [ans]:
            net, kind, name, _ = st.split(":")
            return ("step %d (%s.message.%s %s) answers differently after %s than in a fresh process: the result depends on what "
                    "other networks did before" % (i, net, kind, name, ",".join(":".join(x.split(":")[:3]) for x in steps[:i]) or "nothing"))
        net, kind, name, arg = st.split(":")
        if kind == "pack" and name in REF:
            fields = parse_fields(arg)
            if [k for k, _ in fields] == [k for k, _ in REF[name]]:
                try:
                    want = ref_pack(REF[name], fields)
                except OutOfType:
                    continue
                if ans != (want.hex() or "-"):
                    return "step %d (%s pack %s): packed bytes differ from the wire encoding" % (i, net, name)
    return None


def _obj_oracle(a, out):
    """the property on the implementation alone: the comparisons are those of the field tuples, `==` means same fields,
    equal objects hash alike, and an object that was mutated answers like a fresh one with the same fields"""
    k = a[0]
    if not out.startswith("ok"):
        return None
    if k == "pa_new":
        ip = _b(a[2])
        f = out.split(" ")
        want_ip = (bytes(10) + b"\xff\xff" + ip) if len(ip) == 4 else ip
        if f[2] != want_ip.hex() or int(f[1]) != int(a[1]) or int(f[3]) != int(a[3]):
            return "PeerAddress does not keep the fields it was built from (4-byte addresses as IPv4-mapped)"
        import ipaddress
        if want_ip[:12] == bytes(10) + b"\xff\xff":
            if f[4] != str(ipaddress.IPv4Address(want_ip[12:])):
                return "host() of an IPv4-mapped address is not its dotted quad"
        elif ipaddress.IPv6Address(f[4]).packed != want_ip:
            return "host() is not a text form of the 16-byte address"
    if k in ("pa_cmp", "inv_cmp"):
        if k == "pa_cmp":
            def key(s_, ip, p):
                ip = _b(ip)
                return ((bytes(10) + b"\xff\xff" + ip) if len(ip) == 4 else ip, int(p), int(s_))
            x, y = key(a[1], a[2], a[3]), key(a[4], a[5], a[6])
        else:
            x, y = (int(a[1]), _b(a[2])), (int(a[3]), _b(a[4]))
        f = out.split(" ")
        want = "".join(str(int(v)) for v in (x == y, x != y, x < y, x <= y, x > y, x >= y))
        if f[1] != want:
            return "comparisons of the objects are not those of their field tuples"
        if f[-1] != "0":
            return "an object compares equal to something that is not of its class"
        if k == "inv_cmp" and (int(f[2]) != (1 if x == y else 2) or f[3] != "1"):
            return "equal InvItems do not hash alike / a set keeps the wrong number of them"
    if k in ("pa_hist", "inv_hist"):
        # replay: every observer must answer like a FRESH object built from the current fields
        if k == "pa_hist":
            cur = {"services": int(a[1]), "ip": _b(a[2]), "port": int(a[3])}
            if len(cur["ip"]) == 4:
                cur["ip"] = bytes(10) + b"\xff\xff" + cur["ip"]
            steps = a[4].split(",")
            def fresh():
                return PeerAddress(cur["services"], cur["ip"], cur["port"])
        else:
            cur = {"type": int(a[1]), "data": _b(a[2])}
            steps = a[3].split(",")
            def fresh():
                return InvItem(cur["type"], cur["data"], dont_check=True)
        for st, ans in zip(steps, out[3:].split("|")):
            p = st.split(":")
            if p[0] == "set":
                cur[p[1]] = _b(p[2]) if p[1] in ("ip", "data") else int(p[2])
                continue
            want = _obj_hist(fresh(), [st], "pa" if k == "pa_hist" else "inv")[3:]
            if ans != want:
                return "step %s on an object with a history answers differently from a fresh object with the same fields" % st
    return None


def oracle(op: str, out: str):
    a = op.split(" ")
    if a[0].startswith("pa_") or a[0].startswith("inv_"):
        return _obj_oracle(a, out)
    if a[0] == "msg_hist":
        return hist_oracle(a[1].split("|"), out)
    if a[0] != "msg_rt":
        return None
    name, fields = a[1], parse_fields(a[2])
    tag = a[3] if len(a) > 3 else ""
    layout = REF.get(name)
    if layout is None:
        return None
    if [k for k, _ in fields] != [k for k, _ in layout]:
        return None  # not the declared fields: outside the quantifier
    try:
        want = ref_pack(layout, fields)
    except OutOfType:
        return None  # some value outside its declared type: outside the quantifier
    if name == "merkleblock" and tag not in ("honest", "fullblock"):
        if out.startswith("err parse ValueError") or out.startswith("err parse IndexError"):
            return None  # the merkleblock post-processor validates the partial merkle tree (C14)
    if not out.startswith("ok "):
        return "message %s: pack/parse of in-type field values failed: %s" % (name, out[:60])
    _, hexs, dump = out.split(" ", 2)
    got = b"" if hexs == "-" else bytes.fromhex(hexs)
    if got != want:
        return "message %s: packed bytes differ from the Bitcoin wire encoding (independent encoder)" % name
    if _strip_extra(dump) != show_fields(fields):
        return "message %s: parse(pack(v)) != v" % name
    return None


def trivial(op: str) -> bool:
    a = op.split(" ")
    return a[0] == "msg_rt" and a[2] == "~"


def neighbours(op, rng):
    a = op.split(" ")
    if a[0] == "msg_rt":
        # one fully populated in-type value per message: finds the message a broken layout / codec belongs to
        for name in NAMES:
            yield "msg_rt %s %s" % (name, show_fields(gen_fields(rng, name, small=True)))


# ----------------------------------------------------------------- type-directed values

def boundary_ints(bits):
    m = 2 ** bits
    return [0, 1, 2, 127, 128, 252, 253, 254, 255, 256, 65535, 65536, 2 ** 32 - 1, 2 ** 32, m - 1, m // 2, m // 2 - 1]


def gen_int(rng, bits):
    m = 2 ** bits
    r = rng.random()
    if r < 0.5:
        return rng.choice([x for x in boundary_ints(bits) if x < m])
    return rng.randrange(m)


def gen_addr(rng):
    ip = rng.choice([b"\0" * 10 + b"\xff\xff" + rng.randbytes(4), rng.randbytes(16), b"\0" * 16, b"\xff" * 16,
                     bytes.fromhex("2607f8b04006080a000000000000200e")])
    return ("A", gen_int(rng, 64), ip, rng.choice([0, 1, 255, 256, 8333, 65535, rng.randrange(65536)]))


def gen_tx_bytes(rng):
    return ref_wire(M.random_tx_fields(rng))


def gen_scalar(rng, t):
    if t in M.INT_BITS:
        return gen_int(rng, M.INT_BITS[t])
    if t == "varstr":
        n = rng.choice([0, 0, 1, 2, 10, 252, 253, 254, 300, rng.randrange(0, 70)])
        return rng.randbytes(n)
    if t == "hash":
        return rng.choice([rng.randbytes(32), b"\0" * 32, b"\xff" * 32])
    if t == "bool":
        return rng.random() < 0.5
    if t == "optbool":
        return rng.choice([None, True, False])
    if t == "netaddr":
        return gen_addr(rng)
    if t == "inv":
        return ("V", rng.choice([0, 1, 2, 3, 4, 1 << 30 | 1, 2 ** 32 - 1, rng.randrange(2 ** 32)]), rng.randbytes(32))
    if t == "tx":
        return ("t", gen_tx_bytes(rng))
    if t == "block":
        return ("b", M.random_block(rng, rng.choice([1, 1, 2, 3, 5]))[0])
    if t == "header":
        return ("h", M.random_block(rng, 1)[1])
    raise ValueError(t)


def gen_value(rng, t, count=None, small=False):
    if isinstance(t, list):
        if count is None:
            count = rng.choice([1, 2, 3]) if small else rng.choice([0, 1, 1, 2, 3, 5, 8])
        if len(t) == 1:
            return [gen_scalar(rng, t[0]) for _ in range(count)]
        return [tup(*[gen_scalar(rng, ti) for ti in t]) for _ in range(count)]
    return gen_scalar(rng, t)


def gen_fields(rng, name, count=None, small=False):
    return [(k, gen_value(rng, t, count, small)) for k, t in REF[name]]


def alert_body(rng):
    fields = [(k, gen_value(rng, t)) for k, t in ALERT_REF]
    return ref_pack(ALERT_REF, fields)


def honest_merkleblock(rng, n=None):
    """fields of a merkleblock message carrying a valid proof, built with the independent reference of props/c14.py"""
    from props import c14
    n = n or rng.choice([1, 2, 3, 5, 7, 8, 13])
    txids = [rng.randbytes(32) for _ in range(n)]
    ms = [rng.random() < 0.4 for _ in range(n)]
    flags, hashes, _ids, _nb = c14.ref_build(txids, ms)
    hdr = M.header_bytes(2, rng.randbytes(32), c14.ref_root(txids), rng.randrange(2 ** 32), 0x1D00FFFF, rng.randrange(2 ** 32))
    return [("header", ("h", hdr)), ("total_transactions", n), ("hashes", hashes), ("flags", list(flags))]


EMBED_MSGS = ["tx", "block", "headers", "merkleblock", "cmpctblock", "blocktxn"]


def net_value(rng, code, t):
    """a value of reference type `t` in the wire layout of network `code`"""
    if t == "header":
        return ("h", M.net_header(rng, code, rng.randbytes(32)))
    if t == "block":
        return ("b", M.net_block(rng, code, rng.choice([1, 2, 3]))[0])
    return gen_scalar(rng, t)


def net_fields(rng, code, name):
    if name == "merkleblock":
        from props import c14
        n = rng.choice([1, 2, 3, 5, 8])
        txids = [rng.randbytes(32) for _ in range(n)]
        ms = [rng.random() < 0.5 for _ in range(n)]
        flags, hashes, _i, _n = c14.ref_build(txids, ms)
        return [("header", ("h", M.net_header(rng, code, c14.ref_root(txids)))), ("total_transactions", n), ("hashes", hashes),
                ("flags", list(flags))]
    out = []
    for k, t in REF[name]:
        if isinstance(t, list):
            cnt = rng.choice([1, 2])
            out.append((k, [net_value(rng, code, t[0]) if len(t) == 1 else tup(*[net_value(rng, code, x) for x in t]) for _ in range(cnt)]))
        else:
            out.append((k, net_value(rng, code, t)))
    return out


def hist_steps(rng, code, name):
    """pack the values, and parse their reference encoding, on network `code`"""
    f = net_fields(rng, code, name)
    return ["%s:pack:%s:%s" % (code, name, show_fields(f)), "%s:parse:%s:%s" % (code, name, ref_pack(REF[name], f).hex() or "-")]


def gen_histories(ctx, emit):
    rng = ctx.rng
    nets = [n for n in M.HIST_NETS if n in M.zygote().nets]
    # every ordered pair of networks x every message with an embedded tx / block / header: A first then B
    for name in EMBED_MSGS:
        for a in nets:
            for b in nets:
                if a != b:
                    sa, sb = hist_steps(rng, a, name), hist_steps(rng, b, name)
                    emit("msg_hist " + "|".join([sa[1], sb[1], sb[0], sa[0]]))
    # longer random interleavings over all networks and all messages
    for _ in range(ctx.n(60, 3000)):
        steps = []
        for _s in range(rng.randint(3, 8)):
            code = rng.choice(nets)
            name = rng.choice(EMBED_MSGS + EMBED_MSGS + ["version", "inv", "getblocks", "addr", "ping"])
            steps.append(rng.choice(hist_steps(rng, code, name)))
        emit("msg_hist " + "|".join(steps))


def gen_objects(ctx, emit):
    rng = ctx.rng
    IP4H = bytes(10) + b"\xff\xff"

    def hexs(b):
        return b.hex() or "-"

    def rip():
        c = rng.randrange(6)
        if c == 0:
            return rng.randbytes(4)
        if c == 1:
            return IP4H + rng.randbytes(4)
        if c == 2:
            return rng.choice([bytes(16), bytes(15) + b"\x01", b"\xff" * 16, b"\x20\x01\x0d\xb8" + bytes(11) + b"\x01"])
        if c == 3:
            return IP4H[:11] + rng.randbytes(5)           # almost the IPv4 prefix
        return rng.randbytes(16)
    # constructor: every length 0..20, the IPv4 embedding, services/port boundaries
    for n in list(range(0, 21)) + [32]:
        emit("pa_new 1 %s 8333" % hexs(rng.randbytes(n)))
    for ip in (b"\x7f\x00\x00\x01", IP4H + b"\x7f\x00\x00\x01", bytes(16), bytes(15) + b"\x01", b"\xff" * 16, b"\x00\x01" * 8,
               bytes(10) + b"\xff\xfe" + b"\x01\x02\x03\x04", bytes(9) + b"\x01\xff\xff" + b"\x01\x02\x03\x04"):
        for sv, port in ((0, 0), (2 ** 64 - 1, 65535), (1, 8333)):
            emit("pa_new %d %s %d" % (sv, hexs(ip), port))
    for _ in range(ctx.n(150, 5000)):
        emit("pa_new %d %s %d" % (rng.choice([0, 1, 1033, 2 ** 64 - 1, rng.randrange(2 ** 64)]), hexs(rip()), rng.choice([0, 1, 8333, 65535, rng.randrange(65536)])))
    # comparisons: pairs that differ in exactly one component, in the first differing byte, by a prefix byte value
    def pa():
        return [rng.choice([0, 1, 2, rng.randrange(2 ** 64)]), rip(), rng.choice([0, 1, 8333, rng.randrange(65536)])]
    for _ in range(ctx.n(250, 10000)):
        x = pa()
        y = list(x)
        c = rng.randrange(7)
        if c == 0:
            y = pa()
        elif c == 1:
            y[0] = x[0] + rng.choice([-1, 1]) if x[0] > 0 else 1
        elif c == 2:
            y[2] = (x[2] + rng.choice([1, 65535])) % 65536
        elif c == 3:
            ip = bytearray(x[1] if len(x[1]) == 16 else IP4H + x[1])
            i = rng.randrange(16)
            ip[i] = (ip[i] + rng.choice([1, 255, 128])) % 256
            y[1] = bytes(ip)
        elif c == 4 and len(x[1]) == 4:
            y[1] = IP4H + x[1]                               # the same address in both spellings
        elif c == 5:
            y[0], y[2] = x[0] + 1, max(0, x[2] - 1)          # components disagree on the order: the port decides
        if rng.random() < 0.5:
            x, y = y, x
        emit("pa_cmp %d %s %d %d %s %d" % (x[0], hexs(x[1]), x[2], y[0], hexs(y[1]), y[2]))
    emit("pa_cmp 1 %s 5 2 %s 4" % (hexs(bytes(16)), hexs(bytes(16))))
    emit("pa_cmp 9 %s 5 1 %s 5" % (hexs(bytes(15) + b"\x01"), hexs(bytes(15) + b"\x02")))
    for _ in range(ctx.n(120, 5000)):
        x = pa()
        steps = []
        for _s in range(rng.randint(2, 7)):
            c = rng.randrange(6)
            if c == 0:
                steps.append("host")
            elif c == 1:
                steps.append("bin")
            elif c == 2:
                steps.append("set:services:%d" % rng.choice([0, 5, 2 ** 64 - 1, 2 ** 64, rng.randrange(2 ** 64)]))
            elif c == 3:
                steps.append("set:port:%d" % rng.choice([0, 65535, 65536, rng.randrange(65536)]))
            elif c == 4:
                steps.append("set:ip:%s" % hexs(rng.choice([IP4H + rng.randbytes(4), rng.randbytes(16)])))
            else:
                y = pa() if rng.random() < 0.5 else x
                steps.append("cmp:%d:%s:%d" % (y[0], hexs(y[1]), y[2]))
        steps += ["host", "bin", "cmp:%d:%s:%d" % (x[0], hexs(x[1]), x[2])]
        emit("pa_hist %d %s %d %s" % (x[0], hexs(x[1]), x[2], ",".join(steps)))
    # InvItem
    for t in (0, 1, 2, 3, 4, 5, 2 ** 30 + 1, 2 ** 32 - 1, -1):
        for dc in (0, 1):
            emit("inv_new %d %s %d" % (t, hexs(rng.randbytes(32)), dc))
    for n in (0, 1, 31, 33, 64):
        emit("inv_new 1 %s 0" % hexs(rng.randbytes(n)))
        emit("inv_new 1 %s 1" % hexs(rng.randbytes(n)))
    def inv():
        return [rng.choice([0, 1, 2, 3, 4, 2 ** 30 + 1, rng.randrange(2 ** 32)]), rng.choice([bytes(32), b"\xff" * 32, rng.randbytes(32)])]
    for _ in range(ctx.n(250, 10000)):
        x = inv()
        y = list(x)
        c = rng.randrange(5)
        if c == 0:
            y = inv()
        elif c == 1:
            y[0] = x[0] + rng.choice([-1, 1]) if x[0] > 0 else 1
        elif c == 2:
            d = bytearray(x[1]); i = rng.randrange(32); d[i] = (d[i] + rng.choice([1, 255, 128])) % 256; y[1] = bytes(d)
        elif c == 3:
            d = bytearray(x[1]); d[0] = (d[0] + 1) % 256; y = [x[0] + 1, bytes(d)] if d[0] == 0 else [x[0] + 1, bytes([max(0, x[1][0] - 1)]) + x[1][1:]]
        if rng.random() < 0.5:
            x, y = y, x
        emit("inv_cmp %d %s %d %s" % (x[0], hexs(x[1]), y[0], hexs(y[1])))
    for _ in range(ctx.n(100, 5000)):
        x = inv()
        steps = []
        for _s in range(rng.randint(2, 6)):
            c = rng.randrange(4)
            if c == 0:
                steps.append("bin")
            elif c == 1:
                steps.append("set:type:%d" % rng.choice([0, 1, 2, 3, 2 ** 32 - 1, 2 ** 32]))
            elif c == 2:
                steps.append("set:data:%s" % hexs(rng.randbytes(32)))
            else:
                y = inv() if rng.random() < 0.5 else x
                steps.append("cmp:%d:%s" % (y[0], hexs(y[1])))
        steps += ["bin", "cmp:%d:%s" % (x[0], hexs(x[1]))]
        emit("inv_hist %d %s %s" % (x[0], hexs(x[1]), ",".join(steps)))


def gen(ctx, emit):
    rng = ctx.rng
    gen_objects(ctx, emit)
    gen_histories(ctx, emit)
    live = standard_messages()
    if sorted(live) != NAMES:
        # a message type added or removed: the reference table has to follow (reported, not a violation by itself)
        ctx.note("message names differ from the reference table: %s" % sorted(set(live) ^ set(NAMES)))

    def rt(name, fields, tag=""):
        emit("msg_rt %s %s%s" % (name, show_fields(fields), (" " + tag) if tag else ""))

    # names the table does not have (names are case-sensitive): KeyError from parse and from pack
    for bogus in ("nosuchmessage", "Version", "ping2", "x"):
        emit("msg_parse %s 00" % bogus)
        emit("msg_parse %s -" % bogus)
        emit("msg_rt %s ~" % bogus)
    for name in NAMES:
        layout = REF[name]
        has_array = any(isinstance(t, list) for _, t in layout)
        # one fully populated small value, then array-size boundaries, then random values
        if name == "merkleblock":
            for n in (1, 2, 3, 5, 8, 13):
                rt(name, honest_merkleblock(rng, n), "honest")
        rt(name, gen_fields(rng, name, small=True))
        if not layout:
            emit("msg_parse %s -" % name)
            emit("msg_parse %s 00" % name)
            continue
        if has_array:
            heavy = any(isinstance(t, list) and any(x in ("tx", "block", "header") for x in t) for _, t in layout)
            for c in ([0, 1, 2, 40] if heavy else [0, 1, 2, 252, 253, 300]):
                rt(name, gen_fields(rng, name, count=c))
        for _ in range(ctx.n(150, 5000)):
            if name == "alert" and rng.random() < 0.5:
                rt(name, [("payload", alert_body(rng)), ("signature", rng.randbytes(rng.choice([0, 64, 72])))])
            else:
                rt(name, gen_fields(rng, name))
    # header-typed fields handed over as Block objects that carry transactions: the field is the header alone
    for name in NAMES:
        if any(t == "header" or (isinstance(t, list) and "header" in t) for _, t in REF[name]):
            if name == "merkleblock":
                for n in (1, 2, 5):
                    rt(name, honest_merkleblock(rng, n), "fullblock")
            else:
                for c in (1, 2, 3):
                    rt(name, gen_fields(rng, name, count=c), "fullblock")
    # every integer boundary in every integer-typed scalar field
    for name in NAMES:
        for idx, (k, t) in enumerate(REF[name]):
            if isinstance(t, str) and t in M.INT_BITS:
                for x in boundary_ints(M.INT_BITS[t]) + [2 ** M.INT_BITS[t], -1]:
                    f = gen_fields(rng, name, small=True)
                    f[idx] = (k, x)
                    rt(name, f)
    # optional trailing field: present true / present false / absent
    for r in (None, True, False):
        f = gen_fields(rng, "version", small=True)
        f[-1] = ("relay", r)
        rt("version", f)
    # 6-byte short ids: boundaries
    for x in (0, 1, 2 ** 32 - 1, 2 ** 32, 2 ** 48 - 1, 2 ** 48, 2 ** 64 - 1):
        f = gen_fields(rng, "cmpctblock", small=True)
        f[2] = ("short_ids", [x])
        rt("cmpctblock", f)
    # out-of-type values (correspondence only): wrong hash lengths, missing field, byte values out of range
    for n in (0, 31, 33, 64):
        rt("getblocks", [("version", 1), ("hashes", [rng.randbytes(n)]), ("hash_stop", rng.randbytes(32))])
        rt("getblocks", [("version", 1), ("hashes", []), ("hash_stop", rng.randbytes(n))])
    rt("ping", [])
    rt("filteradd", [("data", [256])])
    rt("filteradd", [("data", [-1])])
    rt("sendcmpct", [("enabled", 2), ("version", 1)])
    rt("sendcmpct", [("enabled", 0), ("version", 1)])
    # malformed stream: truncations / bit flips / trailing bytes of valid encodings
    for name in NAMES:
        if not REF[name]:
            continue
        for _ in range(ctx.n(80, 2500)):
            f = honest_merkleblock(rng) if name == "merkleblock" and rng.random() < 0.7 else gen_fields(rng, name, small=True)
            try:
                data = ref_pack(REF[name], f)
            except OutOfType:
                continue
            mode = rng.randrange(4)
            if mode == 0 and data:
                data = data[: rng.randrange(len(data))]
            elif mode == 1 and data:
                b = bytearray(data)
                b[rng.randrange(len(b))] ^= 1 << rng.randrange(8)
                data = bytes(b)
            elif mode == 2:
                data = data + rng.randbytes(rng.choice([1, 2, 9]))
            if hash_array_count_sane(name, data):
                emit("msg_parse %s %s" % (name, data.hex() or "-"))
