"""C10 — key and signature encodings (WIF, SEC, DER) are lossless and strict.

Ops are evaluated on the real pycoin API at the property's observation points: `network.parse.wif(key.wif())`,
`network.keys.public(sec)` (= `Key.from_sec`), `key.sec()`, `key.hash160()`, `key.address()`,
`sigdecode_der(sigencode_der(r, s))`, and the exception classes raised for malformed input.  Ops that multiply the
generator carry the arithmetic configuration (`ossl` = default, in-process; `pure` = PYCOIN_NATIVE=none, in a worker
process, because pycoin fixes the backend at import time).

Run as a script this file is that worker: one op line on stdin -> one answer line on stdout.
"""
from __future__ import annotations

import atexit
import hashlib
import importlib
import os
import pkgutil
import subprocess
import sys

sys.path.insert(0, os.path.dirname(os.path.dirname(os.path.abspath(__file__))))
import grsenv  # noqa: E402  (first: the Groestl stand-in hash must be in place before pycoin.symbols.* is imported; also in the worker)

MANIFEST = {
    "text": "Lean theorems over executable models of encoding/sec.py, key/Key.py (constructor checks, sec/hash160/address/wif), "
            "ParseAPI.wif, bitcoinish.wif_for_blob and satoshi/der.py, for all inputs: WIF round trip on every network of the generated "
            "table, the Groestlcoin family under its own checksum hash included (both compression flags, 1- and 2-byte prefixes, agreement of "
            "prefix and checksum hash between wif_for_blob and parse_b58_hashed by decide over the whole table) including the "
            "existence of the key for every exponent in [1, n-1]; SEC round trip in both forms with compression flag, hash160 and "
            "address preserved (no side condition on secp256k1: no point with y = 0); an accepted SEC blob is the unique encoding of a "
            "curve point with coordinates below p; strict and non-strict prefix/length rules exactly as coded; constructor range and "
            "on-curve checks with the documented error classes; DER round trip for all r, s >= 0 shorter than 2^64 bytes (long-form "
            "lengths included), strict decoding refuses trailing bytes after the sequence and after the second integer, sign padding "
            "exactly when the top bit is set and no other leading zero. Model tied to the code by differential correspondence on every "
            "run (both arithmetic configurations where the generator is multiplied); the driver's multiplication is proved equal to "
            "the model's.",
    "note": "The Groestlcoin family (grs, tgrs, grsrt) runs and is modelled with the stand-in of translate/grs_stub.py in place of the absent "
            "groestlcoin_hash module (which hash each code path of a network uses is probed by the translator; the theorems use only "
            "that the checksum hash yields 32 bytes). libsecp256k1 is absent: that backend is never run. sec_to_public_pair is modelled for calls that pass a "
            "generator (every caller in pycoin does).",
    "technique": "Lean 4 proof over executable models + differential correspondence model vs implementation + implementation-side "
                 "oracles (round trips, independent SEC/DER reference, hashlib)",
}
RULE = ("ops key_verify (raw DER: real signatures and every malformation of them)/key_sign_pub/key_override/key_override_pub/key_public/is_sec/key_nohier/sec_enc/sec_dec/sec_dec_c/key_from_sec/key_ctor_d/key_ctor_pair/key_addr/wif_enc/wif_dec/der_enc/der_dec/der_int/der_len/der_rdlen/"
        "der_rmint/der_rmseq; boundary corpus (every SEC blob shape of length 0..70 x prefix 0..7 x x in {0,1,p-1,p,p+1,p+k,2^256-1}; DER "
        "sign-padding and length-form boundaries, single-byte corruptions, truncations, trailing bytes; exponents 0,1,n-1,n,n+1,2^256-1; "
        "WIF on every network incl. grs/tgrs/grsrt, texts under the other checksum hash) + seeded random; distinct = distinct op line; trivial = SEC blob whose length is neither 33 nor 65")
ASSUMPTIONS = [
    "the optional groestlcoin_hash package is replaced (also where a real one is installed) by the stand-in of translate/grs_stub.py "
    "(sha256 with a prefix) in harness, worker, translator and model; of the real Groestl hash the theorems assume only that it is a "
    "function from byte strings to 32 bytes, like the stand-in",
    "libsecp256k1 is not installed; default (OpenSSL) and PYCOIN_NATIVE=none configurations are both run",
    "sec_to_public_pair is modelled with a generator argument (all callers pass one)",
    "a str is represented by its UTF-8 bytes; hash functions are the shared Lean models validated by C19",
    "the driver multiplies the generator through the model's fixed-base loop with the table built once (blinding factor 0); "
    "independence of the blinding factor is C02's theorem",
]
TRUSTED = ["harness/props/c10.py reference SEC validity test and DER encoder/walker (independent of pycoin, Python ints, hashlib)"]
KNOWN = {}

P = 2 ** 256 - 2 ** 32 - 977
N = 0xFFFFFFFFFFFFFFFFFFFFFFFFFFFFFFFEBAAEDCE6AF48A03BBFD25E8CD0364141
GX = 0x79BE667EF9DCBBAC55A06295CE870B07029BFCDB2DCE28D959F2815B16F81798
GY = 0x483ADA7726A3C4655DA4FBFC0E1108A8FD17B448A68554199C47D08FFB10D4B8


def hx(b: bytes) -> str:
    return b.hex() if b else "-"


def unhx(s: str) -> bytes:
    return b"" if s == "-" else bytes.fromhex(s)


# ------------------------------------------------------------------ evaluation on pycoin (both processes)

_NETS: dict = {}


def _load_nets():
    if _NETS:
        return
    import pycoin.symbols
    devnull = open(os.devnull, "w")
    old = sys.stdout
    sys.stdout = devnull  # grs.py prints a notice at import
    try:
        for m in sorted(x.name for x in pkgutil.iter_modules(pycoin.symbols.__path__)):
            _NETS[m] = importlib.import_module("pycoin.symbols." + m).network
    finally:
        sys.stdout = old
        devnull.close()


def nets():
    _load_nets()
    return _NETS


def _e(f):
    """value of a bytes-returning call, or !ClassName"""
    try:
        return hx(f())
    except Exception as e:  # noqa: BLE001
        return "!" + type(e).__name__


def _eaddr(f):
    try:
        v = f()
        return "None" if v is None else hx(v.encode("utf8"))
    except Exception as e:  # noqa: BLE001
        return "!" + type(e).__name__


def _key_info(key):
    return "%s %s %s" % (_e(key.sec), _e(key.hash160), _eaddr(key.address))


def _curve(name: str):
    if name == "secp256k1":
        from pycoin.ecdsa.secp256k1 import secp256k1_generator as g
    elif name == "secp256r1":
        from pycoin.ecdsa.secp256r1 import secp256r1_generator as g
    else:
        from pycoin.ecdsa.bls12_381_g1 import bls12_381_g1 as g
    return g


def eval_op(op: str) -> str:
    from pycoin.encoding.sec import public_pair_to_sec, sec_to_public_pair
    from pycoin.ecdsa.secp256k1 import secp256k1_generator
    from pycoin.satoshi import der
    a = op.split(" ")
    k = a[0]
    try:
        if k == "sec_enc":
            return "ok " + hx(public_pair_to_sec((int(a[1]), int(a[2])), compressed=a[3] == "1"))
        if k == "sec_dec":
            x, y = sec_to_public_pair(unhx(a[2]), secp256k1_generator, strict=a[1] == "1")
            return "ok %d %d" % (x, y)
        if k == "sec_dec_c":
            x, y = sec_to_public_pair(unhx(a[3]), _curve(a[1]), strict=a[2] == "1")
            return "ok %d %d" % (x, y)
        if k == "key_from_sec":
            key = nets()[a[1]].keys.public(unhx(a[2]))
            x, y = key.public_pair()
            return "ok %d %d %d %s" % (x, y, 1 if key.is_compressed() else 0, _key_info(key))
        if k == "key_ctor_d":
            key = nets()["btc"].keys.private(int(a[2]))
            x, y = key.public_pair()
            return "ok %d %d" % (x, y)
        if k == "key_ctor_pair":
            pair = (None, None) if a[1] == "inf" else (int(a[1]), int(a[2]))
            nets()["btc"].keys.public(pair)
            return "ok"
        if k == "key_addr":
            key = nets()[a[2]].keys.private(int(a[3]), is_compressed=a[4] == "1")
            return "ok " + _key_info(key)
        if k == "wif_enc":
            key = nets()[a[2]].keys.private(int(a[3]), is_compressed=a[4] == "1")
            w = key.wif()
            return "ok None" if w is None else "ok " + hx(w.encode("utf8"))
        if k == "wif_dec":
            key = nets()[a[2]].parse.wif(unhx(a[3]).decode("utf8"))
            if key is None:
                return "ok none"
            se = key.secret_exponent()
            return "ok public" if se is None else "ok %d %d" % (se, 1 if key.is_compressed() else 0)
        if k == "is_sec":
            from pycoin.encoding.sec import is_sec
            return "ok %d" % (1 if is_sec(unhx(a[1])) else 0)
        if k == "key_nohier":
            key = nets()[a[1]].keys.private(int(a[2]), is_compressed=a[3] == "1")
            return "ok %d %d %d" % (key.subkey() is key and key.subkey("0/1") is key, key.subkey_for_path("0/1H") is key,
                                    [x is key for x in key.subkeys("0-3")] == [True])
        if k == "key_verify":
            key = nets()["btc"].keys.public(unhx(a[1]))
            return "ok %d" % (1 if key.verify(unhx(a[2]), unhx(a[3])) else 0)
        if k == "key_sign_pub":
            key = nets()[a[1]].keys.public(unhx(a[2]))
            key.sign(unhx(a[3]))
            return "ok signed"
        if k == "key_override":
            key = nets()[a[2]].keys.private(int(a[4]), is_compressed=a[5] == "1")
            k2 = key.override_network(nets()[a[3]])
            w = k2.wif()
            return "ok %d %d %s" % (k2.secret_exponent(), 1 if k2.is_compressed() else 0, "None" if w is None else hx(w.encode("utf8")))
        if k == "key_override_pub":
            nets()[a[1]].keys.public(unhx(a[3])).override_network(nets()[a[2]])
            return "ok converted"
        if k == "key_public":
            flag = {"c": True, "u": False, "d": None}[a[3]]
            if a[2][0] == "s":
                item = unhx(a[2][1:])
            elif a[2] == "pinf":
                item = (None, None)
            else:
                item = tuple(int(t) for t in a[2][1:].split(","))
            key = nets()[a[1]].keys.public(item, is_compressed=flag) if flag is not None else nets()[a[1]].keys.public(item)
            x, y = key.public_pair()
            return "ok %d %d %d" % (x, y, 1 if key.is_compressed() else 0)
        if k == "der_enc":
            return "ok " + hx(der.sigencode_der(int(a[1]), int(a[2])))
        if k == "der_dec":
            r, s = der.sigdecode_der(unhx(a[2]), use_broken_open_ssl_mechanism=a[1] != "1")
            return "ok %d %d" % (r, s)
        if k == "der_int":
            return "ok " + hx(der.encode_integer(int(a[1])))
        if k == "der_len":
            return "ok " + hx(der.encode_length(int(a[1])))
        if k == "der_rdlen":
            return "ok %d %d" % der.read_length(unhx(a[1]))
        if k == "der_rmint":
            v, rest = der.remove_integer(unhx(a[2]), use_broken_open_ssl_mechanism=a[1] != "1")
            return "ok %d %s" % (v, hx(rest))
        if k == "der_rmseq":
            x, y = der.remove_sequence(unhx(a[1]))
            return "ok %s %s" % (hx(x), hx(y))
    except Exception as e:  # noqa: BLE001
        return "err " + type(e).__name__
    return "bad-op"


# ------------------------------------------------------------------ worker client (harness side)

CFG_OPS = ("key_ctor_d", "key_addr", "wif_enc", "wif_dec", "key_override")
_WORKER = None


def _spawn():
    env = dict(os.environ)
    env["PYCOIN_NATIVE"] = "none"
    p = subprocess.Popen(["/venv/bin/python", os.path.abspath(__file__)], stdin=subprocess.PIPE, stdout=subprocess.PIPE,
                         env=env, text=True, bufsize=1)
    hello = p.stdout.readline().strip()
    if not hello.startswith("worker openssl=0"):
        from lib import Infra
        raise Infra("pure-Python worker reports %r" % hello)
    return p


def _call_pure(op: str) -> str:
    global _WORKER
    if _WORKER is None or _WORKER.poll() is not None:
        _WORKER = _spawn()
    _WORKER.stdin.write(op + "\n")
    _WORKER.stdin.flush()
    ans = _WORKER.stdout.readline()
    if not ans:
        from lib import Infra
        raise Infra("pure-Python worker died on %s" % op[:200])
    return ans.rstrip("\n")


@atexit.register
def _close():
    if _WORKER is not None:
        try:
            _WORKER.stdin.close()
            _WORKER.wait(timeout=5)
        except Exception:  # noqa: BLE001
            _WORKER.kill()


def _has_openssl() -> bool:
    from pycoin.ecdsa.secp256k1 import secp256k1_generator
    return any("openssl" in c.__module__ and c.__name__ == "Optimizations" for c in type(secp256k1_generator).__mro__)


_CACHE: dict = {}
_CHECKED = []


def impl(op: str) -> str:
    r = _CACHE.get(op)
    if r is not None:
        return r
    a = op.split(" ", 2)
    if a[0] in CFG_OPS and len(a) > 1 and a[1] == "pure":
        r = _call_pure(op)
    else:
        if a[0] in CFG_OPS and not _CHECKED:
            _CHECKED.append(1)
            if not _has_openssl():
                from lib import Infra
                raise Infra("the in-process configuration is not the OpenSSL one")
        r = eval_op(op)
    if len(_CACHE) < 300000:
        _CACHE[op] = r
    return r


# ------------------------------------------------------------------ independent reference (no pycoin)

def on_curve(x: int, y: int) -> bool:
    return (y * y - x * x * x - 7) % P == 0


def ref_sec_point(blob: bytes):
    """the curve point a SEC blob is the unique encoding of, or None (SEC1 §2.3.4 restricted to the forms pycoin writes)"""
    if len(blob) == 33 and blob[0] in (2, 3):
        x = int.from_bytes(blob[1:], "big")
        if x >= P:
            return None
        alpha = (x * x * x + 7) % P
        y = pow(alpha, (P + 1) // 4, P)
        if y * y % P != alpha or y == 0:
            return None
        if (y & 1) != (blob[0] & 1):
            y = P - y
        return (x, y)
    if len(blob) == 65 and blob[0] == 4:
        x = int.from_bytes(blob[1:33], "big")
        y = int.from_bytes(blob[33:], "big")
        if x >= P or y >= P or not on_curve(x, y):
            return None
        return (x, y)
    return None


def ref_sec(x: int, y: int, comp: bool) -> bytes:
    if comp:
        return bytes([2 + (y & 1)]) + x.to_bytes(32, "big")
    return b"\x04" + x.to_bytes(32, "big") + y.to_bytes(32, "big")


def hash160(b: bytes) -> bytes:
    return hashlib.new("ripemd160", hashlib.sha256(b).digest()).digest()


_B58 = "123456789ABCDEFGHJKLMNPQRSTUVWXYZabcdefghijkmnopqrstuvwxyz"


def ref_b58check_decode(s: str, kind: str = "sha256d"):
    """payload of a Base58Check text under the checksum hash `kind` (own base58, hashlib)"""
    v = 0
    for ch in s:
        i = _B58.find(ch)
        if i < 0:
            return None
        v = v * 58 + i
    pad = len(s) - len(s.lstrip("1"))
    raw = b"\x00" * pad + (v.to_bytes((v.bit_length() + 7) // 8, "big") if v else b"")
    if len(raw) < 4 or grsenv.HASHES[kind](raw[:-4])[:4] != raw[-4:]:
        return None
    return raw[:-4]


def ref_der_len(n: int) -> bytes:
    if n < 0x80:
        return bytes([n])
    b = n.to_bytes((n.bit_length() + 7) // 8, "big")
    return bytes([0x80 | len(b)]) + b


def ref_der_int(v: int) -> bytes:
    b = v.to_bytes(max(1, (v.bit_length() + 7) // 8), "big")
    if b[0] & 0x80:
        b = b"\x00" + b
    return b"\x02" + ref_der_len(len(b)) + b


def ref_der(r: int, s: int) -> bytes:
    body = ref_der_int(r) + ref_der_int(s)
    return b"\x30" + ref_der_len(len(body)) + body


def _ref_tlv(b: bytes, i: int):
    """(tag, content start, content end) of the TLV at offset i, or None when it is cut short / not decodable"""
    if i + 2 > len(b):
        return None
    tag = b[i]
    l0 = b[i + 1]
    j = i + 2
    if l0 & 0x80:
        k = l0 & 0x7F
        if k == 0 or j + k > len(b):
            return None
        ln = int.from_bytes(b[j:j + k], "big")
        j += k
    else:
        ln = l0
    return tag, j, j + ln


def ref_der_trailing(blob: bytes):
    """'after-sequence' / 'after-integers' when a SEQUENCE of two INTEGERs is followed by extra bytes; None otherwise
    (None also for anything this walker cannot decode: no verdict)"""
    t = _ref_tlv(blob, 0)
    if t is None or t[0] != 0x30:
        return None
    _, c0, c1 = t
    if c1 < len(blob):
        return "after-sequence"
    if c1 > len(blob):
        return None
    t1 = _ref_tlv(blob[:c1], c0)
    if t1 is None or t1[0] != 0x02 or t1[2] > c1:
        return None
    t2 = _ref_tlv(blob[:c1], t1[2])
    if t2 is None or t2[0] != 0x02 or t2[2] > c1:
        return None
    if t2[2] < c1:
        return "after-integers"
    return None


# ------------------------------------------------------------------ oracle: the property on the implementation alone

def oracle(op: str, out: str):
    a = op.split(" ")
    k = a[0]
    if k == "sec_enc" and out.startswith("ok "):
        x, y, comp = int(a[1]), int(a[2]), a[3] == "1"
        if 0 <= x < P and 0 <= y < P and on_curve(x, y):
            blob = unhx(out[3:])
            if blob != ref_sec(x, y, comp):
                return "public_pair_to_sec differs from the SEC1 encoding"
            for strict in "10":
                if impl("sec_dec %s %s" % (strict, hx(blob))) != "ok %d %d" % (x, y):
                    return "SEC round trip: decode(encode(P)) != P (strict=%s)" % strict
            back = impl("key_from_sec btc " + hx(blob)).split(" ")
            if back[0] != "ok" or back[1:4] != [str(x), str(y), "1" if comp else "0"] or back[4] != hx(blob) \
                    or back[5] != hx(hash160(blob)):
                return "Key.from_sec(encode(P)) does not give back the point, the compression flag, the blob and its hash160"
    if k == "sec_dec" and a[1] == "1" and out.startswith("ok "):
        blob = unhx(a[2])
        x, y = int(out.split(" ")[1]), int(out.split(" ")[2])
        if not (0 <= x < P and 0 <= y < P):
            return "strict SEC decoding returned a coordinate outside [0, p)"
        comp = blob[:1] in (b"\x02", b"\x03")
        if impl("sec_enc %d %d %d" % (x, y, 1 if comp else 0)) != "ok " + hx(blob):
            return "an accepted SEC blob does not re-encode to itself"
        if comp and ref_sec_point(blob) != (x, y):
            return "strict SEC decoding of a compressed blob disagrees with the reference"
    if k == "sec_dec_c" and out.startswith("ok "):
        g = _curve(a[1])
        p_, a_, b_ = g._p, g._a, g._b
        x, y = int(out.split(" ")[1]), int(out.split(" ")[2])
        bc = (p_.bit_length() + 7) // 8
        blob = unhx(a[3])
        if not (0 <= x < p_ and 0 <= y < p_):
            return "SEC decoding returned a coordinate outside [0, p) on " + a[1]
        if x != int.from_bytes(blob[1:1 + bc], "big"):
            return "SEC decoding returned an x that is not the x field of the blob on " + a[1]
        if len(blob) == 1 + bc and (y * y - x * x * x - a_ * x - b_) % p_ != 0:
            return "decompressed point is not on the curve " + a[1]
        if len(blob) == 1 + bc and a[2] == "1" and (y & 1) != (blob[0] & 1):
            return "decompressed point has the wrong parity on " + a[1]
    if k == "sec_dec_c" and out.startswith("err "):
        g = _curve(a[1])
        p_, a_, b_ = g._p, g._a, g._b
        bc = (p_.bit_length() + 7) // 8
        blob = unhx(a[3])
        if len(blob) == 1 + bc and blob[0] in (2, 3):
            x = int.from_bytes(blob[1:], "big")
            alpha = (x * x * x + a_ * x + b_) % p_
            if x < p_ and alpha and pow(alpha, (p_ - 1) // 2, p_) == 1:
                return "a well-formed compressed SEC blob was refused on " + a[1]
        if len(blob) == 1 + 2 * bc and blob[0] == 4:
            if int.from_bytes(blob[1:1 + bc], "big") < p_ and int.from_bytes(blob[1 + bc:], "big") < p_:
                return "a well-formed uncompressed SEC blob was refused on " + a[1]
    if k == "is_sec":
        b = unhx(a[1])
        if (out == "ok 1") != ((len(b) == 33 and b[0] in (2, 3)) or (len(b) == 65 and b[0] == 4)):
            return "is_sec does not test for prefix 02/03 with 33 bytes or 04 with 65"
        if out == "ok 0" and impl("key_from_sec btc " + a[1]).startswith("ok "):
            return "is_sec refuses a blob Key.from_sec accepts"
    if k == "key_nohier" and out.startswith("ok ") and out != "ok 1 1 1":
        return "a plain Key's subkey()/subkey_for_path()/subkeys() is not the key itself"
    if k == "key_verify":
        # strictness seen from outside: whatever strict DER decoding refuses must be False, never an exception
        if out.startswith("err ") and ref_sec_point(unhx(a[1])) is not None:
            return "Key.verify raised %s instead of answering" % out[4:]
        if out == "ok 1":
            sig = unhx(a[3])
            d = impl("der_dec 1 " + hx(sig))
            if not d.startswith("ok "):
                return "Key.verify accepted a signature that strict DER decoding refuses"
            if ref_der_trailing(sig):
                return "Key.verify accepted a signature with bytes after the sequence or after the second integer"
    if k == "key_sign_pub" and out != "err RuntimeError" and ref_sec_point(unhx(a[2])) is not None:
        return "a public key signed (or failed otherwise than documented): " + out
    if k == "key_override" and out.startswith("ok "):
        f = out.split(" ")
        if int(f[1]) != int(a[4]):
            return "override_network changed the secret exponent"
        back = impl("wif_dec %s %s %s" % (a[1], a[3], f[3])) if f[3] != "None" else None
        if back is not None and back != "ok %s %s" % (f[1], f[2]):
            return "the WIF of the overridden key does not parse back to it on the other network"
    if k == "key_override_pub" and out != "err ValueError" and ref_sec_point(unhx(a[3])) is not None:
        return "override_network of a public key: " + out
    if k == "key_public":
        if a[2][0] == "s" and a[3] != "d" and out != "err ValueError":
            return "keys.public(sec, is_compressed=...) accepted a compression flag for SEC bytes"
        if a[2][0] == "s" and a[3] == "d" and out.startswith("ok "):
            if out != " ".join(impl("key_from_sec %s %s" % (a[1], a[2][1:])).split(" ")[:4]):
                return "keys.public(sec) differs from the key made from that SEC"
        if a[2][0] == "p" and out.startswith("ok ") and out.split(" ")[3] != ("0" if a[3] == "u" else "1"):
            return "keys.public(pair, is_compressed) did not keep the flag asked for (default compressed)"
    if k == "key_from_sec":
        blob = unhx(a[2])
        want = ref_sec_point(blob)
        if out.startswith("ok "):
            f = out.split(" ")
            if want is None:
                return "a SEC blob that is not the unique encoding of a curve point was accepted as a key"
            if (int(f[1]), int(f[2])) != want or f[3] != ("1" if len(blob) == 33 else "0"):
                return "key from SEC has the wrong point or compression flag"
            if f[4] != hx(blob):
                return "key.sec() differs from the blob the key was made from"
            if f[5] != hx(hash160(blob)):
                return "key.hash160() is not RIPEMD160(SHA256(sec))"
            net = nets()[a[1]]
            pfx = net.address._address_prefix
            if pfx is not None:
                if f[6] in ("None",) or f[6].startswith("!") or ref_b58check_decode(unhx(f[6]).decode(), grsenv.hash_kind(a[1])) != pfx + hash160(blob):
                    return "key.address() is not Base58Check(prefix + hash160) under the network's checksum hash"
        elif want is not None:
            return "a well-formed SEC blob was refused"
    if k == "key_ctor_d":
        d = int(a[2])
        if 1 <= d < N:
            if not out.startswith("ok "):
                return "secret exponent in [1, n-1] refused"
            x, y = int(out.split(" ")[1]), int(out.split(" ")[2])
            if not (0 <= x < P and 0 <= y < P and on_curve(x, y)):
                return "public pair of a private key is not a reduced curve point"
        elif out != "err InvalidSecretExponentError":
            return "secret exponent outside [1, n-1] not refused with InvalidSecretExponentError"
    if k == "key_ctor_pair":
        if a[1] == "inf":
            if out != "err InvalidPublicPairError":
                return "(None, None) not refused with InvalidPublicPairError"
        else:
            x, y = int(a[1]), int(a[2])
            if not on_curve(x, y) and out != "err InvalidPublicPairError":
                return "off-curve public pair not refused with InvalidPublicPairError"
            if on_curve(x, y) and 0 <= x < P and 0 <= y < P and out != "ok":
                return "curve point refused"
    if k == "key_addr":
        d = int(a[3])
        if 1 <= d < N:
            if not out.startswith("ok "):
                return "key_addr failed for a valid exponent"
            sec, h160, addr = out.split(" ")[1:4]
            if sec.startswith("!") or h160 != hx(hash160(unhx(sec))):
                return "hash160 of a private key is not RIPEMD160(SHA256(sec))"
            if len(unhx(sec)) != (33 if a[4] == "1" else 65):
                return "sec of a private key has the wrong form for its compression flag"
            back = impl("key_from_sec %s %s" % (a[2], sec)).split(" ")
            if back[0] != "ok" or back[3] != a[4] or back[4:7] != [sec, h160, addr]:
                return "public key does not round-trip through SEC with the same flag, hash160 and address"
            other = impl("key_ctor_d %s %d" % (a[1], d)).split(" ")
            if other[0] != "ok" or ref_sec(int(other[1]), int(other[2]), a[4] == "1") != unhx(sec):
                return "key.sec() is not the SEC1 encoding of the public pair"
    if k == "wif_enc":
        d = int(a[3])
        if 1 <= d < N:
            if not out.startswith("ok ") or out == "ok None":
                return "wif() failed for a valid exponent"
            if impl("wif_dec %s %s %s" % (a[1], a[2], out[3:])) != "ok %d %s" % (d, a[4]):
                return "WIF round trip: parse.wif(key.wif()) != (exponent, compression flag)"
            net = nets()[a[2]]
            raw = ref_b58check_decode(unhx(out[3:]).decode(), grsenv.hash_kind(a[2]))
            want = net.parse._wif_prefix + d.to_bytes(32, "big") + (b"\x01" if a[4] == "1" else b"")
            if raw != want:
                return "WIF text is not Base58Check(prefix + exponent + compression marker) under the network's checksum hash"
        elif out != "err InvalidSecretExponentError":
            return "secret exponent outside [1, n-1] not refused with InvalidSecretExponentError"
    if k == "wif_dec" and out.startswith("ok ") and out not in ("ok none", "ok public"):
        try:
            kinds = grsenv.kind_of_text(unhx(a[3]).decode("utf8"))
        except UnicodeDecodeError:
            kinds = []
        if grsenv.hash_kind(a[2]) not in kinds:
            return "parse.wif accepted a text whose checksum is not the network's checksum hash (checksum of: %s)" % (kinds or "nothing")
        d = int(out.split(" ")[1])
        if not 1 <= d < N:
            return "parse.wif returned a key whose exponent is outside [1, n-1]"
    if k == "der_enc" and out.startswith("ok "):
        r, s = int(a[1]), int(a[2])
        if r >= 0 and s >= 0:
            for strict in "10":
                if impl("der_dec %s %s" % (strict, out[3:])) != "ok %d %d" % (r, s):
                    return "DER round trip: sigdecode_der(sigencode_der(r, s)) != (r, s) (strict=%s)" % strict
            if unhx(out[3:]) != ref_der(r, s):
                return "sigencode_der differs from the reference DER encoding"
    if k == "der_enc" and out.startswith("err ") and int(a[1]) >= 0 and int(a[2]) >= 0:
        return "sigencode_der raised for non-negative integers"
    if k == "der_int" and int(a[1]) >= 0:
        if out != "ok " + hx(ref_der_int(int(a[1]))):
            return "encode_integer differs from the reference DER INTEGER (sign padding / length)"
    if k == "der_dec" and a[1] == "1" and out.startswith("ok "):
        blob = unhx(a[2])
        t = ref_der_trailing(blob)
        if t:
            return "strict DER decoding accepted trailing bytes (%s)" % t
        if not impl("der_dec 1 " + hx(blob + b"\x00")).startswith("err "):
            return "strict DER decoding accepted a trailing byte appended to an accepted signature"
    return None


def trivial(op: str) -> bool:
    a = op.split(" ")
    if a[0] in ("sec_dec", "key_from_sec"):
        return len(unhx(a[2])) not in (33, 65)
    return False


def neighbours(op, rng):
    a = op.split(" ")
    k = a[0]
    if k in ("sec_dec", "key_from_sec"):
        blob = unhx(a[2])
        for b in _sec_variants(blob):
            yield "key_from_sec btc " + hx(b)
            yield "sec_dec 1 " + hx(b)
    elif k in ("der_dec", "der_rmint", "der_rmseq", "der_rdlen"):
        blob = unhx(a[-1])
        for t in (b"\x00", b"\x01\x02"):
            yield "der_dec 1 " + hx(blob + t)
        for r, s in _DER_VALUES_SMALL:
            yield "der_enc %d %d" % (r, s)
    elif k in ("der_enc", "der_int", "der_len"):
        for r, s in _DER_VALUES_SMALL:
            yield "der_enc %d %d" % (r, s)
            yield "der_int %d" % r
    elif k in ("wif_enc", "wif_dec", "key_addr", "key_ctor_d"):
        cfg = a[1] if a[1] in ("ossl", "pure") else "ossl"
        for net in list(nets())[:8] + ["dcr", "dcrt"]:
            for c in "01":
                yield "wif_enc %s %s %d %s" % (cfg, net, 1 + rng.randrange(N - 1), c)
        for d in (0, 1, N - 1, N, N + 1, 2 ** 256 - 1):
            yield "key_ctor_d %s %d" % (cfg, d)
    elif k == "sec_enc":
        yield "sec_enc %d %d 1" % (GX, GY)
        yield "sec_enc %d %d 0" % (GX, GY)


_DER_VALUES_SMALL = [(1, 1), (0x7F, 0x80), (0x80, 0xFF), (2 ** 255, 2 ** 256 - 1), (0, 0), (2 ** 1015, 1), (1, 2 ** 1015 - 1)]


def _sec_variants(blob: bytes):
    if len(blob) >= 33:
        x = int.from_bytes(blob[1:33], "big")
        for x2 in (x + P, x - P, (x + 1) % 2 ** 256):
            if 0 <= x2 < 2 ** 256:
                yield blob[:1] + x2.to_bytes(32, "big") + blob[33:]
        for p in range(8):
            yield bytes([p]) + blob[1:]
    yield blob + b"\x00"
    yield blob[:-1]


# ------------------------------------------------------------------ generators

def y_for(x: int):
    alpha = (pow(x, 3, P) + 7) % P
    y = pow(alpha, (P + 1) // 4, P)
    return y if y * y % P == alpha and y else None


def rand_point(rng):
    while True:
        x = rng.randrange(P)
        y = y_for(x)
        if y is not None:
            return (x, y if rng.random() < 0.5 else P - y)


def small_y_points(limit=40):
    """curve points whose y is so small that y + p still fits in 32 bytes (p = 7 mod 9: cube roots by one power)"""
    res = []
    y = 1
    while len(res) < limit and y < 2000:
        a = (y * y - 7) % P
        x = pow(a, (P + 2) // 9, P)
        for w in (1, pow(2, (P - 1) // 3, P), pow(2, 2 * (P - 1) // 3, P)):
            xx = x * w % P
            if pow(xx, 3, P) == a:
                res.append((xx, y))
                break
        y += 1
    return res


def gen_keyops(ctx, emit, netnames):
    rng = ctx.rng
    btc = nets()["btc"]
    # Key.verify on raw bytes: real signatures, then every kind of malformation of their DER
    for _ in range(ctx.n(12, 400)):
        d = rng.randrange(1, N)
        key = btc.keys.private(d, is_compressed=rng.random() < 0.5)
        sec = key.sec()
        h = rng.randbytes(32)
        sig = key.sign(h)
        emit("key_verify %s %s %s" % (hx(sec), hx(h), hx(sig)))
        emit("key_verify %s %s %s" % (hx(sec), hx(rng.randbytes(32)), hx(sig)))
        emit("key_verify %s %s %s" % (hx(sec), hx(h), hx(sig + b"\x00")))                      # trailing byte after the sequence
        emit("key_verify %s %s %s" % (hx(sec), hx(h), hx(sig[:-1])))                           # truncated
        emit("key_verify %s %s %s" % (hx(sec), hx(h), hx(bytes([sig[0], sig[1] + 1]) + sig[2:] + b"\x00")))   # … inside the sequence
        emit("key_verify %s %s %s" % (hx(sec), hx(h), hx(b"\x31" + sig[1:])))                  # wrong tag
        emit("key_verify %s %s %s" % (hx(sec), hx(h), hx(sig[:2] + b"\x03" + sig[3:])))        # wrong integer tag
        r_, s_ = (int(t) for t in impl("der_dec 1 " + hx(sig))[3:].split(" "))
        emit("key_verify %s %s %s" % (hx(sec), hx(h), hx(ref_der(r_, N - s_))))               # the other s: valid
        emit("key_verify %s %s %s" % (hx(sec), hx(h), hx(ref_der(r_, s_ + N))))               # s out of range
        emit("key_verify %s %s %s" % (hx(sec), hx(h), hx(ref_der(0, s_))))
        pad = b"\x30" + bytes([len(sig) - 2 + 1]) + b"\x02" + bytes([sig[3] + 1]) + b"\x00" + sig[4:]
        emit("key_verify %s %s %s" % (hx(sec), hx(h), hx(pad)))                                # non-minimal r (leading zero)
        blob = bytearray(sig)
        blob[rng.randrange(len(blob))] ^= 1 << rng.randrange(8)
        emit("key_verify %s %s %s" % (hx(sec), hx(h), hx(bytes(blob))))
        emit("key_verify %s %s %s" % (hx(sec), hx(h), hx(rng.randbytes(rng.randrange(0, 12)))))
        emit("key_verify %s %s %s" % (hx(sec), hx(bytes(32)), hx(sig)))                        # zero hash
        emit("key_sign_pub %s %s %s" % (rng.choice(netnames), hx(sec), hx(h)))
    for b in (b"", b"\x30", b"\x30\x00", b"\x30\x02\x02\x00", b"\x30\x04\x02\x00\x02\x00", b"\x30\x06\x02\x01\x01\x02\x01\x01",
              b"\x30\x81\x06\x02\x01\x01\x02\x01\x01", b"\x30\x06\x02\x01\x81\x02\x01\x01", b"\x30\x80", b"\x30\x84\xff\xff\xff\xff"):
        emit("key_verify %s %s %s" % (hx(btc.keys.private(7).sec()), hx(b"\x11" * 32), hx(b)))
    for L in (0, 1, 32, 33, 34, 64, 65, 66):
        for pfx in range(8):
            emit("is_sec " + hx((bytes([pfx]) + rng.randbytes(70))[:L]))
    for n in rng.sample(netnames, min(6, len(netnames))):
        emit("key_nohier %s %d %d" % (n, rng.randrange(1, N), rng.randrange(2)))
    # override_network: every ordered pair of a few networks, both flags; public keys are refused
    some = [n for n in ("btc", "xtn", "ltc", "doge", "bch", "dash") if n in netnames]
    for n1 in some:
        for n2 in some:
            d = rng.choice([1, N - 1, rng.randrange(1, N)])
            for cfg in ("ossl", "pure") if (n1, n2) in (("btc", "ltc"), ("ltc", "btc")) else ("ossl",):
                emit("key_override %s %s %s %d %d" % (cfg, n1, n2, d, rng.randrange(2)))
        emit("key_override_pub %s %s %s" % (n1, rng.choice(some), hx(nets()[n1].keys.private(rng.randrange(1, N)).sec())))
    # keys.public with a compression flag
    for _ in range(ctx.n(10, 300)):
        x, y = rand_point(rng)
        for flag in "cud":
            emit("key_public btc p%d,%d %s" % (x, y, flag))
            emit("key_public %s s%s %s" % (rng.choice(netnames), hx(ref_sec(x, y, rng.random() < 0.5)), flag))
    for flag in "cud":
        emit("key_public btc pinf " + flag)
        emit("key_public btc p1,1 " + flag)
        emit("key_public btc s02 " + flag)


def gen(ctx, emit):
    rng = ctx.rng
    netnames = list(nets())
    gen_keyops(ctx, emit, netnames)

    # ---- SEC: every blob shape of length 0..70 x prefix 0..7 x boundary x
    k = rng.randrange(2, 2 ** 32 + 976)
    xs = [0, 1, P - 1, P, P + 1, P + k, 2 ** 256 - 1]
    for x in xs:
        yv = y_for(x % P)
        ys = [yv if yv is not None else rng.randrange(P)]
        xb = x.to_bytes(32, "big")
        for L in range(0, 71):
            for pfx in range(8):
                for y in ys:
                    body = (xb + y.to_bytes(32, "big") + bytes(rng.randrange(256) for _ in range(8)))[:max(0, L - 1)]
                    blob = (bytes([pfx]) + body)[:L]
                    emit("key_from_sec btc " + hx(blob))
                    if L in (32, 33, 34, 64, 65, 66) or pfx in (2, 4):
                        emit("sec_dec 1 " + hx(blob))
                        emit("sec_dec 0 " + hx(blob))
                    if L == 0:
                        break
    # valid points, both forms, parity/prefix mismatches, hybrid prefixes, y >= p
    pts = [(GX, GY), (GX, P - GY)] + [rand_point(rng) for _ in range(ctx.n(120, 3000))]
    for (x, y) in pts:
        for c in "10":
            emit("sec_enc %d %d %s" % (x, y, c))
        emit("key_ctor_pair %d %d" % (x, y))
        comp = ref_sec(x, y, True)
        unc = ref_sec(x, y, False)
        for strict in "10":
            emit("sec_dec %s %s" % (strict, hx(comp)))
            emit("sec_dec %s %s" % (strict, hx(unc)))
        emit("key_from_sec %s %s" % (rng.choice(netnames), hx(comp)))
        emit("key_from_sec %s %s" % (rng.choice(netnames), hx(unc)))
        for pfx in (0, 1, 5, 6, 7):
            for strict in "10":
                emit("sec_dec %s %s" % (strict, hx(bytes([pfx]) + comp[1:])))
                emit("sec_dec %s %s" % (strict, hx(bytes([pfx]) + unc[1:])))
        emit("key_from_sec btc " + hx(bytes([6 + (y & 1)]) + unc[1:]))
        emit("key_from_sec btc " + hx(unc[:33] + ((y + 1) % P).to_bytes(32, "big")))       # off the curve
        emit("key_ctor_pair %d %d" % (x, (y + 1) % P))
        emit("key_ctor_pair %d %d" % (x + P, y))
    for (x, y) in small_y_points(ctx.n(6, 40)):
        for yy in (y, y + P):
            blob = b"\x04" + x.to_bytes(32, "big") + yy.to_bytes(32, "big")
            emit("key_from_sec btc " + hx(blob))
            emit("sec_dec 1 " + hx(blob))
            emit("sec_dec 0 " + hx(blob))
    for x in range(1, ctx.n(40, 400)):
        # small x: x and x + p both fit in 32 bytes
        for xx in (x, x + P):
            for pfx in (2, 3):
                blob = bytes([pfx]) + xx.to_bytes(32, "big")
                emit("key_from_sec btc " + hx(blob))
                emit("sec_dec 1 " + hx(blob))
    # the same decoder with the other shipped generators (32-byte and 48-byte fields)
    for cname in ("secp256r1", "bls12_381", "secp256k1"):
        g = _curve(cname)
        p_ = g._p
        bc = (p_.bit_length() + 7) // 8
        cx = [1, 2, 3, 5, p_ - 1, p_, p_ + 1, g[0], rng.randrange(p_), rng.randrange(p_), 2 ** (8 * bc) - 1]
        for x in cx:
            xb = (x % 2 ** (8 * bc)).to_bytes(bc, "big")
            yb = (g[1] if x == g[0] else rng.randrange(p_)).to_bytes(bc, "big")
            for strict in "10":
                for pfx in (2, 3, 4, 5, 6, 7, 0):
                    emit("sec_dec_c %s %s %s" % (cname, strict, hx(bytes([pfx]) + xb)))
                    emit("sec_dec_c %s %s %s" % (cname, strict, hx(bytes([pfx]) + xb + yb)))
                emit("sec_dec_c %s %s %s" % (cname, strict, hx(b"\x02" + xb[:-1])))
                emit("sec_dec_c %s %s %s" % (cname, strict, hx(b"\x04" + xb + yb + b"\x00")))
                emit("sec_dec_c %s %s %s" % (cname, strict, hx(b"\x04" + (p_ - 1).to_bytes(bc, "big") + p_.to_bytes(bc, "big"))))
        for L in (0, 1, 32, 33, 34, 48, 49, 50, 64, 65, 66, 96, 97, 98):
            emit("sec_dec_c %s 1 %s" % (cname, hx(bytes([4 if L > 49 else 2]) * min(L, 1) + bytes(max(0, L - 1)))))
    emit("key_ctor_pair inf")
    emit("key_ctor_pair 0 0")
    emit("sec_enc %d 1 1" % (2 ** 256))
    emit("sec_enc -1 1 1")
    emit("sec_enc 1 %d 0" % (2 ** 256))
    emit("sec_enc 1 %d 1" % (2 ** 256 + 1))
    emit("sec_enc 1 -1 1")
    # random blobs of the two lengths
    for _ in range(ctx.n(300, 20000)):
        L = rng.choice((33, 65, 33, 65, rng.randrange(0, 71)))
        blob = bytes([rng.choice((2, 3, 4, 2, 3, 4, rng.randrange(256)))]) + bytes(rng.randrange(256) for _ in range(L))
        blob = blob[:L]
        emit("key_from_sec btc " + hx(blob))
        emit("sec_dec %d %s" % (rng.randrange(2), hx(blob)))

    # ---- secret exponents
    for cfg in ("ossl", "pure"):
        for d in (0, 1, 2, N - 1, N, N + 1, 2 ** 256 - 1, 2 ** 256, -1):
            emit("key_ctor_d %s %d" % (cfg, d))
            emit("wif_enc %s btc %d 1" % (cfg, d))
    for _ in range(ctx.n(8, 200)):
        d = 1 + rng.randrange(N - 1)
        emit("key_ctor_d ossl %d" % d)
        emit("key_ctor_d pure %d" % d)

    # ---- WIF on every network, both flags (2-byte prefixes: dcr, dcrt)
    def b2a_hashed_base58(payload, kind="sha256d"):
        return grsenv.b58c_enc(kind, payload)          # independent encoder, either checksum hash

    d0 = 1 + rng.randrange(N - 1)
    pure_nets = set(["btc", "dcr", "dcrt", "xtn", "grs", "tgrs"] + rng.sample(netnames, ctx.n(3, len(netnames))))
    for net in netnames:
        for c in "10":
            d = d0 if rng.random() < 0.7 else rng.choice((1, N - 1, 1 + rng.randrange(N - 1)))
            emit("wif_enc ossl %s %d %s" % (net, d, c))
            if net in pure_nets:
                emit("wif_enc pure %s %d %s" % (net, d, c))
    for net in rng.sample(netnames, ctx.n(6, len(netnames))) + ["btc", "dcr"]:
        emit("key_addr ossl %s %d %s" % (net, d0, rng.choice("01")))
        emit("key_addr pure %s %d %s" % (net, rng.choice((1, d0)), rng.choice("01")))
    # malformed WIF payloads under a valid checksum
    for net in ["btc", "dcr", "dcrt", "grs", "tgrs", "grsrt"] + rng.sample(netnames, ctx.n(3, 20)):
        n = nets()[net]
        pfx = n.parse._wif_prefix
        hk = grsenv.hash_kind(net)
        ok_ = "groestl" if hk == "sha256d" else "sha256d"
        d = 1 + rng.randrange(N - 1)
        e = d.to_bytes(32, "big")
        payloads = [e, e + b"\x01", e + b"\x00", e + b"\x02", e + b"\x07", e[:31], e[:31] + b"\x01", e + b"\x01\x01", e[:10],
                    b"", bytes(32), bytes(32) + b"\x01", N.to_bytes(32, "big"), N.to_bytes(32, "big") + b"\x01",
                    (N - 1).to_bytes(32, "big") + b"\x01", b"\xff" * 32, e + e[:8]]
        for pl in payloads:
            emit("wif_dec ossl %s %s" % (net, hx(b2a_hashed_base58(pfx + pl, hk).encode())))
        # a well-formed payload under the OTHER checksum hash (what a network of the other family writes), the same
        # version byte: refused; and the mainnet / testnet prefixes of the Groestlcoin family on each other
        for pl in (e, e + b"\x01"):
            emit("wif_dec ossl %s %s" % (net, hx(b2a_hashed_base58(pfx + pl, ok_).encode())))
            for o in ("grs", "tgrs", "btc", "xtn"):
                emit("wif_dec ossl %s %s" % (net, hx(b2a_hashed_base58(nets()[o].parse._wif_prefix + pl, grsenv.hash_kind(o)).encode())))
        # right payload, another network's prefix / a truncated 2-byte prefix
        other = nets()[rng.choice(netnames)].parse._wif_prefix
        emit("wif_dec ossl %s %s" % (net, hx(b2a_hashed_base58(other + e + b"\x01", hk).encode())))
        emit("wif_dec ossl %s %s" % (net, hx(b2a_hashed_base58(pfx[:1] + e + b"\x01", hk).encode())))
        emit("wif_dec ossl %s %s" % (net, hx(b2a_hashed_base58(pfx + pfx + e, hk).encode())))
        good = b2a_hashed_base58(pfx + e + b"\x01", hk)
        bad = good[:-1] + ("2" if good[-1] != "2" else "3")
        emit("wif_dec ossl %s %s" % (net, hx(bad.encode())))
        emit("wif_dec ossl %s %s" % (net, hx(b"not base58 0OIl")))
        emit("wif_dec ossl %s -" % net)

    # ---- DER
    vals = [0, 1, 0x7F, 0x80, 0x81, 0xFF, 0x100, 0x7FFF, 0x8000, 0xFFFF, 0x7F00, 0x8000_00, 2 ** 255 - 1, 2 ** 255, 2 ** 256 - 1,
            N - 1, N, (N - 1) // 2, (N + 1) // 2]
    for v in vals:
        emit("der_int %d" % v)
    for r in vals:
        for s in (1, 0x80, N - 1, rng.choice(vals)):
            emit("der_enc %d %d" % (r, s))
            emit("der_enc %d %d" % (s, r))
    # integers whose own length or whose sequence needs the long form
    for nbytes in (60, 61, 62, 63, 64, 125, 126, 127, 128, 129, 253, 254, 255, 256, 257, 300):
        for top in (0x01, 0x7F, 0x80, 0xFF):
            v = (top << (8 * (nbytes - 1))) | rng.getrandbits(8 * (nbytes - 1)) if nbytes > 1 else top
            emit("der_int %d" % v)
            emit("der_enc %d 1" % v)
            emit("der_enc 1 %d" % v)
    emit("der_enc %d %d" % (2 ** 1008, 2 ** 1008))
    emit("der_enc %d %d" % (2 ** 1015, 2 ** 1015))
    emit("der_enc -1 1")
    emit("der_enc 1 -1")
    emit("der_int -1")
    for l in (0, 1, 0x7F, 0x80, 0xFF, 0x100, 0xFFFF, 0x10000, 2 ** 32, 2 ** 64):
        emit("der_len %d" % l)
    for h in ("-", "00", "7f", "80", "81", "8101", "81ff", "8180", "820001", "82ffff", "8200", "ff", "84000000ff", "7f00", "830100"):
        emit("der_rdlen " + h)
    # hand-written malformed signatures
    for h in ("-", "30", "3000", "3001", "300002", "30020200", "3003020100", "300402000200", "300602010102010100", "3006020101020101",
              "3106020101020101", "3006030101020101", "3006020101030101", "30060201010201", "3006020101020201", "3005020101020101",
              "3007020101020101", "30080201010201010000", "30060281010201", "3007028101010201 01".replace(" ", ""),
              "308106020101020101", "30820006020101020101", "3080020101020101", "3006020180020180", "30060201ff0201ff",
              "300802020080020200ff", "3008020200010202007f", "30800201010201010000", "30060202010102", "02010102010130"):
        for strict in "10":
            emit("der_dec %s %s" % (strict, h))
        emit("der_rmseq " + h)
        emit("der_rmint 1 " + (h[4:] or "-"))
        emit("der_rmint 0 " + (h[4:] or "-"))
    sigs = [(1, 1), (0x80, 0x7F), (0, 0), (2 ** 255, 2 ** 255 - 1), (N - 1, (N - 1) // 2)]
    sigs += [(rng.getrandbits(256), rng.getrandbits(256)) for _ in range(ctx.n(6, 60))]
    sigs += [(rng.getrandbits(rng.choice((8, 64, 200, 255))), rng.getrandbits(rng.choice((8, 128, 248, 256)))) for _ in range(ctx.n(6, 60))]
    full = ctx.n(1, 6)
    for idx, (r, s) in enumerate(sigs):
        emit("der_enc %d %d" % (r, s))
        blob = ref_der(r, s)
        for strict in "10":
            emit("der_dec %s %s" % (strict, hx(blob)))
            # trailing bytes after the sequence
            for t in (b"\x00", b"\x01", b"\x30", bytes(rng.randrange(256) for _ in range(rng.randint(2, 5)))):
                emit("der_dec %s %s" % (strict, hx(blob + t)))
            # trailing bytes after the second integer, inside the sequence
            for t in (b"\x00", b"\x02\x01\x01", bytes(rng.randrange(256) for _ in range(rng.randint(1, 4)))):
                body = ref_der_int(r) + ref_der_int(s) + t
                emit("der_dec %s %s" % (strict, hx(b"\x30" + ref_der_len(len(body)) + body)))
            # truncations
            for cut in range(len(blob)):
                emit("der_dec %s %s" % (strict, hx(blob[:cut])))
        # single-byte corruptions: every position; every value for the first few signatures, a handful otherwise
        for i in range(len(blob)):
            if idx < full:
                repl = [v for v in range(256) if v != blob[i]]
            else:
                repl = {blob[i] ^ 1, blob[i] ^ 0x80, 0x00, 0xFF, 0x80, 0x7F, (blob[i] + 1) & 255, (blob[i] - 1) & 255, 0x02, 0x30,
                        rng.randrange(256)} - {blob[i]}
            for v in sorted(repl):
                c = blob[:i] + bytes([v]) + blob[i + 1:]
                emit("der_dec %d %s" % (rng.randrange(2) if idx < full else 1, hx(c)))
                if idx >= full and rng.random() < 0.5:
                    emit("der_dec 0 " + hx(c))
    # non-minimal and negative integers, long-form lengths on short content
    for body in ("0202000102017f", "02020080020100", "0201800201ff", "02810101020101", "0282000101020101", "020100020100"):
        b = bytes.fromhex(body)
        for strict in "10":
            emit("der_dec %s %s" % (strict, hx(b"\x30" + ref_der_len(len(b)) + b)))
            emit("der_rmint %s %s" % (strict, hx(b)))
    for _ in range(ctx.n(300, 30000)):
        L = rng.randrange(0, 14)
        b = bytes(rng.choice((0x30, 0x02, 0x00, 0x01, 0x80, 0x81, 0x7F, 0xFF, rng.randrange(256), L)) for _ in range(L))
        emit("der_dec %d %s" % (rng.randrange(2), hx(b)))
        emit("der_rmint %d %s" % (rng.randrange(2), hx(b)))
    for _ in range(ctx.n(200, 20000)):
        r = rng.getrandbits(rng.choice((1, 7, 8, 9, 15, 16, 64, 255, 256, 257, 512, 1007, 1008, 1016, 1100)))
        s = rng.getrandbits(rng.choice((1, 8, 16, 128, 255, 256, 1015, 1016)))
        emit("der_enc %d %d" % (r, s))


# ------------------------------------------------------------------ worker main

def _main():
    sys.stdout.write("worker openssl=%d\n" % (1 if _has_openssl() else 0))
    sys.stdout.flush()
    _load_nets()
    for line in sys.stdin:
        line = line.rstrip("\n")
        if not line:
            continue
        sys.stdout.write(eval_op(line) + "\n")
        sys.stdout.flush()


if __name__ == "__main__":
    _main()
