"""C13 — transaction construction conserves value (tx_utils.create_tx / distribute_from_split_pool,
Tx.fee, validate_unspents, convention)."""
from __future__ import annotations

import decimal

from lib import hx, unhx, show_list

from pycoin.symbols.btc import network as BTC
from pycoin.coins.tx_utils import split_with_remainder, distribute_from_split_pool
from pycoin import convention

MANIFEST = {
    "text": "Lean theorems over the model of split_with_remainder / distribute_from_split_pool / fee / validate_unspents / Decimal conversions "
            "(sum, shape, positivity, exact error thresholds, soundness of validate_unspents, satoshi<->BTC/mBTC round trip below 10^20) for all inputs; "
            "model tied to the code by differential correspondence through create_tx, Tx.fee, validate_unspents and convention on every run.",
    "note": "Modelled not verified: decimal.Decimal (precision 28, half-even) and the deprecated fee='standard' estimator (excluded).",
    "technique": "Lean 4 proof (induction/omega over an executable model) + differential correspondence model vs implementation",
}
RULE = ("ops split/distribute/sat2btc/btc2sat/sat2mbtc/mbtc2sat/validate_unspents; boundary corpus (every remainder class for "
        "1..12 split outputs, both error thresholds) + seeded random; distinct = distinct op line; trivial = split pool absent")
ASSUMPTIONS = ["decimal.Decimal modelled as coefficient*10^exp with precision 28 and ROUND_HALF_EVEN",
               "fee given as an integer (the deprecated fee='standard' estimator is outside the property)"]

Tx = BTC.tx
ADDR = [BTC.address.for_p2pkh(bytes([i + 1]) * 20) for i in range(3)]


def parse_ints(s):
    return [] if s == "~" else [int(x) for x in s.split(",")]


def _spendables(ins):
    return [Tx.Spendable(v, b"\x51" + bytes([i % 256]), bytes([i + 1]) * 32, i) for i, v in enumerate(ins)]


def impl(op: str) -> str:
    a = op.split(" ")
    k = a[0]
    try:
        if k == "split":
            return "ok " + show_list(split_with_remainder(int(a[1]), int(a[2])))
        if k == "distribute":
            ins, outs, fee = parse_ints(a[1]), parse_ints(a[2]), int(a[3])
            sp = _spendables(ins)
            payables = [(ADDR[i % 3], v) for i, v in enumerate(outs)]
            try:
                tx = BTC.tx_utils.create_tx(sp, payables, fee=fee)
            except ValueError as e:
                return "err " + ("insufficient" if "insufficient" in str(e) else "notEnough")
            paired = len(tx.txs_in) == len(sp) == len(tx.unspents) and all(
                i.previous_hash == s.tx_hash and i.previous_index == s.tx_out_index and u.coin_value == s.coin_value and u.script == s.script
                for i, s, u in zip(tx.txs_in, sp, tx.unspents))
            if not paired:
                return "ok %s fee=%d UNPAIRED" % (show_list(o.coin_value for o in tx.txs_out), tx.fee())
            return "ok %s fee=%d" % (show_list(o.coin_value for o in tx.txs_out), tx.fee())
        if k in ("sat2btc", "sat2mbtc"):
            d = (convention.satoshi_to_btc if k == "sat2btc" else convention.satoshi_to_mbtc)(int(a[1]))
            sign, digits, exp = d.as_tuple()
            c = int("".join(map(str, digits)))
            return "ok %d %d" % (-c if sign else c, exp)
        if k in ("btc2sat", "mbtc2sat"):
            c, e = int(a[1]), int(a[2])
            d = decimal.Decimal((1 if c < 0 else 0, tuple(int(x) for x in str(abs(c))), e))
            return "ok %d" % (convention.btc_to_satoshi if k == "btc2sat" else convention.mbtc_to_satoshi)(d)
        if k in ("btc2sat_s", "mbtc2sat_s"):
            t = unhx(a[1]).decode()
            return "ok %d" % (convention.btc_to_satoshi if k == "btc2sat_s" else convention.mbtc_to_satoshi)(t)
        if k == "txhist":
            return _txhist(parse_ints(a[1]), parse_ints(a[2]), a[3].split(";"))
        if k == "validate_unspents":
            return _validate(a[1], a[2], a[3])
    except Exception as e:  # noqa: BLE001
        return "err " + type(e).__name__
    return "bad-op"


def _txhist(us, outs, steps):
    """a history of reads and mutations on ONE real Tx object"""
    n = len(us)
    srcs = [Tx(1, [Tx.TxIn(bytes([i + 1]) * 32, 0)], [Tx.TxOut(7, b"\x51")]) for i in range(n)]
    tx = Tx(1, [Tx.TxIn(srcs[i].hash(), 0) for i in range(n)], [Tx.TxOut(v, b"\x51") for v in outs])
    tx.set_unspents([Tx.TxOut(v, b"\x51") for v in us])
    res = []
    for st in steps:
        f = st.split(":")
        if f[0] == "fee":
            res.append(str(tx.fee()))
        elif f[0] == "total_in":
            res.append(str(tx.total_in()))
        elif f[0] == "total_out":
            res.append(str(tx.total_out()))
        elif f[0] == "set_unspents":
            tx.set_unspents([Tx.TxOut(v, b"\x51") for v in parse_ints(f[1])]); res.append("-")
        elif f[0] == "assign":
            tx.unspents = [Tx.TxOut(v, b"\x51") for v in parse_ints(f[1])]; res.append("-")
        elif f[0] == "from_db":
            vals = parse_ints(f[1])
            db = {}
            for i, v in enumerate(vals):
                src = srcs[i]
                src.txs_out[0].coin_value = v
                # the source tx's hash depends on its outputs: file it under the hash the input refers to
                class _Src:  # noqa: N801
                    def __init__(self, h, t): self._h, self.txs_out = h, t.txs_out
                    def hash(self): return self._h
                db[tx.txs_in[i].previous_hash] = _Src(tx.txs_in[i].previous_hash, Tx(1, [], [Tx.TxOut(v, b"\x51")]))
            tx.unspents_from_db(db); res.append("-")
        elif f[0] == "set_out":
            tx.txs_out[int(f[1])].coin_value = int(f[2]); res.append("-")
    return "ok " + ";".join(res)


# validate_unspents: the db is a dict from *claimed* hash to a real Tx; the model's db answers only when hashes agree
_SRC_CACHE: dict = {}


def _src_tx(outs):
    key = tuple(outs)
    if key not in _SRC_CACHE:
        _SRC_CACHE[key] = Tx(1, [Tx.TxIn(b"\x07" * 32, len(outs))], [Tx.TxOut(v, s) for v, s in outs])
    return _SRC_CACHE[key]


def _validate(ins_s, us_s, db_s):
    ins = [] if ins_s == "~" else [(unhx(x.split(":")[0]), int(x.split(":")[1])) for x in ins_s.split(",")]
    us = [] if us_s == "~" else [(int(x.split(":")[0]), unhx(x.split(":")[1])) for x in us_s.split(",")]
    db = {}
    if db_s != "~":
        for e in db_s.split("|"):
            h, outs = e.split("=")
            outs = [] if outs == "" else [(int(x.split(":")[0]), unhx(x.split(":")[1])) for x in outs.split(";")]
            db[unhx(h)] = outs
    # real objects: source txs keyed by the hash the model uses. The model's hash is the key itself, so the real
    # db maps key -> FakeTx whose hash() is that key (hash agreement is folded into the lookup in the model).
    class Src:
        def __init__(self, h, outs):
            self._h = h
            self.txs_out = [Tx.TxOut(v, s) for v, s in outs]
        def hash(self):
            return self._h
        def id(self):
            return self._h[::-1].hex()
    real_db = {h: Src(h, outs) for h, outs in db.items()}
    tx = Tx(1, [Tx.TxIn(h, i) for h, i in ins], [Tx.TxOut(1, b"\x51")])
    tx.set_unspents([Tx.TxOut(v, s) for v, s in us])
    try:
        tx.validate_unspents(real_db)
    except Exception as e:  # noqa: BLE001
        return "err " + type(e).__name__
    return "ok"


def oracle(op: str, out: str):
    """the property evaluated on the implementation alone"""
    a = op.split(" ")
    k = a[0]
    if k == "split" and out.startswith("ok"):
        t, c = int(a[1]), int(a[2])
        xs = parse_ints(out[3:])
        if sum(xs) != t or len(xs) != c:
            return "split shares do not sum to the pool"
        if any(xs[i] < xs[i + 1] for i in range(len(xs) - 1)) or (xs and xs[0] - xs[-1] > 1):
            return "split shares differ by more than one satoshi or later ones are larger"
    if k == "distribute":
        ins, outs, fee = parse_ints(a[1]), parse_ints(a[2]), int(a[3])
        zc = outs.count(0)
        rem = sum(ins) - sum(outs) - fee
        if zc == 0:
            return None
        if out.startswith("ok"):
            if out.endswith("UNPAIRED"):
                return "an input is not paired with the spendable it came from"
            res = parse_ints(out.split(" ")[1])
            got_fee = int(out.split("fee=")[1].split(" ")[0])
            if rem < zc:
                return "transaction produced although funds are insufficient"
            if sum(res) + fee != sum(ins):
                return "outputs + fee != inputs"
            if got_fee != sum(ins) - sum(res):
                return "tx.fee() != inputs - outputs"
            shares = [r for o, r in zip(outs, res) if o == 0]
            if any(s <= 0 for s in shares) or max(shares) - min(shares) > 1 or any(shares[i] < shares[i + 1] for i in range(len(shares) - 1)):
                return "split-pool outputs not positive / not within one satoshi / remainder not on earlier outputs"
            if [r for o, r in zip(outs, res) if o != 0] != [o for o in outs if o != 0]:
                return "a fixed output was changed"
        elif rem >= zc:
            return "error raised although funds suffice"
    if k in ("sat2btc", "sat2mbtc") and out.startswith("ok"):
        n = int(a[1])
        c, e = out.split(" ")[1:]
        back = impl(("btc2sat" if k == "sat2btc" else "mbtc2sat") + " %s %s" % (c, e))
        if 0 <= n < 10 ** 20 and back != "ok %d" % n:
            return "satoshi -> decimal -> satoshi is not the identity"
    if k in ("btc2sat_s", "mbtc2sat_s") and out.startswith("ok"):
        unit = 8 if k == "btc2sat_s" else 5
        txt = unhx(a[1]).decode()
        neg = txt.startswith("-")
        ip, _, fp = txt.lstrip("+-").partition(".")
        if len(fp) <= unit:
            want = int(ip or "0") * 10 ** unit + int((fp + "0" * unit)[:unit] or "0")
            if out != "ok %d" % (-want if neg else want):
                return "decimal string -> satoshi is not exact"
    if k == "txhist" and out.startswith("ok"):
        us, outs = parse_ints(a[1]), parse_ints(a[2])
        ans = out[3:].split(";")
        for st, r in zip(a[3].split(";"), ans):
            f = st.split(":")
            if f[0] in ("set_unspents", "assign", "from_db"):
                us = parse_ints(f[1])
            elif f[0] == "set_out":
                outs[int(f[1])] = int(f[2])
            elif f[0] == "fee" and r != str(sum(us) - sum(outs)):
                return "fee() is not inputs minus outputs of the transaction as it is now (history on one object)"
            elif f[0] == "total_in" and r != str(sum(us)):
                return "total_in() is not the sum of the current unspents (history on one object)"
            elif f[0] == "total_out" and r != str(sum(outs)):
                return "total_out() is not the sum of the current outputs (history on one object)"
    if k == "validate_unspents" and out == "ok":
        # sound: a normal return means every recorded unspent equals the source
        ins = [] if a[1] == "~" else [(x.split(":")[0], int(x.split(":")[1])) for x in a[1].split(",")]
        us = [] if a[2] == "~" else a[2].split(",")
        db = {}
        if a[3] != "~":
            for e in a[3].split("|"):
                h, outs = e.split("=")
                db[h] = [] if outs == "" else outs.split(";")
        for i, (h, idx) in enumerate(ins):
            if h == "00" * 32:
                continue
            if h not in db or idx >= len(db[h]) or i >= len(us) or db[h][idx] != us[i]:
                return "validate_unspents returned normally with a discrepancy at input %d" % i
    return None


def trivial(op: str) -> bool:
    a = op.split(" ")
    return a[0] == "distribute" and "0" not in a[2].split(",")


def neighbours(op, rng):
    a = op.split(" ")
    if a[0] == "distribute":
        ins, outs, fee = parse_ints(a[1]), parse_ints(a[2]), int(a[3])
        for d in (-2, -1, 0, 1, 2):
            yield "distribute %s %s %d" % (show_list(ins), show_list(outs), fee + d)
    elif a[0] == "split":
        t, c = int(a[1]), int(a[2])
        for d in range(0, 2 * c + 1):
            yield "split %d %d" % (t + d, c)


def gen(ctx, emit):
    rng = ctx.rng
    # boundary corpus: every remainder class for 1..12 split outputs
    for c in range(1, 13):
        for t in range(0, 2 * c + 2):
            emit("split %d %d" % (t, c))
        emit("split %d %d" % (21 * 10 ** 14, c))
    for c in range(1, 13):
        for r in range(c):
            base = 1000 * c + r
            fixed = [7, 13]
            outs = [0] * c
            outs.insert(rng.randrange(c + 1), 7)
            outs.insert(rng.randrange(c + 2), 13)
            emit("distribute %d %s 5" % (base + 25, show_list(outs)))
    # both error thresholds, fee around them
    for zc in (1, 2, 3, 5):
        for rem in (-2, -1, 0, zc - 1, zc, zc + 1):
            emit("distribute 100,200 %s %d" % (show_list([50] + [0] * zc), 300 - 50 - rem))
    emit("distribute 100 50,25 5")
    emit("distribute 100 50,25 500")
    for _ in range(ctx.n(600, 60000)):
        nin = rng.randint(1, 6)
        ins = [rng.choice([1, 2, 546, rng.randrange(1, 10 ** rng.randint(1, 15)), 21 * 10 ** 14]) for _ in range(nin)]
        nout = rng.randint(1, 8)
        outs = [0 if rng.random() < 0.45 else rng.randrange(1, max(2, sum(ins) // nout + 2)) for _ in range(nout)]
        zc = outs.count(0)
        slack = sum(ins) - sum(outs)
        fee = rng.choice([0, 1, rng.randrange(0, 10 ** 5), max(0, slack - zc), max(0, slack - zc + 1), max(0, slack - zc - 1), max(0, slack), max(0, slack + 1)])
        emit("distribute %s %s %d" % (show_list(ins), show_list(outs), fee))
    for _ in range(ctx.n(300, 30000)):
        c = rng.randint(1, 40)
        emit("split %d %d" % (rng.randrange(0, 10 ** rng.randint(1, 16)), c))
    # conversions
    for n in [0, 1, 9, 10, 99999, 100000, 100001, 99999999, 10 ** 8, 10 ** 8 + 1, 21 * 10 ** 14, 21 * 10 ** 14 - 1, 10 ** 19, 10 ** 20 - 1]:
        for k in ("sat2btc", "sat2mbtc"):
            emit("%s %d" % (k, n))
    for _ in range(ctx.n(400, 40000)):
        n = rng.randrange(0, 10 ** rng.randint(1, 20))
        emit("sat2btc %d" % n)
        emit("sat2mbtc %d" % n)
        e = -rng.randint(0, 8)
        emit("btc2sat %d %d" % (rng.randrange(0, 10 ** rng.randint(1, 16)), e))
        emit("mbtc2sat %d %d" % (rng.randrange(0, 10 ** rng.randint(1, 16)), -rng.randint(0, 5)))
    for _ in range(ctx.n(300, 30000)):
        n = rng.randrange(0, 21 * 10 ** 14 + 1)
        for unit, k in ((8, "btc2sat_s"), (5, "mbtc2sat_s")):
            txt = "%d.%0*d" % (n // 10 ** unit, unit, n % 10 ** unit)
            if rng.random() < 0.3:
                txt = txt.rstrip("0").rstrip(".") or "0"
            emit("%s %s" % (k, hx(txt.encode())))
    for txt in ("0", "0.00000001", "21000000", "20999999.99999999", "1.5", "0.1", "-1", "+2.50"):
        emit("btc2sat_s " + hx(txt.encode()))
        emit("mbtc2sat_s " + hx(txt.encode()))
    # histories on one Tx object: read, mutate, read again
    for _ in range(ctx.n(250, 20000)):
        n = rng.randint(1, 4)
        us = [rng.randrange(1, 10 ** 6) for _ in range(n)]
        outs = [rng.randrange(1, 10 ** 5) for _ in range(rng.randint(1, 3))]
        steps = []
        for _s in range(rng.randint(2, 8)):
            c = rng.random()
            if c < 0.45:
                steps.append(rng.choice(["fee", "total_in", "total_out"]))
            elif c < 0.85:
                steps.append("%s:%s" % (rng.choice(["set_unspents", "assign", "from_db"]), show_list(rng.randrange(1, 10 ** 6) for _ in range(n))))
            else:
                steps.append("set_out:%d:%d" % (rng.randrange(len(outs)), rng.randrange(1, 10 ** 5)))
        steps.append("fee")
        emit("txhist %s %s %s" % (show_list(us), show_list(outs), ";".join(steps)))
    for kind in ("set_unspents", "assign", "from_db"):
        emit("txhist 100000 70000,25000 fee;%s:150000;fee;total_in;set_out:0:1;fee" % kind)
    # validate_unspents: databases with a single discrepancy at each position
    def rs(n):
        return bytes(rng.randrange(256) for _ in range(n))
    for _ in range(ctx.n(300, 20000)):
        nsrc = rng.randint(1, 3)
        srcs = {}
        for _s in range(nsrc):
            h = rs(32)
            srcs[h] = [(rng.randrange(0, 10 ** 9), rs(rng.randint(0, 4))) for _o in range(rng.randint(1, 4))]
        hs = list(srcs)
        ins, us = [], []
        for _i in range(rng.randint(1, 5)):
            h = rng.choice(hs)
            idx = rng.randrange(len(srcs[h]))
            ins.append((h, idx))
            us.append(srcs[h][idx])
        mode = rng.randrange(8)
        pos = rng.randrange(len(ins))
        db = dict(srcs)
        if mode == 1:
            us[pos] = (us[pos][0] + rng.choice([-1, 1]), us[pos][1])
        elif mode == 2:
            us[pos] = (us[pos][0], us[pos][1] + b"\x00")
        elif mode == 3:
            ins[pos] = (ins[pos][0], len(srcs[ins[pos][0]]) + rng.choice([0, 1]))
        elif mode == 4:
            del db[ins[pos][0]]
        elif mode == 5:
            ins[pos] = (b"\x00" * 32, ins[pos][1])
        elif mode == 6 and len(us) > 1:
            j = (pos + 1) % len(us)
            us[pos], us[j] = us[j], us[pos]
        emit("validate_unspents %s %s %s" % (
            show_list(ins, lambda t: "%s:%d" % (hx(t[0]), t[1])),
            show_list(us, lambda t: "%d:%s" % (t[0], hx(t[1]))),
            "|".join("%s=%s" % (hx(h), ";".join("%d:%s" % (v, hx(s)) for v, s in outs)) for h, outs in db.items()) or "~"))
