"""C13 — transaction construction conserves value (tx_utils.create_tx / distribute_from_split_pool,
Tx.fee, validate_unspents, convention)."""
from __future__ import annotations

import decimal

from lib import hx, unhx, show_list

from pycoin.symbols.btc import network as BTC
from pycoin.coins.tx_utils import split_with_remainder, distribute_from_split_pool
from pycoin import convention
from pycoin.convention import tx_fee
from pycoin.coins.tx_utils import SecretExponentMissing  # noqa: F401

MANIFEST = {
    "text": "Lean theorems over the model of split_with_remainder / distribute_from_split_pool / fee / validate_unspents / Decimal conversions "
            "(sum, shape, positivity, exact error thresholds, soundness of validate_unspents, satoshi<->BTC/mBTC round trip below 10^20) for all inputs; "
            "model tied to the code by differential correspondence through create_tx, Tx.fee, validate_unspents and convention on every run. "
            "Second part (Model/TxBuild.lean): recommended_fee_for_tx (exact formula, monotone), create_tx as a whole with fee='standard', spendables given as "
            "text/dict and bare-address payables (conservation, pairing, error thresholds, independence of the form), create_signed_tx (SecretExponentMissing), "
            "total_in/fee with coinbase inputs and missing unspents as histories on one object, validate_unspents against a database that answers with "
            "a transaction of another hash.",
    "note": "Modelled not verified: decimal.Decimal (precision 28, half-even); the signing inside create_signed_tx is C05's (here: solved iff the key was supplied).",
    "technique": "Lean 4 proof (induction/omega over an executable model) + differential correspondence model vs implementation",
}
RULE = ("ops split/distribute/sat2btc/btc2sat/sat2mbtc/mbtc2sat/validate_unspents/validate_unspents_h (also after the same transaction validated with faithful records: faithful_then)/recfee_n/recfee/ctx/csigned/txhist/txhist2; "
        "boundary corpus (every remainder class for 1..12 split outputs, both error thresholds, sizes around every started thousand of bytes, "
        "coinbase / None / wrong-count unspents, db answering with another hash) + seeded random; distinct = distinct op line; "
        "trivial = split pool absent")
ASSUMPTIONS = ["decimal.Decimal modelled as coefficient*10^exp with precision 28 and ROUND_HALF_EVEN",
               "create_signed_tx: inputs are pay-to-public-key-hash outputs; whether an input is solved is C05's statement, C13 models only the verdict"]

Tx = BTC.tx
ADDR = [BTC.address.for_p2pkh(bytes([i + 1]) * 20) for i in range(3)]


def parse_ints(s):
    return [] if s == "~" else [int(x) for x in s.split(",")]


def _spendables(ins):
    return [Tx.Spendable(v, b"\x51" + bytes([i % 256]), bytes([i + 1]) * 32, i) for i, v in enumerate(ins)]


_SERVICES_DONE = []


def _exercise_services():
    """use pycoin's own service layer in this process (no network: the HTTP layer of the chain.so provider is replaced by a
    canned reply; the other provider modules are imported): nothing it does may change what the conversions answer"""
    if _SERVICES_DONE:
        return
    _SERVICES_DONE.append(1)
    import importlib, io, json, pkgutil
    import pycoin.services as SV
    for m in pkgutil.iter_modules(SV.__path__):
        try:
            importlib.import_module("pycoin.services." + m.name)
        except Exception:  # noqa: BLE001  (optional dependencies)
            pass
    try:
        from pycoin.services import chain_so
        reply = {"data": {"txs": [{"txid": "ab" * 32, "output_no": 0, "script_hex": "76a914" + "11" * 20 + "88ac", "value": "0.29000000"}]}}
        chain_so.urlopen = lambda url: io.BytesIO(json.dumps(reply).encode("utf8"))
        chain_so.ChainSoProvider("BTC").spendables_for_address("1BgGZ9tcN4rm9KBzDn7KprQz87SZ26SAMH")
    except Exception:  # noqa: BLE001  (the provider's own behaviour is not what C13 speaks about)
        pass


def impl(op: str) -> str:
    a = op.split(" ")
    k = a[0]
    if k == "services_then":
        _exercise_services()
        return impl(op.split(" ", 1)[1])
    if k == "faithful_then":
        _faithful_first(a[1:])
        return impl(op.split(" ", 1)[1])
    try:
        if k == "split":
            return "ok " + show_list(split_with_remainder(int(a[1]), int(a[2])))
        if k == "distribute":
            ins, outs, fee = parse_ints(a[1]), parse_ints(a[2]), int(a[3])
            sp = _spendables(ins)
            payables = [(ADDR[i % 3], v) for i, v in enumerate(outs)]
            try:
                tx = BTC.tx_utils.create_tx(sp, payables, fee=fee)
            except ValueError as e:
                return "err " + ("insufficient" if "insufficient" in str(e) else "notEnough")
            paired = len(tx.txs_in) == len(sp) == len(tx.unspents) and all(
                i.previous_hash == s.tx_hash and i.previous_index == s.tx_out_index and u.coin_value == s.coin_value and u.script == s.script
                for i, s, u in zip(tx.txs_in, sp, tx.unspents))
            if not paired:
                return "ok %s fee=%d UNPAIRED" % (show_list(o.coin_value for o in tx.txs_out), tx.fee())
            return "ok %s fee=%d" % (show_list(o.coin_value for o in tx.txs_out), tx.fee())
        if k in ("sat2btc", "sat2mbtc"):
            d = (convention.satoshi_to_btc if k == "sat2btc" else convention.satoshi_to_mbtc)(int(a[1]))
            sign, digits, exp = d.as_tuple()
            c = int("".join(map(str, digits)))
            return "ok %d %d" % (-c if sign else c, exp)
        if k in ("btc2sat", "mbtc2sat"):
            c, e = int(a[1]), int(a[2])
            d = decimal.Decimal((1 if c < 0 else 0, tuple(int(x) for x in str(abs(c))), e))
            return "ok %d" % (convention.btc_to_satoshi if k == "btc2sat" else convention.mbtc_to_satoshi)(d)
        if k in ("btc2sat_s", "mbtc2sat_s"):
            t = unhx(a[1]).decode()
            return "ok %d" % (convention.btc_to_satoshi if k == "btc2sat_s" else convention.mbtc_to_satoshi)(t)
        if k == "txhist":
            return _txhist(parse_ints(a[1]), parse_ints(a[2]), a[3].split(";"))
        if k == "validate_unspents":
            return _validate(a[1], a[2], a[3])
        if k == "validate_unspents_h":
            return _validate_h(a[1], a[2], a[3], a[4])
        if k == "recfee_n":
            return "ok %d" % tx_fee.recommended_fee_for_tx(_Blob(int(a[1])))
        if k == "recfee":
            return "ok %d" % tx_fee.recommended_fee_for_tx(Tx.from_hex(a[1]))
        if k == "ctx":
            return _ctx(a[1], a[2], a[3])
        if k == "chain":
            return _chain(a[1], a[2], a[3], a[4], a[5])
        if k == "csigned":
            return _csigned(a[1], parse_ints(a[2]), parse_ints(a[3]), a[4], parse_ints(a[5]))
        if k == "txhist2":
            return _txhist2(a[1], a[2], parse_ints(a[3]), a[4].split(";"))
    except Exception as e:  # noqa: BLE001
        return "err " + type(e).__name__
    return "bad-op"


def _txhist(us, outs, steps):
    """a history of reads and mutations on ONE real Tx object"""
    n = len(us)
    srcs = [Tx(1, [Tx.TxIn(bytes([i + 1]) * 32, 0)], [Tx.TxOut(7, b"\x51")]) for i in range(n)]
    tx = Tx(1, [Tx.TxIn(srcs[i].hash(), 0) for i in range(n)], [Tx.TxOut(v, b"\x51") for v in outs])
    tx.set_unspents([Tx.TxOut(v, b"\x51") for v in us])
    res = []
    for st in steps:
        f = st.split(":")
        if f[0] == "fee":
            res.append(str(tx.fee()))
        elif f[0] == "total_in":
            res.append(str(tx.total_in()))
        elif f[0] == "total_out":
            res.append(str(tx.total_out()))
        elif f[0] == "set_unspents":
            tx.set_unspents([Tx.TxOut(v, b"\x51") for v in parse_ints(f[1])]); res.append("-")
        elif f[0] == "assign":
            tx.unspents = [Tx.TxOut(v, b"\x51") for v in parse_ints(f[1])]; res.append("-")
        elif f[0] == "from_db":
            vals = parse_ints(f[1])
            db = {}
            for i, v in enumerate(vals):
                src = srcs[i]
                src.txs_out[0].coin_value = v
                # the source tx's hash depends on its outputs: file it under the hash the input refers to
                class _Src:  # noqa: N801
                    def __init__(self, h, t): self._h, self.txs_out = h, t.txs_out
                    def hash(self): return self._h
                db[tx.txs_in[i].previous_hash] = _Src(tx.txs_in[i].previous_hash, Tx(1, [], [Tx.TxOut(v, b"\x51")]))
            tx.unspents_from_db(db); res.append("-")
        elif f[0] == "set_out":
            tx.txs_out[int(f[1])].coin_value = int(f[2]); res.append("-")
    return "ok " + ";".join(res)


# validate_unspents: the db is a dict from *claimed* hash to a real Tx; the model's db answers only when hashes agree
_SRC_CACHE: dict = {}


def _src_tx(outs):
    key = tuple(outs)
    if key not in _SRC_CACHE:
        _SRC_CACHE[key] = Tx(1, [Tx.TxIn(b"\x07" * 32, len(outs))], [Tx.TxOut(v, s) for v, s in outs])
    return _SRC_CACHE[key]


def _faithful_first(a):
    """history prefix `faithful_then validate_unspents[_h] …`: the SAME transaction (same inputs and outputs, hence the same id)
    is validated in this process with the records the database dictates, before the operation itself runs with the records
    it names; a verdict must not be remembered under an identity that leaves the recorded unspents out"""
    try:
        ins = [] if a[1] == "~" else [(unhx(x.split(":")[0]), int(x.split(":")[1])) for x in a[1].split(",")]
        if a[0] == "validate_unspents":
            db = {}
            for e in ([] if a[3] == "~" else a[3].split("|")):
                h, outs = e.split("=")
                db[unhx(h)] = [] if outs == "" else [x for x in outs.split(";")]
            us = ",".join(db[h][i] for h, i in ins)
            _validate(a[1], us or "~", a[3])
        else:
            db = _parse_dbh(a[4])
            us = ",".join("%d:%s" % (db[h][1][i][0], hx(db[h][1][i][1])) for h, i in ins)
            _validate_h(a[1], us or "~", a[3], a[4])
    except Exception:  # noqa: BLE001   (an input the database cannot answer for: no faithful version exists)
        pass


def _validate(ins_s, us_s, db_s):
    ins = [] if ins_s == "~" else [(unhx(x.split(":")[0]), int(x.split(":")[1])) for x in ins_s.split(",")]
    us = [] if us_s == "~" else [(int(x.split(":")[0]), unhx(x.split(":")[1])) for x in us_s.split(",")]
    db = {}
    if db_s != "~":
        for e in db_s.split("|"):
            h, outs = e.split("=")
            outs = [] if outs == "" else [(int(x.split(":")[0]), unhx(x.split(":")[1])) for x in outs.split(";")]
            db[unhx(h)] = outs
    # real objects: source txs keyed by the hash the model uses. The model's hash is the key itself, so the real
    # db maps key -> FakeTx whose hash() is that key (hash agreement is folded into the lookup in the model).
    class Src:
        def __init__(self, h, outs):
            self._h = h
            self.txs_out = [Tx.TxOut(v, s) for v, s in outs]
        def hash(self):
            return self._h
        def id(self):
            return self._h[::-1].hex()
    real_db = {h: Src(h, outs) for h, outs in db.items()}
    tx = Tx(1, [Tx.TxIn(h, i) for h, i in ins], [Tx.TxOut(1, b"\x51")])
    tx.set_unspents([Tx.TxOut(v, s) for v, s in us])
    try:
        tx.validate_unspents(real_db)
    except Exception as e:  # noqa: BLE001
        return "err " + type(e).__name__
    return "ok"



# ---------------------------------------------------------------- second part (Model/TxBuild.lean)
ZERO32 = b"\0" * 32


class _Blob:
    """something whose stream() writes n bytes: recommended_fee_for_tx only looks at the size"""
    def __init__(self, n): self.n = n
    def stream(self, f): f.write(b"\0" * self.n)


def _vi(n):
    return 1 if n < 253 else 3 if n < 65536 else 5 if n < 2 ** 32 else 9


def _draft_size(nin, scripts):
    """size of the unsigned draft create_tx estimates the standard fee on (by the wire format, not by pycoin)"""
    return 4 + _vi(nin) + 41 * nin + _vi(len(scripts)) + sum(8 + _vi(len(s)) + len(s) for s in scripts) + 4


def _fee_arg(s):
    return "standard" if s == "std" else int(s)


def _value_err(e):
    return "err " + ("insufficient" if "insufficient" in str(e) else "notEnough")


def _parse_sps(s):
    res = []
    for it in ([] if s == "~" else s.split(",")):
        f, v, sc, h, i = it.split(":")
        res.append((f, int(v), unhx(sc), unhx(h), int(i)))
    return res


def _parse_pays(s):
    res = []
    for it in ([] if s == "~" else s.split(",")):
        f, v, sc = it.split(":")
        res.append((f, int(v), unhx(sc)))
    return res


def _payables(pays):
    out = []
    for f, v, sc in pays:
        addr = BTC.address.for_script(sc)
        out.append(addr if f == "b" else (addr, v))
    return out


def _ctx(fee_s, sps_s, pays_s):
    sps, pays = _parse_sps(sps_s), _parse_pays(pays_s)
    objs = [Tx.Spendable(v, sc, h, i) for _f, v, sc, h, i in sps]
    given = [o if f == "o" else o.as_text() if f == "t" else o.as_dict() for (f, *_), o in zip(sps, objs)]
    try:
        tx = BTC.tx_utils.create_tx(given, _payables(pays), fee=_fee_arg(fee_s))
    except ValueError as e:
        return _value_err(e)
    us = tx.unspents
    paired = len(tx.txs_in) == len(objs) == len(us) and len(tx.txs_out) == len(pays) and all(
        i.previous_hash == o.tx_hash and i.previous_index == o.tx_out_index and i.script == b"" and i.sequence == 0xFFFFFFFF
        and u.coin_value == o.coin_value and u.script == o.script and u.tx_hash == o.tx_hash and u.tx_out_index == o.tx_out_index
        for i, o, u in zip(tx.txs_in, objs, us)) and all(t.script == p[2] for t, p in zip(tx.txs_out, pays)) \
        and tx.version == 1 and tx.lock_time == 0
    return "ok %s fee=%d in=%s us=%s%s" % (
        show_list(o.coin_value for o in tx.txs_out), tx.fee(),
        show_list(tx.txs_in, lambda i: "%s:%d" % (hx(i.previous_hash), i.previous_index)),
        show_list(u.coin_value for u in us), "" if paired else " UNPAIRED")


def _chain_srcs(srcs_s):
    return [Tx(1, [Tx.TxIn(bytes([j + 1]) * 32, j)], [Tx.TxOut(int(o.split(":")[0]), unhx(o.split(":")[1])) for o in e.split(";")])
            for j, e in enumerate(srcs_s.split("|"))]


def _chain(srcs_s, picks_s, pays_s, fee_s, tamper):
    srcs = _chain_srcs(srcs_s)
    avail = [t.tx_outs_as_spendable() for t in srcs]
    sps = [avail[int(p.split(":")[0])][int(p.split(":")[1])] for p in picks_s.split(",")]
    try:
        tx = BTC.tx_utils.create_tx(sps, _payables(_parse_pays(pays_s)), fee=_fee_arg(fee_s))
    except ValueError as e:
        return _value_err(e)
    if tamper != "-":
        k, dv = tamper.split(":")
        u = tx.unspents[int(k)]
        tx.unspents[int(k)] = Tx.TxOut(u.coin_value + int(dv), u.script)
    fee = tx.validate_unspents({t.hash(): t for t in srcs})
    return "ok %s fee=%d" % (show_list(o.coin_value for o in tx.txs_out), fee)


_KEYS: dict = {}


def _key(k):
    if k not in _KEYS:
        key = BTC.keys.private(k + 1)
        _KEYS[k] = (key.wif(), BTC.contract.for_p2pkh(key.hash160()))
    return _KEYS[k]


def _csigned(fee_s, ins, keys, pays_s, supplied):
    pays = _parse_pays(pays_s)
    objs = [Tx.Spendable(v, _key(k)[1], bytes([i + 1]) * 32, i) for i, (v, k) in enumerate(zip(ins, keys))]
    try:
        tx = BTC.tx_utils.create_signed_tx(objs, _payables(pays), wifs=[_key(k)[0] for k in supplied], fee=_fee_arg(fee_s))
    except ValueError as e:
        return _value_err(e)
    bad = tx.bad_solution_count()
    return "ok %s fee=%d%s" % (show_list(o.coin_value for o in tx.txs_out), tx.fee(), " UNSOLVED" if bad else "")


def _opt_ints(s):
    return [] if s == "~" else [None if x == "n" else int(x) for x in s.split(",")]


class _Src:
    def __init__(self, h, outs): self._h, self.txs_out = h, outs
    def hash(self): return self._h
    def id(self): return self._h[::-1].hex()


def _mk_tx(cb, us, outs):
    tx = Tx(1, [Tx.TxIn(ZERO32, 0xFFFFFFFF) if c else Tx.TxIn(bytes([i + 1]) * 32, 0) for i, c in enumerate(cb)],
            [Tx.TxOut(v, b"\x51") for v in outs])
    tx.unspents = [None if v is None else Tx.TxOut(v, b"\x51") for v in us]
    return tx


def _hstep(tx, st):
    f = st.split(":")
    if f[0] == "fee":
        return str(tx.fee())
    if f[0] == "total_in":
        return str(tx.total_in())
    if f[0] == "total_out":
        return str(tx.total_out())
    if f[0] == "set_unspents":
        tx.set_unspents([None if v is None else Tx.TxOut(v, b"\x51") for v in _opt_ints(f[1])]); return "-"
    if f[0] == "assign":
        tx.unspents = [None if v is None else Tx.TxOut(v, b"\x51") for v in _opt_ints(f[1])]; return "-"
    if f[0] == "from_db":
        db = {}
        for i, v in enumerate(_opt_ints(f[1])):
            if v is not None and i < len(tx.txs_in):
                h = tx.txs_in[i].previous_hash
                db[h] = _Src(h, [Tx.TxOut(v, b"\x51")])
        tx.unspents_from_db(db, ignore_missing=(f[2] == "1")); return "-"
    if f[0] == "set_out":
        tx.txs_out[int(f[1])].coin_value = int(f[2]); return "-"
    raise ValueError("bad step")


def _txhist2(cb_s, us_s, outs, steps):
    cb = [x == "1" for x in ([] if cb_s == "~" else cb_s.split(","))]
    tx = _mk_tx(cb, _opt_ints(us_s), outs)
    res = []
    for st in steps:
        try:
            res.append(_hstep(tx, st))
        except Exception as e:  # noqa: BLE001
            res.append(type(e).__name__)
    return "ok " + ";".join(res)


def _parse_dbh(db_s):
    db = {}
    if db_s != "~":
        for e in db_s.split("|"):
            k, h, outs = e.split("=")
            db[unhx(k)] = (unhx(h), [] if outs == "" else [(int(x.split(":")[0]), unhx(x.split(":")[1])) for x in outs.split(";")])
    return db


def _validate_h(ins_s, us_s, outs_s, db_s):
    ins = [] if ins_s == "~" else [(unhx(x.split(":")[0]), int(x.split(":")[1])) for x in ins_s.split(",")]
    us = [] if us_s == "~" else [(int(x.split(":")[0]), unhx(x.split(":")[1])) for x in us_s.split(",")]
    real_db = {k: _Src(h, [Tx.TxOut(v, s) for v, s in outs]) for k, (h, outs) in _parse_dbh(db_s).items()}
    tx = Tx(1, [Tx.TxIn(h, i) for h, i in ins], [Tx.TxOut(v, b"\x51") for v in parse_ints(outs_s)])
    tx.set_unspents([Tx.TxOut(v, s) for v, s in us])
    return "ok %d" % tx.validate_unspents(real_db)


def oracle(op: str, out: str):
    """the property evaluated on the implementation alone"""
    a = op.split(" ")
    k = a[0]
    if k in ("services_then", "faithful_then"):
        return oracle(op.split(" ", 1)[1], out)
    if k == "split" and out.startswith("ok"):
        t, c = int(a[1]), int(a[2])
        xs = parse_ints(out[3:])
        if sum(xs) != t or len(xs) != c:
            return "split shares do not sum to the pool"
        if any(xs[i] < xs[i + 1] for i in range(len(xs) - 1)) or (xs and xs[0] - xs[-1] > 1):
            return "split shares differ by more than one satoshi or later ones are larger"
    if k == "distribute":
        ins, outs, fee = parse_ints(a[1]), parse_ints(a[2]), int(a[3])
        zc = outs.count(0)
        rem = sum(ins) - sum(outs) - fee
        if zc == 0:
            return None
        if out.startswith("ok"):
            if out.endswith("UNPAIRED"):
                return "an input is not paired with the spendable it came from"
            res = parse_ints(out.split(" ")[1])
            got_fee = int(out.split("fee=")[1].split(" ")[0])
            if rem < zc:
                return "transaction produced although funds are insufficient"
            if sum(res) + fee != sum(ins):
                return "outputs + fee != inputs"
            if got_fee != sum(ins) - sum(res):
                return "tx.fee() != inputs - outputs"
            shares = [r for o, r in zip(outs, res) if o == 0]
            if any(s <= 0 for s in shares) or max(shares) - min(shares) > 1 or any(shares[i] < shares[i + 1] for i in range(len(shares) - 1)):
                return "split-pool outputs not positive / not within one satoshi / remainder not on earlier outputs"
            if [r for o, r in zip(outs, res) if o != 0] != [o for o in outs if o != 0]:
                return "a fixed output was changed"
        elif rem >= zc:
            return "error raised although funds suffice"
    if k in ("sat2btc", "sat2mbtc") and out.startswith("ok"):
        n = int(a[1])
        c, e = out.split(" ")[1:]
        back = impl(("btc2sat" if k == "sat2btc" else "mbtc2sat") + " %s %s" % (c, e))
        if 0 <= n < 10 ** 20 and back != "ok %d" % n:
            return "satoshi -> decimal -> satoshi is not the identity"
    if k in ("btc2sat_s", "mbtc2sat_s") and out.startswith("ok"):
        unit = 8 if k == "btc2sat_s" else 5
        txt = unhx(a[1]).decode()
        neg = txt.startswith("-")
        ip, _, fp = txt.lstrip("+-").partition(".")
        if len(fp) <= unit:
            want = int(ip or "0") * 10 ** unit + int((fp + "0" * unit)[:unit] or "0")
            if out != "ok %d" % (-want if neg else want):
                return "decimal string -> satoshi is not exact"
    if k == "txhist" and out.startswith("ok"):
        us, outs = parse_ints(a[1]), parse_ints(a[2])
        ans = out[3:].split(";")
        for st, r in zip(a[3].split(";"), ans):
            f = st.split(":")
            if f[0] in ("set_unspents", "assign", "from_db"):
                us = parse_ints(f[1])
            elif f[0] == "set_out":
                outs[int(f[1])] = int(f[2])
            elif f[0] == "fee" and r != str(sum(us) - sum(outs)):
                return "fee() is not inputs minus outputs of the transaction as it is now (history on one object)"
            elif f[0] == "total_in" and r != str(sum(us)):
                return "total_in() is not the sum of the current unspents (history on one object)"
            elif f[0] == "total_out" and r != str(sum(outs)):
                return "total_out() is not the sum of the current outputs (history on one object)"
    if k == "validate_unspents" and out == "ok":
        # sound: a normal return means every recorded unspent equals the source
        ins = [] if a[1] == "~" else [(x.split(":")[0], int(x.split(":")[1])) for x in a[1].split(",")]
        us = [] if a[2] == "~" else a[2].split(",")
        db = {}
        if a[3] != "~":
            for e in a[3].split("|"):
                h, outs = e.split("=")
                db[h] = [] if outs == "" else outs.split(";")
        for i, (h, idx) in enumerate(ins):
            if h == "00" * 32:
                continue
            if h not in db or idx >= len(db[h]) or i >= len(us) or db[h][idx] != us[i]:
                return "validate_unspents returned normally with a discrepancy at input %d" % i
    r2 = _oracle2(a, k, out)
    if r2:
        return r2
    return None


def _ceil_fee(n):
    return tx_fee.TX_FEE_PER_THOUSAND_BYTES * (-(-n // 1000))


def _split_check(ins, pays_v, res, fee, got_fee):
    zc = pays_v.count(0)
    if sum(res) + fee != sum(ins):
        return "outputs + fee != inputs"
    if got_fee != sum(ins) - sum(res):
        return "tx.fee() != inputs - outputs"
    shares = [r for o, r in zip(pays_v, res) if o == 0]
    if any(x <= 0 for x in shares) or max(shares) - min(shares) > 1 or any(shares[i] < shares[i + 1] for i in range(len(shares) - 1)):
        return "split-pool outputs not positive / not within one satoshi / remainder not on earlier outputs"
    if [r for o, r in zip(pays_v, res) if o != 0] != [o for o in pays_v if o != 0]:
        return "a fixed output was changed"
    if zc == 0:
        return None
    return None


def _oracle2(a, k, out):
    if k == "recfee_n" and out.startswith("ok"):
        if int(out[3:]) != _ceil_fee(int(a[1])):
            return "recommended fee is not the rate times the started thousands of bytes"
    if k == "recfee" and out.startswith("ok"):
        if int(out[3:]) != _ceil_fee(len(a[1]) // 2):
            return "recommended fee is not the rate times the started thousands of bytes of the serialised transaction"
    if k in ("ctx", "csigned"):
        if k == "ctx":
            sps, pays = _parse_sps(a[2]), _parse_pays(a[3])
            ins = [v for _f, v, *_ in sps]
        else:
            ins, pays = parse_ints(a[2]), _parse_pays(a[4])
        pays_v = [0 if f == "b" else v for f, v, _s in pays]
        fee = _ceil_fee(_draft_size(len(ins), [s_ for _f, _v, s_ in pays])) if a[1] == "std" else int(a[1])
        zc = pays_v.count(0)
        rem = sum(ins) - sum(pays_v) - fee
        missing = k == "csigned" and not set(parse_ints(a[3])) <= set(parse_ints(a[5]))
        if out.startswith("ok"):
            if "UNPAIRED" in out:
                return "an input is not paired with the spendable it came from (or an output script / version / lock time is not the one asked for)"
            if "UNSOLVED" in out:
                return "create_signed_tx returned a transaction with an unsolved input"
            if missing:
                return "create_signed_tx returned although a key was not supplied"
            f = out.split(" ")
            res = parse_ints(f[1])
            got_fee = int(f[2].split("=")[1])
            if k == "ctx":
                want_in = show_list(sps, lambda t: "%s:%d" % (hx(t[3]), t[4]))
                if f[3] != "in=" + want_in or f[4] != "us=" + show_list(ins):
                    return "inputs / unspents are not the spendables in order"
            if zc:
                if rem < zc:
                    return "transaction produced although funds are insufficient"
                return _split_check(ins, pays_v, res, fee, got_fee)
            if res != pays_v:
                return "a fixed output was changed"
        elif zc and rem >= zc and not (missing and out == "err SecretExponentMissing"):
            return "error raised although funds suffice"
        elif not zc and not (missing and out == "err SecretExponentMissing"):
            return "error raised although no output was left unspecified"
    if k == "chain":
        srcs = [[int(o.split(":")[0]) for o in e.split(";")] for e in a[1].split("|")]
        ins = [srcs[int(p.split(":")[0])][int(p.split(":")[1])] for p in a[2].split(",")]
        pays_v = [0 if f == "b" else v for f, v, _s in _parse_pays(a[3])]
        if out.startswith("ok"):
            if a[5] != "-" and int(a[5].split(":")[1]) != 0:
                return "validate_unspents returned normally although a recorded amount differs from the source transaction"
            res = parse_ints(out.split(" ")[1])
            got = int(out.split("fee=")[1])
            if got != sum(ins) - sum(res):
                return "validate_unspents does not return the real inputs minus outputs"
            if pays_v.count(0) and a[4] != "std" and got != int(a[4]):
                return "fee of the built transaction is not the fee asked for"
        elif out == "err BadSpendableError" and (a[5] == "-" or int(a[5].split(":")[1]) == 0):
            return "spendables taken from the source transactions themselves were rejected"
    if k == "txhist2" and out.startswith("ok"):
        cb = [x == "1" for x in ([] if a[1] == "~" else a[1].split(","))]
        us, outs = _opt_ints(a[2]), parse_ints(a[3])
        for st, r in zip(a[4].split(";"), out[3:].split(";")):
            f = st.split(":")
            if f[0] in ("fee", "total_in", "total_out"):
                fresh = _mk_tx(cb, us, outs)
                try:
                    want = _hstep(fresh, st)
                except Exception as e:  # noqa: BLE001
                    want = type(e).__name__
                if r != want:
                    return "%s() on the object with a history differs from a fresh object with the same fields" % f[0]
                if r.lstrip("-").isdigit() and not cb == [True]:
                    if f[0] == "total_out":
                        if int(r) != sum(outs):
                            return "total_out() is not the sum of the current outputs"
                        continue
                    if len(us) != len(cb) or any(u is None for u in us):
                        return "%s() returned although an unspent is missing" % f[0]
                    want_v = {"fee": sum(us) - sum(outs), "total_in": sum(us), "total_out": sum(outs)}[f[0]]
                    if int(r) != want_v:
                        return "%s() is not computed from the current unspents and outputs" % f[0]
            elif r == "-":
                if f[0] in ("set_unspents", "assign"):
                    us = _opt_ints(f[1])
                elif f[0] == "from_db":
                    found = _opt_ints(f[1])
                    us = [None if c else (found[i] if i < len(found) else None) for i, c in enumerate(cb)]
                elif f[0] == "set_out":
                    outs[int(f[1])] = int(f[2])
    if k == "validate_unspents_h" and out.startswith("ok"):
        ins = [] if a[1] == "~" else [(unhx(x.split(":")[0]), int(x.split(":")[1])) for x in a[1].split(",")]
        us = [] if a[2] == "~" else [(int(x.split(":")[0]), unhx(x.split(":")[1])) for x in a[2].split(",")]
        db = _parse_dbh(a[4])
        for i, (h, idx) in enumerate(ins):
            if h == ZERO32:
                continue
            if h not in db or db[h][0] != h or idx >= len(db[h][1]) or i >= len(us) or db[h][1][idx] != us[i]:
                return "validate_unspents returned normally with a discrepancy at input %d (missing / other hash / other output)" % i
        if not (len(ins) == 1 and ins[0] == (ZERO32, 0xFFFFFFFF)) and int(out[3:]) != sum(v for v, _s in us) - sum(parse_ints(a[3])):
            return "validate_unspents does not return inputs minus outputs"
    return None


def trivial(op: str) -> bool:
    a = op.split(" ")
    if a[0] == "ctx":
        return not any(f == "b" or v == 0 for f, v, _s in _parse_pays(a[3]))
    return a[0] == "distribute" and "0" not in a[2].split(",")


def neighbours(op, rng):
    a = op.split(" ")
    if a[0] == "services_then":
        return
    if a[0] == "distribute":
        ins, outs, fee = parse_ints(a[1]), parse_ints(a[2]), int(a[3])
        for d in (-2, -1, 0, 1, 2):
            yield "distribute %s %s %d" % (show_list(ins), show_list(outs), fee + d)
    elif a[0] == "split":
        t, c = int(a[1]), int(a[2])
        for d in range(0, 2 * c + 1):
            yield "split %d %d" % (t + d, c)
    elif a[0] == "recfee_n":
        n = int(a[1])
        for d in (0, 1, 999, 1000, 1001):
            yield "recfee_n %d" % (n - n % 1000 + d)
    elif a[0] in ("ctx", "csigned") and a[1] != "std":
        for d in (-2, -1, 0, 1, 2):
            yield " ".join([a[0], str(max(0, int(a[1]) + d))] + a[2:])


def gen(ctx, emit):
    rng = ctx.rng
    # boundary corpus: every remainder class for 1..12 split outputs
    for c in range(1, 13):
        for t in range(0, 2 * c + 2):
            emit("split %d %d" % (t, c))
        emit("split %d %d" % (21 * 10 ** 14, c))
    for c in range(1, 13):
        for r in range(c):
            base = 1000 * c + r
            fixed = [7, 13]
            outs = [0] * c
            outs.insert(rng.randrange(c + 1), 7)
            outs.insert(rng.randrange(c + 2), 13)
            emit("distribute %d %s 5" % (base + 25, show_list(outs)))
    # both error thresholds, fee around them
    for zc in (1, 2, 3, 5):
        for rem in (-2, -1, 0, zc - 1, zc, zc + 1):
            emit("distribute 100,200 %s %d" % (show_list([50] + [0] * zc), 300 - 50 - rem))
    emit("distribute 100 50,25 5")
    emit("distribute 100 50,25 500")
    for _ in range(ctx.n(600, 60000)):
        nin = rng.randint(1, 6)
        ins = [rng.choice([1, 2, 546, rng.randrange(1, 10 ** rng.randint(1, 15)), 21 * 10 ** 14]) for _ in range(nin)]
        nout = rng.randint(1, 8)
        outs = [0 if rng.random() < 0.45 else rng.randrange(1, max(2, sum(ins) // nout + 2)) for _ in range(nout)]
        zc = outs.count(0)
        slack = sum(ins) - sum(outs)
        fee = rng.choice([0, 1, rng.randrange(0, 10 ** 5), max(0, slack - zc), max(0, slack - zc + 1), max(0, slack - zc - 1), max(0, slack), max(0, slack + 1)])
        emit("distribute %s %s %d" % (show_list(ins), show_list(outs), fee))
    for _ in range(ctx.n(300, 30000)):
        c = rng.randint(1, 40)
        emit("split %d %d" % (rng.randrange(0, 10 ** rng.randint(1, 16)), c))
    # conversions
    for n in [0, 1, 9, 10, 99999, 100000, 100001, 99999999, 10 ** 8, 10 ** 8 + 1, 21 * 10 ** 14, 21 * 10 ** 14 - 1, 10 ** 19, 10 ** 20 - 1]:
        for k in ("sat2btc", "sat2mbtc"):
            emit("%s %d" % (k, n))
    for _ in range(ctx.n(400, 40000)):
        n = rng.randrange(0, 10 ** rng.randint(1, 20))
        emit("sat2btc %d" % n)
        emit("sat2mbtc %d" % n)
        e = -rng.randint(0, 8)
        emit("btc2sat %d %d" % (rng.randrange(0, 10 ** rng.randint(1, 16)), e))
        emit("mbtc2sat %d %d" % (rng.randrange(0, 10 ** rng.randint(1, 16)), -rng.randint(0, 5)))
    for _ in range(ctx.n(300, 30000)):
        n = rng.randrange(0, 21 * 10 ** 14 + 1)
        for unit, k in ((8, "btc2sat_s"), (5, "mbtc2sat_s")):
            txt = "%d.%0*d" % (n // 10 ** unit, unit, n % 10 ** unit)
            if rng.random() < 0.3:
                txt = txt.rstrip("0").rstrip(".") or "0"
            emit("%s %s" % (k, hx(txt.encode())))
    for txt in ("0", "0.00000001", "21000000", "20999999.99999999", "1.5", "0.1", "-1", "+2.50"):
        emit("btc2sat_s " + hx(txt.encode()))
        emit("mbtc2sat_s " + hx(txt.encode()))
    # histories on one Tx object: read, mutate, read again
    for _ in range(ctx.n(250, 20000)):
        n = rng.randint(1, 4)
        us = [rng.randrange(1, 10 ** 6) for _ in range(n)]
        outs = [rng.randrange(1, 10 ** 5) for _ in range(rng.randint(1, 3))]
        steps = []
        for _s in range(rng.randint(2, 8)):
            c = rng.random()
            if c < 0.45:
                steps.append(rng.choice(["fee", "total_in", "total_out"]))
            elif c < 0.85:
                steps.append("%s:%s" % (rng.choice(["set_unspents", "assign", "from_db"]), show_list(rng.randrange(1, 10 ** 6) for _ in range(n))))
            else:
                steps.append("set_out:%d:%d" % (rng.randrange(len(outs)), rng.randrange(1, 10 ** 5)))
        steps.append("fee")
        emit("txhist %s %s %s" % (show_list(us), show_list(outs), ";".join(steps)))
    for kind in ("set_unspents", "assign", "from_db"):
        emit("txhist 100000 70000,25000 fee;%s:150000;fee;total_in;set_out:0:1;fee" % kind)
    # validate_unspents: databases with a single discrepancy at each position
    def rs(n):
        return bytes(rng.randrange(256) for _ in range(n))
    for _ in range(ctx.n(300, 20000)):
        nsrc = rng.randint(1, 3)
        srcs = {}
        for _s in range(nsrc):
            h = rs(32)
            srcs[h] = [(rng.randrange(0, 10 ** 9), rs(rng.randint(0, 4))) for _o in range(rng.randint(1, 4))]
        hs = list(srcs)
        ins, us = [], []
        for _i in range(rng.randint(1, 5)):
            h = rng.choice(hs)
            idx = rng.randrange(len(srcs[h]))
            ins.append((h, idx))
            us.append(srcs[h][idx])
        mode = rng.randrange(8)
        pos = rng.randrange(len(ins))
        db = dict(srcs)
        if mode in (1, 2, 4, 6):
            # history: the same transaction (same id: neither recorded unspents nor the database are part of it) validates
            # with faithful records FIRST, in this process; the verdict on the tampered records must not remember that
            emit("validate_unspents %s %s %s" % (
                show_list(ins, lambda t: "%s:%d" % (hx(t[0]), t[1])),
                show_list(us, lambda t: "%d:%s" % (t[0], hx(t[1]))),
                "|".join("%s=%s" % (hx(h), ";".join("%d:%s" % (v, hx(s)) for v, s in outs)) for h, outs in db.items()) or "~"),
                "faithful-then-tampered")
        if mode == 1:
            us[pos] = (us[pos][0] + rng.choice([-1, 1]), us[pos][1])
        elif mode == 2:
            us[pos] = (us[pos][0], us[pos][1] + b"\x00")
        elif mode == 3:
            ins[pos] = (ins[pos][0], len(srcs[ins[pos][0]]) + rng.choice([0, 1]))
        elif mode == 4:
            del db[ins[pos][0]]
        elif mode == 5:
            ins[pos] = (b"\x00" * 32, ins[pos][1])
        elif mode == 6 and len(us) > 1:
            j = (pos + 1) % len(us)
            us[pos], us[j] = us[j], us[pos]
        emit("%svalidate_unspents %s %s %s" % ("faithful_then " if mode in (1, 2, 6) and rng.random() < 0.5 else "",
            show_list(ins, lambda t: "%s:%d" % (hx(t[0]), t[1])),
            show_list(us, lambda t: "%d:%s" % (t[0], hx(t[1]))),
            "|".join("%s=%s" % (hx(h), ";".join("%d:%s" % (v, hx(s)) for v, s in outs)) for h, outs in db.items()) or "~"))

    _gen2(ctx, emit)
    # ---- last: the conversions once more AFTER the library's own service layer was used in this process (ambient state such as
    # the thread's decimal context must not have been touched by it)
    for v in (0, 1, 99999999, 100000001, 123456789, 987654321, 2099999999999999, 2100000000000000, 10 ** 15 + 1):
        emit("services_then sat2btc %d" % v, "after-services")
        emit("services_then sat2mbtc %d" % v, "after-services")
    for txt in ("1.23456789", "0.00000001", "20999999.99999999", "1234.56789", "21000000"):
        emit("services_then btc2sat_s " + hx(txt.encode()), "after-services")
        emit("services_then mbtc2sat_s " + hx(txt.encode()), "after-services")


SCRIPTS = [b"\x76\xa9\x14" + bytes([7]) * 20 + b"\x88\xac", b"\xa9\x14" + bytes([8]) * 20 + b"\x87",
           b"\x00\x14" + bytes([9]) * 20, b"\x00\x20" + bytes([10]) * 32, b"\x51\x20" + bytes([11]) * 32]


def _gen2(ctx, emit):
    rng = ctx.rng
    # recommended fee: every started thousand, both sides
    for base in (0, 1000, 2000, 10000, 99000, 100000, 999000, 1000000):
        for d in (-1, 0, 1, 2, 500, 998, 999):
            if base + d >= 0:
                emit("recfee_n %d" % (base + d))
    for _ in range(ctx.n(150, 10000)):
        emit("recfee_n %d" % rng.choice([rng.randrange(0, 5000), rng.randrange(0, 4 * 10 ** 6), 1000 * rng.randrange(0, 4000) + rng.choice([0, 1, 999])]))

    def rs(n):
        return bytes(rng.randrange(256) for _ in range(n))

    def real_tx(nin, nout, wit, pad=0):
        tx = Tx(rng.choice([1, 2]), [Tx.TxIn(rs(32), rng.randrange(4), rs(rng.randrange(0, 120))) for _ in range(nin)],
                [Tx.TxOut(rng.randrange(0, 10 ** 12), rng.choice(SCRIPTS)) for _ in range(nout)] + ([Tx.TxOut(0, b"\x6a" + rs(pad))] if pad else []), rng.randrange(0, 3))
        if wit:
            for i in tx.txs_in:
                i.witness = [rs(rng.randrange(0, 80)) for _ in range(rng.randrange(0, 3))]
        return tx
    for _ in range(ctx.n(60, 3000)):
        emit("recfee " + real_tx(rng.randint(1, 12), rng.randint(1, 6), rng.random() < 0.4).as_hex())
    # sizes exactly at a started thousand: pad an OP_RETURN output
    for target in (999, 1000, 1001, 1999, 2000, 2001):
        base = real_tx(2, 1, False)
        n0 = len(base.as_bin())
        pad = target - n0 - 8 - 3 - 1      # value, 3-byte length prefix (253 ≤ len), OP_RETURN
        base.txs_out.append(Tx.TxOut(0, b"\x6a" + rs(pad)))
        if len(base.as_bin()) == target:
            emit("recfee " + base.as_hex())

    def sp_items(vals, forms="o"):
        return show_list(list(enumerate(vals)), lambda t: "%s:%d:%s:%s:%d" % (
            rng.choice(forms), t[1], hx(b"\x51" + bytes([t[0] % 256])), hx(bytes([(t[0] % 255) + 1]) * 32), t[0]))

    def pay_items(vals, bare=0.0):
        return show_list(list(enumerate(vals)), lambda t: "%s:%d:%s" % (
            "b" if t[1] == 0 and rng.random() < bare else "p", t[1], hx(rng.choice(SCRIPTS))))
    # create_tx with the standard fee: drafts on both sides of each started thousand (41 bytes per input)
    for nin in (1, 2, 22, 23, 24, 25, 46, 47, 48, 49, 50, 72, 73, 74):
        for outs in ([0], [0, 0, 0], [5000, 0], [700]):
            emit("ctx std %s %s" % (sp_items([50000] * nin), pay_items(outs)))
    for zc in (1, 2, 3):
        for rem in (-1, 0, zc - 1, zc, zc + 1):
            emit("ctx std %s %s" % (sp_items([10000 + 50 + rem]), pay_items([50] + [0] * zc)))
    for forms in ("t", "d", "otd"):
        emit("ctx 5 %s %s" % (sp_items([100, 2 ** 40, 21 * 10 ** 14], forms), pay_items([0, 7, 0], 1.0)))
    for _ in range(ctx.n(250, 20000)):
        nin = rng.choice([1, 2, 3, rng.randint(1, 80)])
        ins = [rng.choice([1, 546, 20000, rng.randrange(1, 10 ** rng.randint(1, 15))]) for _ in range(nin)]
        nout = rng.randint(1, 6)
        outs = [0 if rng.random() < 0.5 else rng.randrange(1, max(2, sum(ins) // nout + 2)) for _ in range(nout)]
        zc, slack = outs.count(0), sum(ins) - sum(outs)
        fee = rng.choice(["std", "std", 0, rng.randrange(0, 10 ** 5), max(0, slack - zc), max(0, slack - zc + 1), max(0, slack)])
        emit("ctx %s %s %s" % (fee, sp_items(ins, rng.choice(["o", "otd", "t", "d"])), pay_items(outs, rng.choice([0.0, 0.5, 1.0]))))
    # source transactions -> tx_outs_as_spendable -> create_tx -> validate_unspents against the sources (real hashes)
    for _ in range(ctx.n(60, 3000)):
        srcs = [[(rng.randrange(1, 10 ** 7), rng.choice(SCRIPTS)) for _o in range(rng.randint(1, 3))] for _s in range(rng.randint(1, 3))]
        picks = list({(j, i) for j, i in ((rng.randrange(len(srcs)), 0) for _p in range(rng.randint(1, 3))) for i in [rng.randrange(len(srcs[j]))]})
        rng.shuffle(picks)
        total = sum(srcs[j][i][0] for j, i in picks)
        outs = [0 if rng.random() < 0.6 else rng.randrange(1, max(2, total // 3)) for _o in range(rng.randint(1, 3))]
        fee = rng.choice(["std", 0, rng.randrange(0, 1000)])
        tam = "-" if rng.random() < 0.5 else "%d:%d" % (rng.randrange(len(picks)), rng.choice([-1, 1, 0, 1000]))
        emit("chain %s %s %s %s %s" % ("|".join(";".join("%d:%s" % (v, hx(sc)) for v, sc in so) for so in srcs),
                                       show_list(picks, lambda t: "%d:%d" % t), pay_items(outs, 0.3), fee, tam))
    # create_signed_tx
    emit("csigned 10 1000,2000 0,1 p:0:%s 0,1" % hx(SCRIPTS[0]))
    emit("csigned 10 1000,2000 0,1 p:0:%s 0" % hx(SCRIPTS[0]))
    emit("csigned 10 1000,2000 0,1 p:0:%s ~" % hx(SCRIPTS[0]))
    emit("csigned std 100000,2000 0,0 p:0:%s,p:70:%s 0" % (hx(SCRIPTS[1]), hx(SCRIPTS[2])))
    emit("csigned 3001 1000,2000 0,1 p:0:%s 0" % hx(SCRIPTS[0]))
    for _ in range(ctx.n(40, 1500)):
        nin = rng.randint(1, 3)
        ins = [rng.randrange(600, 10 ** 7) for _ in range(nin)]
        keys = [rng.randrange(4) for _ in range(nin)]
        sup = sorted(set(keys)) if rng.random() < 0.6 else sorted(set(rng.randrange(4) for _ in range(rng.randint(0, 3))))
        outs = [0 if rng.random() < 0.6 else rng.randrange(1, 500) for _ in range(rng.randint(1, 3))]
        fee = rng.choice(["std", 0, 100, max(0, sum(ins) - sum(outs) - outs.count(0) + rng.choice([0, 1]))])
        emit("csigned %s %s %s %s %s" % (fee, show_list(ins), show_list(keys), pay_items(outs, 0.3), show_list(sup)))
    # histories with coinbase inputs, None unspents, wrong counts
    def ol(xs):
        return show_list(xs, lambda v: "n" if v is None else str(v))
    emit("txhist2 1 ~ 50,1 fee;total_in;total_out;set_out:0:9;fee")
    emit("txhist2 1 ~ ~ total_in;fee")
    emit("txhist2 0,0 5,n 3 total_in;fee;assign:5,6;fee;from_db:4,n:1;fee;from_db:4,n:0;fee;from_db:4,8:0;fee")
    emit("txhist2 0,0 5 3 fee;set_unspents:1,2,3;fee;set_unspents:1,2;fee;assign:1,2,3;total_in")
    emit("txhist2 0,1 5,7 3 fee;from_db:4,9:0;fee;total_in")
    emit("txhist2 1,1 5,7 3 fee;from_db:4,9:0;fee")
    emit("txhist2 ~ ~ 3 fee;total_in;total_out")
    for _ in range(ctx.n(300, 20000)):
        n = rng.randint(1, 3)
        cb = [rng.random() < (0.5 if n == 1 else 0.15) for _ in range(n)]

        def uslist(m=None):
            m = n if m is None else m
            return [None if rng.random() < 0.15 else rng.randrange(1, 10 ** 6) for _ in range(m)]
        outs = [rng.randrange(1, 10 ** 5) for _ in range(rng.randint(1, 3))]
        steps = []
        for _s in range(rng.randint(2, 8)):
            c = rng.random()
            if c < 0.4:
                steps.append(rng.choice(["fee", "total_in", "total_out"]))
            elif c < 0.6:
                steps.append("from_db:%s:%d" % (ol(uslist()), rng.randrange(2)))
            elif c < 0.85:
                steps.append("%s:%s" % (rng.choice(["set_unspents", "assign"]), ol(uslist(rng.choice([n, n, n, n - 1, n + 1])))))
            else:
                steps.append("set_out:%d:%d" % (rng.randrange(len(outs)), rng.randrange(1, 10 ** 5)))
        steps += ["fee", "total_in"]
        emit("txhist2 %s %s %s %s" % (show_list(int(c) for c in cb), ol(uslist(rng.choice([n, n, n + 1, n - 1]))), show_list(outs), ";".join(steps)))
    # validate_unspents: a database that answers with a transaction of another hash, several discrepancies at once
    for _ in range(ctx.n(300, 20000)):
        srcs = {}
        for _s in range(rng.randint(1, 3)):
            srcs[rs(32)] = [(rng.randrange(0, 10 ** 9), rs(rng.randint(0, 4))) for _o in range(rng.randint(1, 4))]
        hs = list(srcs)
        ins, us = [], []
        for _i in range(rng.randint(1, 4)):
            h = rng.choice(hs); idx = rng.randrange(len(srcs[h]))
            ins.append((h, idx)); us.append(srcs[h][idx])
        db = {h: (h, outs) for h, outs in srcs.items()}
        outs_v = [rng.randrange(1, 1000) for _ in range(rng.randint(1, 2))]
        if rng.random() < 0.5:
            # the faithful records first (same transaction id as the tampered ones that may follow): see the first generator
            emit("validate_unspents_h %s %s %s %s" % (
                show_list(ins, lambda t: "%s:%d" % (hx(t[0]), t[1])),
                show_list(us, lambda t: "%d:%s" % (t[0], hx(t[1]))), show_list(outs_v),
                "|".join("%s=%s=%s" % (hx(k), hx(h), ";".join("%d:%s" % (v, hx(s_)) for v, s_ in outs)) for k, (h, outs) in db.items()) or "~"),
                "faithful-then-tampered")
        for _m in range(rng.choice([0, 1, 1, 1, 2])):
            mode, pos = rng.randrange(8), rng.randrange(len(ins))
            h = ins[pos][0]
            if mode == 0 and h in db:
                db[h] = (rs(32), db[h][1])                      # the db answers with another transaction
            elif mode == 1 and h in db:
                other = rng.choice(hs)
                db[h] = (other, srcs[other])                      # … with another transaction it really has
            elif mode == 2:
                us[pos] = (us[pos][0] + rng.choice([-1, 1]), us[pos][1])
            elif mode == 3:
                us[pos] = (us[pos][0], us[pos][1] + b"\x00")
            elif mode == 4 and h in srcs:
                ins[pos] = (h, len(srcs[h]) + rng.choice([0, 1]))
            elif mode == 5:
                db.pop(h, None)
            elif mode == 6:
                ins[pos] = (ZERO32, rng.choice([ins[pos][1], 0xFFFFFFFF]))
            # mode 7: nothing
        if rng.random() < 0.05:
            ins, us = [(ZERO32, 0xFFFFFFFF)], us[:1]
        emit("%svalidate_unspents_h %s %s %s %s" % ("faithful_then " if rng.random() < 0.3 else "",
            show_list(ins, lambda t: "%s:%d" % (hx(t[0]), t[1])),
            show_list(us, lambda t: "%d:%s" % (t[0], hx(t[1]))),
            show_list(outs_v),
            "|".join("%s=%s=%s" % (hx(k), hx(h), ";".join("%d:%s" % (v, hx(s_)) for v, s_ in outs)) for k, (h, outs) in db.items()) or "~"))
