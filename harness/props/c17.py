"""C17 — signed text messages verify for the signer only and never crash the verifier.

Ops are evaluated on the real API at the observe_at points `network.msg.sign / verify / parse_signed /
pair_for_message_hash` (+ `hash_for_signing`), in both arithmetic configurations: `openssl` in this process, `pure`
(`PYCOIN_NATIVE=none`) in a worker process (this file run as a script).  Every text argument is the hex of its UTF-8
bytes.  The oracles use an arithmetic of their own (`_Ref`, plain affine secp256k1 written here) and hashlib/binascii.
"""
from __future__ import annotations

import atexit
import base64
import binascii
import hashlib
import os
import re
import subprocess
import sys

MANIFEST = {
    "text": "Lean theorems over an executable model of MessageSigner (hash_for_signing, signature_for_message_hash, "
            "_decode_signature, pair_for_message_hash, pair_matches_key, verify_message, signature_template, parse_sections, "
            "parse_signed_message) and of binascii base64: digest layout with the network magic from the generated table; "
            "65-byte compact layout and its base64 round trip; sign-then-verify by key and by address; recovered key is the "
            "signer; the recovered pair is a function of (signature, hash), so any other key or hash160 fails; other messages "
            "under collision resistance of double SHA-256 (explicit hypothesis); armoured text parses back under the property's "
            "hypotheses; verify of the repaired code is total. Model tied to the code by differential correspondence in both "
            "arithmetic configurations on every run; oracles with independent arithmetic evaluate the property on the implementation.",
    "note": "Recovery facts (complete / total / injective in z mod n, at every abscissa x < p with x != 0 mod n, no torsion "
            "hypothesis) are proved in Proofs/RecoverX.lean on top of C01/C02; C17_recover_is_signer, C17_sign_then_verify and "
            "C17_verify_total are hypothesis-free on curves satisfying MsgCurveOk (proved for secp256k1). Only "
            "C17_other_message_partial keeps a hypothesis: the two digests differ mod n (collision resistance of double SHA-256). "
            "Unforgeability is not claimed. libsecp256k1 absent. The armour round trip is proved for messages without armour marker "
            "lines, with one newline style, not ending in a lone CR. History ops (msg_history) run call sequences on shared objects "
            "in a new process per sequence, networks created in a chosen order, and compare every answer with a process that has "
            "made no other call.",
    "technique": "Lean 4 proof over an executable model + differential correspondence model vs implementation per backend + "
                 "independent reference (hashlib, binascii, own secp256k1 arithmetic) as oracle",
}
RULE = ("ops msg_hash/msg_sign/msg_verify/msg_verify_h/msg_recover/armour/parse_armour/msg_history/c17_b64* on networks btc xtn ltc doge dash axe "
        "btcd zec xmy in configurations pure and openssl; boundary corpus (header bytes 0..255, r,s in {0, no-point, n-1, n, n+1, "
        "p-1, p, 2^256-1}, recovery ids 2/3 with x = r+n, infinity recovery, lengths != 65, base64 padding variants, non-base64, "
        "non-ASCII) + seeded random; distinct = distinct op line; trivial = base64 codec ops")
ASSUMPTIONS = [
    "collision resistance of double SHA-256 ('another message fails' is proved for another digest; equal digests are the assumption)",
    "ECDSA unforgeability is not claimed: 'any other key fails' is proved as uniqueness of the recovered key",
    "binascii.a2b_base64 / b2a_base64 (CPython 3.12, non-strict) are modelled, validated against binascii on every run",
    "a Python str is a list of Unicode scalar values (lone surrogates excluded); str.lower/upper/strip modelled on the characters that matter",
    "libsecp256k1 is not installed: that backend is never run",
    "armour round trip: message has one newline style (no CRLF, or CRLF throughout), no line matching the signature marker, and does not end with CR",
    "addresses given to verify are texts that parse.address recognises (an unparsable address raises AttributeError: outside the quantifier)",
]
TRUSTED = ["harness/props/c17.py: _Ref (affine secp256k1 + public-key recovery written from SEC 1 §4.1.6), ref_hash (hashlib)"]

NETS = ("btc", "xtn", "ltc", "doge", "dash", "axe", "btcd", "zec", "xmy")
CONFIGS = ("openssl", "pure")


def hx(b: bytes) -> str:
    return b.hex() if b else "-"


def unhx(s: str) -> bytes:
    return b"" if s == "-" else bytes.fromhex(s)


def tx(s: str) -> str:
    """text -> op argument"""
    return hx(s.encode("utf8"))


def untx(s: str) -> str:
    return unhx(s).decode("utf8")


# ------------------------------------------------------------------ evaluation on pycoin (both processes)

_NET: dict = {}


def _net(name):
    n = _NET.get(name)
    if n is None:
        import importlib
        n = _NET[name] = importlib.import_module("pycoin.symbols." + name).network
    return n


_KEYS: dict = {}


def _key(net, spec):
    k = _KEYS.get((net.symbol, spec))
    if k is None:
        a = spec.split(":")
        if a[0] == "k":
            k = net.keys.private(int(a[1]), is_compressed=a[2] == "1")
        elif a[0] == "p":
            x, y = a[1].split(",")
            k = net.keys.public((int(x), int(y)))
        elif a[0] == "a":
            k = untx(a[1])
        else:
            raise KeyError(spec)
        if len(_KEYS) > 5000:
            _KEYS.clear()
        _KEYS[(net.symbol, spec)] = k
    return k


def _show_bool(v):
    if v is True:
        return "ok 1"
    if v is False:
        return "ok 0"
    return "ok non-bool:" + type(v).__name__


def eval_op(op: str) -> str:
    a = op.split(" ")
    k = a[0]
    try:
        if k == "c17_b64dec":
            return "ok " + hx(binascii.a2b_base64(unhx(a[1])))
        if k == "c17_b64dec_s":
            return "ok " + hx(binascii.a2b_base64(untx(a[1])))
        if k == "c17_b64enc":
            return "ok " + hx(binascii.b2a_base64(unhx(a[1])))
        if k == "parse_armour":
            m, ad, sg = _net("btc").msg.parse_signed(untx(a[1]))
            return "ok %s %s %s" % (tx(m), tx(ad), tx(sg))
        net = _net(a[1])
        if k == "msg_hash":
            return "ok %d" % net.msg.hash_for_signing(untx(a[2]))
        if k == "msg_sign":
            key = net.keys.private(int(a[3]), is_compressed=a[4] == "1")
            return "ok " + tx(net.msg.sign(key, untx(a[6]), verbose=a[5] == "1"))
        if k == "msg_sign_pub":
            return "ok " + tx(net.msg.sign(_key(net, a[3]), untx(a[5]), verbose=a[4] == "1"))
        if k == "msg_verify":
            return _show_bool(net.msg.verify(_key(net, a[3]), untx(a[4]), untx(a[5])))
        if k == "msg_verify_h":
            return _show_bool(net.msg.verify(_key(net, a[3]), untx(a[4]), None, int(a[5])))
        if k == "msg_recover":
            pair, comp = net.msg.pair_for_message_hash(untx(a[3]), int(a[4]))
            if pair[0] is None:
                return "ok inf %d" % (1 if comp else 0)
            return "ok %d,%d %d" % (pair[0], pair[1], 1 if comp else 0)
        if k == "armour":
            signer = net.msg.sign.__self__
            return "ok " + tx(signer.signature_template.format(
                msg=untx(a[2]), addr=untx(a[3]), sig=untx(a[4]), net_name=signer._network_name.upper()))
    except Exception as e:  # noqa: BLE001
        return "err " + type(e).__name__
    return "bad-op"


SIBLINGS = (("btc", "xtn", "xrt"), ("ltc", "xlt"), ("doge", "xdt"), ("dash", "tdash"))


def _run_fresh(cfg: str, order, steps):
    """evaluate `steps` one after the other in ONE new Python process that first imports (= creates) the networks in
    `order`; returns the answers.  This is the only place where call history and creation order are under control."""
    env = dict(os.environ)
    env.pop("PYCOIN_NATIVE", None)
    if cfg == "pure":
        env["PYCOIN_NATIVE"] = "none"
    inp = ",".join(order) + "\n" + "\n".join(steps) + "\n"
    p = subprocess.run(["/venv/bin/python", os.path.abspath(__file__), "--history"], input=inp, capture_output=True, text=True,
                       env=env, timeout=600)
    out = p.stdout.split("\n")
    if p.returncode != 0 or len(out) < len(steps) + 1 or not out[0].startswith("history openssl="):
        from lib import Infra
        raise Infra("history process failed: rc=%d %s" % (p.returncode, p.stderr[-300:]))
    if out[0] != "history openssl=%d" % (1 if cfg == "openssl" else 0):
        from lib import Infra
        raise Infra("history process is in the wrong configuration: " + out[0])
    return out[1:1 + len(steps)]


def _run_fresh_each(cfg: str, steps):
    """every step in a process of its own that has made no call and created no network before: a pristine parent
    (pycoin imported, no symbol module) forks one child per step"""
    env = dict(os.environ)
    env.pop("PYCOIN_NATIVE", None)
    if cfg == "pure":
        env["PYCOIN_NATIVE"] = "none"
    p = subprocess.run(["/venv/bin/python", os.path.abspath(__file__), "--fresh-each"], input="\n".join(steps) + "\n",
                       capture_output=True, text=True, env=env, timeout=600)
    out = p.stdout.split("\n")
    if p.returncode != 0 or len(out) < len(steps) + 1 or out[0] != "fresh openssl=%d" % (1 if cfg == "openssl" else 0):
        from lib import Infra
        raise Infra("fresh-each process failed: rc=%d %r %s" % (p.returncode, out[:1], p.stderr[-300:]))
    return out[1:1 + len(steps)]


def _steps_of(arg: str):
    return [st.replace("~", " ") for st in arg.split(";")]


def eval_history(op: str) -> str:
    a = op.split(" ")
    steps = _steps_of(a[3])
    if any(st.split(" ")[0] not in ("msg_hash", "msg_sign", "msg_verify", "msg_verify_h", "msg_recover", "armour", "parse_armour") for st in steps):
        return "bad-op"
    ans = _run_fresh(a[1], a[2].split(","), steps)
    return "ok " + ";".join(x.replace(" ", "~") for x in ans)


def op_config(op: str) -> str:
    a = op.split(" ")
    if a[0] in ("msg_sign", "msg_sign_pub", "msg_verify", "msg_verify_h", "msg_recover"):
        return a[2]
    return "openssl"


_WORKER = None


def _spawn():
    env = dict(os.environ)
    env["PYCOIN_NATIVE"] = "none"
    p = subprocess.Popen(["/venv/bin/python", os.path.abspath(__file__)], stdin=subprocess.PIPE, stdout=subprocess.PIPE,
                         env=env, text=True, bufsize=1)
    hello = p.stdout.readline().strip()
    if hello != "worker openssl=0":
        from lib import Infra
        raise Infra("pure-Python worker reports %r" % hello)
    return p


def _call_pure(op: str) -> str:
    global _WORKER
    if _WORKER is None or _WORKER.poll() is not None:
        _WORKER = _spawn()
    _WORKER.stdin.write(op + "\n")
    _WORKER.stdin.flush()
    ans = _WORKER.stdout.readline()
    if not ans:
        from lib import Infra
        raise Infra("pure-Python worker died on %s" % op[:200])
    return ans.rstrip("\n")


@atexit.register
def _close():
    if _WORKER is not None:
        try:
            _WORKER.stdin.close()
            _WORKER.wait(timeout=5)
        except Exception:  # noqa: BLE001
            _WORKER.kill()


_CACHE: dict = {}
_CHECKED_CFG = False


def _check_this_process_is_openssl():
    global _CHECKED_CFG
    if _CHECKED_CFG:
        return
    _CHECKED_CFG = True
    from pycoin.ecdsa.secp256k1 import secp256k1_generator
    has_ossl = any("openssl" in c.__module__ and c.__name__ == "Optimizations" for c in type(secp256k1_generator).__mro__)
    if not has_ossl:
        from lib import Infra
        raise Infra("harness process is not in the OpenSSL configuration")


def impl(op: str) -> str:
    r = _CACHE.get(op)
    if r is None:
        cfg = op_config(op)
        if op.startswith("msg_history "):
            r = eval_history(op)
        elif cfg == "pure":
            r = _call_pure(op)
        elif cfg == "openssl":
            _check_this_process_is_openssl()
            r = eval_op(op)
        else:
            r = "bad-op"
        if len(_CACHE) < 100000 and len(r) < 4000:
            _CACHE[op] = r
    return r


# ------------------------------------------------------------------ independent reference

class _Ref:
    """secp256k1 from SEC 2, affine arithmetic, nothing from pycoin"""
    p = 2 ** 256 - 2 ** 32 - 977
    n = 0xFFFFFFFFFFFFFFFFFFFFFFFFFFFFFFFEBAAEDCE6AF48A03BBFD25E8CD0364141
    G = (0x79BE667EF9DCBBAC55A06295CE870B07029BFCDB2DCE28D959F2815B16F81798,
         0x483ADA7726A3C4655DA4FBFC0E1108A8FD17B448A68554199C47D08FFB10D4B8)

    @classmethod
    def add(cls, P, Q):
        if P is None:
            return Q
        if Q is None:
            return P
        p = cls.p
        if P[0] == Q[0]:
            if (P[1] + Q[1]) % p == 0:
                return None
            lam = 3 * P[0] * P[0] * pow(2 * P[1], -1, p) % p
        else:
            lam = (Q[1] - P[1]) * pow(Q[0] - P[0], -1, p) % p
        x = (lam * lam - P[0] - Q[0]) % p
        return (x, (lam * (P[0] - x) - P[1]) % p)

    @classmethod
    def mul(cls, k, P):
        k %= cls.n
        R = None
        while k:
            if k & 1:
                R = cls.add(R, P)
            P = cls.add(P, P)
            k >>= 1
        return R

    @classmethod
    def lift_x(cls, x, odd):
        p = cls.p
        if not 0 <= x < p:
            return None
        a = (x * x * x + 7) % p
        y = pow(a, (p + 1) // 4, p)
        if y * y % p != a:
            return None
        if (y & 1) != odd:
            y = p - y
        return (x, y)

    @classmethod
    def recover(cls, z, r, s, recid):
        """SEC 1 §4.1.6: the public key for which (r, s) signs z with nonce point (r + (recid>>1)·n, parity recid&1)"""
        n = cls.n
        if not (1 <= r < n and 1 <= s < n):
            return None
        R = cls.lift_x(r + (recid >> 1) * n, recid & 1)
        if R is None:
            return None
        ri = pow(r, -1, n)
        return cls.add(cls.mul(s * ri, R), cls.mul(-z * ri, cls.G))

    @classmethod
    def verify(cls, Q, z, r, s):
        n = cls.n
        if Q is None or not (1 <= r < n and 1 <= s < n):
            return False
        si = pow(s, -1, n)
        R = cls.add(cls.mul(z * si, cls.G), cls.mul(r * si, Q))
        return R is not None and R[0] % n == r


_PUB: dict = {}


def ref_pub(d):
    if d not in _PUB:
        _PUB[d] = _Ref.mul(d, _Ref.G)
    return _PUB[d]


def compact_size(n: int) -> bytes:
    if n < 253:
        return bytes([n])
    if n <= 0xFFFF:
        return b"\xfd" + n.to_bytes(2, "little")
    if n <= 0xFFFFFFFF:
        return b"\xfe" + n.to_bytes(4, "little")
    return b"\xff" + n.to_bytes(8, "little")


def ref_hash(netname: str, text: str) -> int:
    magic = (_net(netname).network_name + " Signed Message:\n").encode("utf8")
    m = text.encode("utf8")
    pre = compact_size(len(magic)) + magic + compact_size(len(m)) + m
    return int.from_bytes(hashlib.sha256(hashlib.sha256(pre).digest()).digest(), "big")


def ref_decode(sig_text: str):
    """(comp, recid, r, s) or None, by the published layout: base64 of 65 bytes, header 27..34"""
    try:
        raw = binascii.a2b_base64(sig_text)
    except ValueError:  # binascii.Error is a ValueError
        return None
    if len(raw) != 65 or not 27 <= raw[0] <= 34:
        return None
    f = raw[0] - 27
    return bool(f & 4), f & 3, int.from_bytes(raw[1:33], "big"), int.from_bytes(raw[33:], "big")


def ref_recover_text(sig_text: str, z: int):
    d = ref_decode(sig_text)
    if d is None:
        return None
    comp, recid, r, s = d
    Q = _Ref.recover(z, r, s, recid)
    if Q is None:
        return None
    return Q, comp


def _sec(Q, comp):
    if comp:
        return bytes([2 + (Q[1] & 1)]) + Q[0].to_bytes(32, "big")
    return b"\x04" + Q[0].to_bytes(32, "big") + Q[1].to_bytes(32, "big")


def _hash160(b: bytes) -> bytes:
    from pycoin.encoding.hash import hash160  # C19's subject; hashlib may lack ripemd160 here
    return hash160(b)


KEYHASH_TYPES = ("p2pkh", "p2pkh_wit")


def ref_verify(netname: str, keyspec: str, sig_text: str, z: int):
    """the property's verdict: True iff the signature recovers a key and that key is the given one / the given
    address is a pay-to-pubkey-hash form of it.  None = key argument outside the quantifier."""
    a = keyspec.split(":")
    if a[0] == "k":
        d = int(a[1])
        if not 1 <= d < _Ref.n:
            return None
        want = ("pair", ref_pub(d))
    elif a[0] == "p":
        x, y = (int(v) for v in a[1].split(","))
        if not (0 <= x < _Ref.p and 0 <= y < _Ref.p and (y * y - x * x * x - 7) % _Ref.p == 0):
            return None
        want = ("pair", (x, y))
    else:
        c = _net(netname).parse.address(untx(a[1]))
        if c is None:
            return None
        want = ("h160", c.info().get("type"), c.info().get("hash160"))
    rec = ref_recover_text(sig_text, z)
    if rec is None:
        return False
    Q, comp = rec
    if want[0] == "pair":
        return Q == want[1]
    return want[1] in KEYHASH_TYPES and want[2] == _hash160(_sec(Q, comp))


MARKER_RE = re.compile(r"-----BEGIN [A-Z ]*SIGNATURE-----")


def armour_allowed(msg: str) -> bool:
    """the property's hypotheses on a message for the armoured form"""
    if "\r\n" in msg and msg.replace("\r\n", "\n").replace("\n", "\r\n") != msg:
        return False
    if msg.endswith("\r"):
        return False
    for line in msg.replace("\r\n", "\n").split("\n"):
        if MARKER_RE.fullmatch(line):
            return False
    return True


def header_field_allowed(s: str) -> bool:
    """an address / signature as the signer produces them: non-empty base58 / bech32 / base64 text"""
    return bool(re.fullmatch(r"[A-Za-z0-9+/=]+", s))


_LOWER_OK = None


def _lower_table_ok() -> bool:
    """the model compares `label.lower()` with "address" after ASCII lower-casing: exact iff no other code point
    lower-cases into the letters a d e r s, and the whitespace set of str.strip() is the model's"""
    global _LOWER_OK
    if _LOWER_OK is None:
        tgt = set("address")
        extra = [cp for cp in range(0x110000) if not 0xD800 <= cp < 0xE000 and chr(cp).lower() and all(ch in tgt for ch in chr(cp).lower())
                 and chr(cp) not in "ADERSaders"]
        ws = [cp for cp in range(0x110000) if chr(cp).isspace()]
        want_ws = list(range(9, 14)) + list(range(28, 33)) + [0x85, 0xa0, 0x1680] + list(range(0x2000, 0x200b)) + [0x2028, 0x2029, 0x202f, 0x205f, 0x3000]
        _LOWER_OK = not extra and ws == want_ws
    return _LOWER_OK


# ------------------------------------------------------------------ oracles

def oracle(op: str, out: str):
    a = op.split(" ")
    k = a[0]
    if k == "msg_hash":
        want = ref_hash(a[1], untx(a[2]))
        if out != "ok %d" % want:
            return "hash_for_signing differs from SHA256d(varstr(magic) || varstr(message)) = %d" % want
        return None
    if k == "msg_sign_pub":
        if out != "err ValueError":
            return "signing with a public key: " + out[:60]
        return None
    if k == "msg_sign":
        net, cfg, d, comp, verbose, text = a[1], a[2], int(a[3]), a[4] == "1", a[5] == "1", untx(a[6])
        if not 1 <= d < _Ref.n:
            return None
        if not out.startswith("ok "):
            return "sign raised: " + out
        res = untx(out[3:])
        z = ref_hash(net, text)
        Q = ref_pub(d)
        addr = _net(net).keys.private(d, is_compressed=comp).address()
        if verbose:
            sig = res.rsplit("\n", 2)[-2] if res.count("\n") >= 2 else ""
            if armour_allowed(text):
                back = impl("parse_armour " + tx(res))
                if back != "ok %s %s %s" % (tx(text), tx(addr), tx(sig)):
                    return "armoured text does not parse back to (message, address, signature): " + back[:200]
        else:
            sig = res
        dec = None
        try:
            raw = base64.b64decode(sig, validate=True)
            if len(raw) == 65:
                dec = (raw[0], int.from_bytes(raw[1:33], "big"), int.from_bytes(raw[33:], "big"))
        except ValueError:
            pass
        if dec is None or base64.b64encode(raw).decode() != sig:
            return "signature is not the canonical base64 of 65 bytes"
        first, r, s = dec
        if not _Ref.verify(Q, z, r, s):
            return "(r, s) is not an ECDSA signature of the message digest under d*G"
        si = pow(s, -1, _Ref.n)
        R = _Ref.add(_Ref.mul(z * si, _Ref.G), _Ref.mul(r * si, Q))
        cands = []
        for RR in (R, (R[0], _Ref.p - R[1])):   # s and n-s are both valid; the header must describe the nonce point actually used
            cands.append(27 + (RR[1] & 1) + (2 if RR[0] >= _Ref.n else 0) + (4 if comp else 0))
        if first not in cands:
            return "header byte %d is not 27 + recid + 4*compressed for the nonce point" % first
        # verifies for the signer (key object and address), recovers the signer, fails for anybody / anything else
        qspec = "p:%d,%d" % Q
        for spec, want in ((qspec, "ok 1"), ("a:" + tx(addr), "ok 1")):
            v = impl("msg_verify %s %s %s %s %s" % (net, cfg, spec, tx(sig), tx(text)))
            if v != want:
                return "signature does not verify for the signer (%s): %s" % (spec[:1], v)
        rec = impl("msg_recover %s %s %s %d" % (net, cfg, tx(sig), z))
        if rec != "ok %d,%d %d" % (Q[0], Q[1], 1 if comp else 0):
            return "recovered key is not the signer: " + rec[:200]
        Q2 = ref_pub(d + 1 if d + 1 < _Ref.n - 1 else 1)
        other_addr = _net(net).keys.private(d, is_compressed=not comp).address()
        other_wit = _net(net).address.for_p2pkh_wit(_net(net).keys.private(d, is_compressed=not comp).hash160())
        for what, spec, t in (("another key", "p:%d,%d" % Q2, text), ("the negated key (same x)", "p:%d,%d" % (Q[0], _Ref.p - Q[1]), text),
                              ("the other compression's address", "a:" + tx(other_addr), text),
                              ("the other compression's segwit address", "a:" + tx(other_wit or other_addr), text),
                              ("another message", qspec, text + " "), ("another message", "a:" + tx(addr), "x" + text)):
            v = impl("msg_verify %s %s %s %s %s" % (net, cfg, spec, tx(sig), tx(t)))
            if v != "ok 0":
                return "signature verifies for %s: %s" % (what, v)
        return None
    if k in ("msg_verify", "msg_verify_h"):
        net, spec, sig = a[1], a[3], untx(a[4])
        z = ref_hash(net, untx(a[5])) if k == "msg_verify" else int(a[5])
        want = ref_verify(net, spec, sig, z)
        if want is None:
            return None
        if out not in ("ok 0", "ok 1"):
            return "verify did not return a bool: " + out
        if (out == "ok 1") != want:
            return "verify returns %s; recovering the key by SEC 1 §4.1.6 and comparing says %s" % (out[3:], want)
        return None
    if k == "msg_recover":
        sig, z = untx(a[3]), int(a[4])
        want = ref_recover_text(sig, z)
        if want is None:
            if out != "err EncodingError":
                return "pair_for_message_hash on an unrecoverable signature: %s (EncodingError expected)" % out
            return None
        Q, comp = want
        if out != "ok %d,%d %d" % (Q[0], Q[1], 1 if comp else 0):
            return "pair_for_message_hash returns %s, SEC 1 recovery gives %d,%d" % (out[:120], Q[0], Q[1])
        return None
    if k == "armour":
        text, addr, sig = untx(a[2]), untx(a[3]), untx(a[4])
        if not out.startswith("ok "):
            return None
        if armour_allowed(text) and header_field_allowed(addr) and header_field_allowed(sig) and addr != sig:
            back = impl("parse_armour " + out[3:])
            if back != "ok %s %s %s" % (a[2], a[3], a[4]):
                return "armoured text does not parse back to (message, address, signature): " + back[:200]
        return None
    if k == "msg_history":
        if not out.startswith("ok "):
            return "history run failed: " + out
        steps = _steps_of(a[3])
        got = [x.replace("~", " ") for x in out[3:].split(";")]
        need = [st for st in steps if (a[1], st) not in _FRESH]
        if need:
            for st, r in zip(need, _run_fresh_each(a[1], need)):
                _FRESH[(a[1], st)] = r
        for i, (st, g) in enumerate(zip(steps, got)):
            sa = st.split(" ")
            fresh = _FRESH[(a[1], st)]
            if g != fresh:
                return "call %d of a sequence on shared objects (`%s`) answers %s; the same call in a fresh process answers %s" % (
                    i + 1, st[:80], g[:80], fresh[:80])
            why = oracle(st, g) if sa[0] != "msg_sign" else None
            if why:
                return "call %d of a sequence: %s" % (i + 1, why)
        return None
    return None


_FRESH: dict = {}


def trivial(op: str) -> bool:
    return op.startswith("c17_b64")


def _mk_sig(first: int, r: int, s: int) -> str:
    return base64.b64encode(bytes([first & 255]) + (r % 2 ** 256).to_bytes(32, "big") + (s % 2 ** 256).to_bytes(32, "big")).decode()


def neighbours(op: str, rng):
    a = op.split(" ")
    res = []
    if a[0] in ("msg_verify", "msg_verify_h"):
        d = ref_decode(untx(a[4]))
        if d is not None:
            comp, recid, r, s = d
            for f in range(27, 35):
                res.append(" ".join(a[:4] + [tx(_mk_sig(f, r, s))] + a[5:]))
            for rr, ss in ((r, _Ref.n - s), (r + 1, s), (r, s + 1), (0, s), (r, 0)):
                res.append(" ".join(a[:4] + [tx(_mk_sig(27 + recid + 4 * comp, rr, ss))] + a[5:]))
        if a[3].startswith("a:"):
            res.append(" ".join(a[:3] + ["p:%d,%d" % _Ref.G] + a[4:]))
    if a[0] == "msg_sign":
        res.append(" ".join(a[:4] + ["0" if a[4] == "1" else "1"] + a[5:]))
        res.append(" ".join(a[:5] + ["0" if a[5] == "1" else "1"] + a[6:]))
        res.append(" ".join(a[:6] + [tx(untx(a[6]) + "!")]))
        for n2 in NETS[:4]:
            res.append(" ".join([a[0], n2] + a[2:]))
    if a[0] == "msg_hash":
        for n2 in NETS:
            res.append("msg_hash %s %s" % (n2, a[2]))
        res.append("msg_hash %s %s" % (a[1], tx(untx(a[2]) + "a" * 253)))
    if a[0] == "msg_recover":
        d = ref_decode(untx(a[3]))
        if d is not None:
            comp, recid, r, s = d
            for f in range(27, 35):
                res.append(" ".join(a[:3] + [tx(_mk_sig(f, r, s)), a[4]]))
    if a[0] in ("armour", "parse_armour"):
        res.append("armour btc %s %s %s" % (tx("neighbour\nmessage"), tx("1BoatSLRHtKNngkdXEeobR76b53LETtpyT"), tx("AAAA")))
    return res


# ------------------------------------------------------------------ generators

ALPHABETS = [
    "abcdefghijklmnopqrstuvwxyz ABC 0123456789.,;:!?-",
    "äöüßéèñçøåАБВГДабвгд中文日本語한국어ابجد",
    "😀🎉🚀𝔘𝔫𝔦𝔠𝔬𝔡𝔢́​  ",
]


def rand_text(rng, maxlen=60):
    al = rng.choice(ALPHABETS + [ALPHABETS[0]])
    return "".join(rng.choice(al) for _ in range(rng.randrange(0, maxlen)))


def rand_message(rng):
    mode = rng.randrange(10)
    if mode == 0:
        return ""
    if mode <= 3:
        return rand_text(rng)
    if mode <= 5:   # multi-line, LF
        return "\n".join(rand_text(rng, 25) for _ in range(rng.randrange(2, 5)))
    if mode == 6:   # multi-line, CRLF throughout
        return "\r\n".join(rand_text(rng, 25) for _ in range(rng.randrange(2, 5)))
    if mode == 7:   # around the compact-size boundary
        return "m" * rng.choice([252, 253, 254, 255, 256, 300])
    if mode == 8:   # leading / trailing blank lines and spaces
        return rng.choice(["\n", " ", "\n\n"]) + rand_text(rng, 20) + rng.choice(["\n", " ", "\n\n", ""])
    return rand_text(rng, 20) + rng.choice(["\r", "\rx", "\n-----BEGIN SIGNATURE-----", "\n-----BEGIN FOO SIGNATURE-----\nz",
                                              "\n-----BEGIN BITCOIN SIGNED MESSAGE-----\nq", "\r\nq\nz", ":"])


def rand_d(rng):
    return rng.choice([rng.randrange(1, _Ref.n), rng.randrange(1, _Ref.n), rng.randrange(1, 2 ** 64), _Ref.n - rng.randrange(1, 1000), rng.randrange(1, 50)])


def _no_point_r(start):
    r = start
    while _Ref.lift_x(r, 0) is not None:
        r += 1
    return r


def _point_r(start):
    r = start
    while _Ref.lift_x(r, 0) is None:
        r += 1
    return r


def gen(ctx, emit):
    rng = ctx.rng
    n, p = _Ref.n, _Ref.p
    two256 = 2 ** 256
    if not _lower_table_ok():
        ctx.note("str.lower()/isspace() tables of this Python differ from the model's")
        emit("parse_armour " + tx("lower-table-mismatch"))

    # ---- base64 codec (model of binascii), cheap
    b64_cases = [b"", b"A", b"AA", b"AAA", b"AAAA", b"AA==", b"AA=", b"AAA=", b"AAA==", b"A===", b"=", b"====", b"AA=A", b"AA=A=", b"AA==AAAA",
                 b"AAAA=", b"AAAA====", b"AA\n==", b"A A A A", b"AAAA\n", b"!!!!", b"AA-_", b"\xff\xfeAAAA", b"AAA=A", b"AAA=AA==", b"A=A=A=A=",
                 b"AB=C", b"AB=\n=CD", b"AB==CD", b"AAAAA", b"AAAAAA", b"AAAAAAA", b"AAAAAA==", b"+/+/", b"Zm9vYmFy", b"Zm9vYmE=", b"Zm9vYg=="]
    for c in b64_cases:
        emit("c17_b64dec " + hx(c))
        emit("c17_b64dec_s " + hx(c) if all(x < 128 for x in c) else "c17_b64dec_s " + tx("é" + c.decode("latin1")))
    for k in range(0, 8):
        emit("c17_b64enc " + hx(bytes(range(249, 249 + k))))
    chars = b"ABCZabcz0189+/=== \n\r\t-_!\x00\xff"
    for _ in range(ctx.n(1500, 60000)):
        emit("c17_b64dec " + hx(bytes(rng.choice(chars) for _ in range(rng.randrange(0, 14)))))
    for _ in range(ctx.n(300, 20000)):
        raw = bytes(rng.randrange(256) for _ in range(rng.choice([0, 1, 2, 3, 4, 5, 64, 65, 66])))
        emit("c17_b64enc " + hx(raw))
        enc = base64.b64encode(raw)
        m = rng.randrange(5)
        if m == 1:
            enc = enc.rstrip(b"=")
        elif m == 2:
            enc = enc + b"="
        elif m == 3 and enc:
            i = rng.randrange(len(enc))
            enc = enc[:i] + bytes([rng.choice(b" \n!=-")]) + enc[i:]
        elif m == 4:
            enc = enc + b"QUJD"
        emit("c17_b64dec " + hx(enc))
        emit("c17_b64dec_s " + hx(enc))

    # ---- digests: every network, the compact-size boundaries, unicode
    for net in NETS:
        for t in ("", "a", "hello", "m" * 252, "m" * 253, "m" * 254, "é" * 126 + "a", "é" * 127, "line1\nline2", "line1\r\nline2", " 😀"):
            emit("msg_hash %s %s" % (net, tx(t)))
    emit("msg_hash btc " + tx("x" * 65535))
    emit("msg_hash ltc " + tx("x" * 65536))
    for _ in range(ctx.n(300, 20000)):
        emit("msg_hash %s %s" % (rng.choice(NETS), tx(rand_message(rng))))

    # ---- armour: template and parser, no curve arithmetic
    fixed_addr, fixed_sig = "1BoatSLRHtKNngkdXEeobR76b53LETtpyT", _mk_sig(31, 5, 7)
    arm_msgs = ["", "hello", "a\nb", "a\r\nb", "a\r\nb\r\n", "a\n", "\n", "\n\na", "a\n\n", " a ", "a\rb", "a\r", "a\r\nb\nc", "a\r\r\nb",
                "-----BEGIN SIGNATURE-----", "x\n-----BEGIN SIGNATURE-----", "x\n-----BEGIN SIGNATURE-----\ny", "-----BEGIN SIGNATURE-----\ny",
                "x\n-----BEGIN BITCOIN SIGNATURE-----\ny", "x\n-----BEGIN  A Z SIGNATURE-----\ny", "x\n-----BEGIN aSIGNATURE-----\ny",
                "x\n-----BEGIN SIGNATURE-----\n-----BEGIN SIGNATURE-----\ny", "x\n-----BEGIN SIGNATURE-----\ny\n-----BEGIN SIGNATURE-----\nz",
                "x\n-----BEGIN SIGNATURESIGNATURE-----\ny", "x\n-----BEGIN SIGNATURE----\ny", "x\n -----BEGIN SIGNATURE-----\ny",
                "SIGNED MESSAGE-----", "x SIGNED MESSAGE-----\ny", "-----BEGIN BITCOIN SIGNED MESSAGE-----\nnested\n-----BEGIN SIGNATURE-----\nA\nB\n-----END BITCOIN SIGNED MESSAGE-----",
                "Address: foo", "a:b", "-----END", "x\n-----END BITCOIN SIGNED MESSAGE-----", "ü x ", "😀\n😀"]
    for net in ("btc", "doge", "btcd"):
        for m in arm_msgs:
            emit("armour %s %s %s %s" % (net, tx(m), tx(fixed_addr), tx(fixed_sig)))
    for ad, sg in (("", "x"), ("x", ""), ("same", "same"), ("Address: q", "s"), ("a b", "s"), (" a", "s "), ("a:b", "s"), ("-----END", "s"), ("a\nb", "s"), ("a", "s\n")):
        emit("armour btc %s %s %s" % (tx("msg"), tx(ad), tx(sg)))
    raw_texts = ["", "no markers at all", "SIGNED MESSAGE-----\n", "SIGNED MESSAGE-----\nm\n-----BEGIN SIGNATURE-----\n",
                 "SIGNED MESSAGE-----\nm\n-----BEGIN SIGNATURE-----\nonly\n", "SIGNED MESSAGE-----\nm\n-----BEGIN SIGNATURE-----\naddr\nsig\n-----END",
                 "SIGNED MESSAGE-----\nm\n-----BEGIN SIGNATURE-----\naddr\nsig\nnot the end", "SIGNED MESSAGE-----\nm\n-----BEGIN SIGNATURE-----\n-----END x\n-----END",
                 "SIGNED MESSAGE-----\nm\n-----BEGIN SIGNATURE-----\nVersion: 1\nAddress: abc:def\n\nsig\n-----END BITCOIN SIGNATURE-----\n\n",
                 "SIGNED MESSAGE-----\nm\n-----BEGIN SIGNATURE-----\nVersion: 1\nADDRESS : abc \n\nsig\n-----END BITCOIN SIGNATURE-----",
                 "SIGNED MESSAGE-----\nm\n-----BEGIN SIGNATURE-----\nVersion: 1\nComment: x\nsig\n-----END", "SIGNED MESSAGE-----\nm\n-----BEGIN SIGNATURE-----\n addr \n sig \n-----END",
                 "SIGNED MESSAGE-----\r\nm\r\nn\r\n-----BEGIN SIGNATURE-----\r\naddr\r\nsig\r\n-----END", "SIGNED MESSAGE-----\nm\r\n-----BEGIN SIGNATURE-----\naddr\nsig\n-----END",
                 "junk SIGNED MESSAGE-----\nfirst\nSIGNED MESSAGE-----\nm\n-----BEGIN SIGNATURE-----\na\ns\n-----END", "SIGNED MESSAGE-----\n-----BEGIN SIGNATURE-----\na\ns\n-----END",
                 "SIGNED MESSAGE-----\n\n-----BEGIN SIGNATURE-----\na\ns\n-----END", "SIGNED MESSAGE-----", "SIGNED MESSAGE-----\nm\n-----BEGIN SIGNATURE-----"]
    for t in raw_texts:
        emit("parse_armour " + tx(t))
    for _ in range(ctx.n(400, 30000)):
        emit("armour %s %s %s %s" % (rng.choice(NETS), tx(rand_message(rng)), tx(fixed_addr), tx(fixed_sig)))
    pieces = ["SIGNED MESSAGE-----", "-----BEGIN SIGNATURE-----", "-----BEGIN BITCOIN SIGNATURE-----", "-----END", "\n", "\n", "\r\n", "a", "Address: x", ":", " ", "sig", "\r",
              "-----BEGIN BITCOIN SIGNED MESSAGE-----", "-----END BITCOIN SIGNED MESSAGE-----", " ", "ü"]
    for _ in range(ctx.n(1200, 60000)):
        emit("parse_armour " + tx("".join(rng.choice(pieces) for _ in range(rng.randrange(1, 16)))))

    # ---- malformed signatures: totality of verify (no curve arithmetic unless a point exists)
    d0 = 0x1234567890ABCDEF1234567890ABCDEF
    Q0 = ref_pub(d0)
    msg0 = "totality"
    np_r, pt_r = _no_point_r(5), _point_r(6)
    hi_pt = _point_r(n + 3) - n          # r with a point at x = r + n (< p)
    hi_np = _no_point_r(n + 3) - n
    key_specs = ["p:%d,%d" % Q0]
    for net, cfg in ((("btc", "openssl"), ("btc", "pure"), ("doge", "pure"), ("zec", "openssl")) if ctx.thorough else (("btc", "openssl"), ("doge", "pure"))):
        addr = _net(net).keys.private(d0).address()
        for vb in (0, 1):
            emit("msg_sign_pub %s %s p:%d,%d %d %s" % (net, cfg, Q0[0], Q0[1], vb, tx(msg0)))
        specs = key_specs + ["a:" + tx(addr)]
        good = untx(impl("msg_sign %s %s %d 1 0 %s" % (net, cfg, d0, tx(msg0)))[3:]) if True else ""
        dec = ref_decode(good)
        if dec is None:
            emit("msg_sign %s %s %d 1 0 %s" % (net, cfg, d0, tx(msg0)))
            continue
        _c, _rid, r, s = dec
        def V(sig, spec=None, text=msg0):
            emit("msg_verify %s %s %s %s %s" % (net, cfg, spec or specs[0], tx(sig), tx(text)))
        for first in range(256):
            V(_mk_sig(first, r, s))
        for first in (26, 27, 30, 31, 34, 35):
            V(_mk_sig(first, r, s), specs[1])
        scal = [0, 1, 2, 3, np_r, pt_r, n - 1, n, n + 1, p - n - 1, p - n, p - n + 1, hi_pt, hi_np, p - 1, p, p + 1, two256 - 1]
        for rr in scal:
            for first in ((27, 28, 29, 31, 34) if ctx.thorough else (28, 29, 31)):
                V(_mk_sig(first, rr, s), rng.choice(specs))
        for ss in (0, 1, n - 1, n, n + 1, two256 - 1):
            V(_mk_sig(31, r, ss), rng.choice(specs))
            V(_mk_sig(33, pt_r, ss), rng.choice(specs))
        V(_mk_sig(31, r, n - s))            # the other s: recovers another key
        V(good, "p:%d,%d" % (Q0[0], p - Q0[1]))   # the negated key: same x, other y
        V(good); V(good, specs[1])
        # other lengths, padding variants, junk
        raw = bytes([31]) + r.to_bytes(32, "big") + s.to_bytes(32, "big")
        for blob in (b"", raw[:1], raw[:64], raw + b"\0", raw + raw, raw[:32], raw[1:]):
            V(base64.b64encode(blob).decode(), rng.choice(specs))
        for t in (good.rstrip("="), good + "=", good + "==", good + "AAAA", good + "\n", "\n" + good, " " + good + " ", good[:10] + "\n" + good[10:],
                  good[:10] + "!" + good[10:], good[:-1], good[:-2] + "A=", good[:-3], good[1:], "A" + good, "=" + good, good.replace("=", ""), good[:40] + "=" + good[40:],
                  "!!!!", "abc", "a", "=", "====", "é" + good, good + "é", "😀", "\x00", good.replace("+", "-").replace("/", "_"), good.lower(), "not base64 at all", " "):
            V(t, rng.choice(specs))
        # recovery at infinity: r = x(kG), s = z/k  =>  s*R - z*G = 0
        z0 = ref_hash(net, msg0)
        kk = 77
        R = _Ref.mul(kk, _Ref.G)
        for spec in specs:
            V(_mk_sig(31 + (R[1] & 1), R[0] % n, z0 * pow(kk, -1, n) % n), spec)
        emit("msg_recover %s %s %s %d" % (net, cfg, tx(_mk_sig(27 + (R[1] & 1), R[0] % n, z0 * pow(kk, -1, n) % n)), z0))
        # recovery ids 2 and 3: build a verifying signature around a nonce point with x >= n
        for odd in (0, 1):
            Rh = _Ref.lift_x(hi_pt + n, odd)
            sh = rng.randrange(1, n)
            sig_h = _mk_sig(27 + 2 + odd + 4, hi_pt, sh)
            Qh = _Ref.recover(z0, hi_pt, sh, 2 + odd)
            V(sig_h, "p:%d,%d" % Qh)
            V(sig_h, "a:" + tx(_net(net).keys.public(Qh, is_compressed=True).address()))
            V(sig_h, "p:%d,%d" % Q0)
            V(_mk_sig(27 + odd + 4, hi_pt, sh), "p:%d,%d" % Qh)   # same r, s without the +n: another key or none
            emit("msg_recover %s %s %s %d" % (net, cfg, tx(sig_h), z0))
            assert Rh is not None
        # digests at and above the group order (msg_hash= form): signatures made with the reference arithmetic
        for zz in ((n - 1, n, n + 5, two256 - 1) if ctx.thorough else (n, two256 - 1)):
            kz = 0xC0FFEE + zz % 1000
            Rz = _Ref.mul(kz, _Ref.G)
            rz = Rz[0] % n
            sz = pow(kz, -1, n) * (zz + d0 * rz) % n
            sig_z = _mk_sig(27 + 4 + (Rz[1] & 1) + (2 if Rz[0] >= n else 0), rz, sz)
            emit("msg_verify_h %s %s %s %s %d" % (net, cfg, specs[0], tx(sig_z), zz))
            emit("msg_verify_h %s %s %s %s %d" % (net, cfg, specs[1], tx(sig_z), zz))
            emit("msg_recover %s %s %s %d" % (net, cfg, tx(sig_z), zz))
        # the msg_hash= form, including hash 0 and None
        for zz in (0, 1, z0, n, two256 - 1):
            emit("msg_verify_h %s %s %s %s %d" % (net, cfg, specs[0], tx(good), zz))
        # addresses of other kinds carrying the signer's hash160, or none
        k0 = _net(net).keys.private(d0)
        h = k0.hash160()
        for ad in (_net(net).address.for_p2sh(h), _net(net).address.for_p2pkh_wit(h), _net(net).address.for_p2sh_wit(h + h[:12]),
                   _net(net).address.for_p2tr(h + h[:12]), _net(net).address.for_p2pkh(h[::-1])):
            if ad:
                V(good, "a:" + tx(ad))
    for _ in range(ctx.n(1500, 40000)):
        net, cfg = rng.choice(NETS), rng.choice(CONFIGS)
        spec = rng.choice(key_specs)
        m = rng.randrange(6)
        if m == 0:
            sig = "".join(rng.choice("ABCabc019+/= \n!é😀-_") for _ in range(rng.randrange(0, 100)))
        elif m == 1:
            sig = base64.b64encode(bytes(rng.randrange(256) for _ in range(rng.choice([0, 1, 32, 33, 64, 66, 67, 130])))).decode()
        elif m == 2:   # 65 bytes, header outside 27..34
            sig = _mk_sig(rng.choice([rng.randrange(0, 27), rng.randrange(35, 256)]), rng.randrange(two256), rng.randrange(two256))
        elif m == 3:   # header fine, r or s out of range
            rr, ss = rng.choice([(0, 5), (n, 5), (rng.randrange(n, two256), 5), (5, 0), (5, n), (pt_r, rng.randrange(n, two256))])
            sig = _mk_sig(rng.randrange(27, 35), rr, ss)
        elif m == 4:   # abscissa without a point
            rr = _no_point_r(rng.randrange(1, n))
            sig = _mk_sig(rng.choice([27, 28, 31, 32]), rr, rng.randrange(1, n))
        else:          # recid 2/3 with r + n >= p, or without a point
            rr = rng.choice([rng.randrange(p - n, n), hi_np])
            sig = _mk_sig(rng.choice([29, 30, 33, 34]), rr, rng.randrange(1, n))
        emit("msg_verify %s %s %s %s %s" % (net, cfg, spec, tx(sig), tx("m")))
    # random well-formed signatures (recover some key): verify answers False for the fixed key, never raises
    for _ in range(ctx.n(6, 500)):
        net, cfg = rng.choice(NETS), rng.choice(CONFIGS)
        sig = _mk_sig(rng.randrange(27, 35), _point_r(rng.randrange(1, n)), rng.randrange(1, n))
        emit("msg_verify %s %s %s %s %s" % (net, cfg, rng.choice(key_specs), tx(sig), tx(rand_text(rng, 10))))
        if rng.random() < 0.3:
            emit("msg_recover %s %s %s %d" % (net, cfg, tx(sig), rng.randrange(two256)))

    # ---- call histories: one signer object across calls with shrinking and growing messages, then same-named sibling
    # networks (one magic, several network objects) in both creation orders; every answer must be that of a fresh process
    def history(cfg, order, nets_cycle):
        dh = rand_d(rng)
        msgs = ["L" * 300, "s", "", "m" * 40, "L" * 300, "ab", "x" * 253, "ü" * 30, "s"] if ctx.thorough else ["L" * 300, "s", "", "L" * 300, "m" * 40]
        steps = []
        for i, m in enumerate(msgs):
            net = nets_cycle[i % len(nets_cycle)]
            steps.append("msg_hash %s %s" % (net, tx(m)))
        Qh = ref_pub(dh)
        for i, m in enumerate(("long message " * 20, "s", "", "mid-size message") if ctx.thorough else ("long message " * 20, "s")):
            net = nets_cycle[i % len(nets_cycle)]
            other = nets_cycle[(i + 1) % len(nets_cycle)]
            sig = untx(impl("msg_sign %s %s %d 1 0 %s" % (net, cfg, dh, tx(m)))[3:])
            steps.append("msg_sign %s %s %d 1 %d %s" % (net, cfg, dh, i % 2, tx(m)))
            steps.append("msg_verify %s %s p:%d,%d %s %s" % (other, cfg, Qh[0], Qh[1], tx(sig), tx(m)))
            steps.append("msg_verify %s %s a:%s %s %s" % (other, cfg, tx(_net(other).keys.private(dh).address()), tx(sig), tx(m)))
            steps.append("msg_verify %s %s p:%d,%d %s %s" % (net, cfg, Qh[0], Qh[1], tx(sig), tx(m + "!")))
        emit("msg_history %s %s %s" % (cfg, ",".join(order), ";".join(st.replace(" ", "~") for st in steps)), "history")
    fam = SIBLINGS[0]
    history("openssl", ["btc"], ["btc"])
    history("pure", list(fam), list(fam))
    history("openssl", list(reversed(fam)), list(fam))
    extra = SIBLINGS[1:] if ctx.thorough else [SIBLINGS[1 + ctx.seed % 3]]
    for famx in extra:
        if ctx.thorough:
            history("pure", list(famx), list(famx))
        history("openssl", list(reversed(famx)), list(famx))
    if ctx.thorough:
        allnets = [n_ for f in SIBLINGS for n_ in f]
        for _ in range(6):
            order = allnets[:]
            rng.shuffle(order)
            history(rng.choice(CONFIGS), order, rng.sample(allnets, 4))

    # ---- sign: the oracle runs verify (key, address), recovery, and the foreign key / address / message checks
    corner = [("btc", "openssl", 1, True, ""), ("btc", "pure", 1, False, "a"), ("xtn", "pure", n - 1, True, "hello\nworld"),
              ("axe", "openssl", 2, False, "m" * 253), ("btcd", "pure", 3, True, "ü😀\r\nq")]
    for net, cfg, d, comp, text in corner:
        emit("msg_sign %s %s %d %d 0 %s" % (net, cfg, d, 1 if comp else 0, tx(text)))
        emit("msg_sign %s %s %d %d 1 %s" % (net, cfg, d, 1 if comp else 0, tx(text)))
    for i in range(ctx.n(20, 600)):
        net, cfg = NETS[i % len(NETS)], CONFIGS[(i // 2) % 2]
        d, comp, text = rand_d(rng), rng.random() < 0.5, rand_message(rng)
        verbose = rng.random() < 0.4
        op = "msg_sign %s %s %d %d %d %s" % (net, cfg, d, 1 if comp else 0, 1 if verbose else 0, tx(text))
        emit(op)
        out = impl(op)
        if not out.startswith("ok ") or rng.random() < 0.5:
            continue
        res = untx(out[3:])
        sig = res.rsplit("\n", 2)[-2] if verbose and res.count("\n") >= 2 else res
        Q = ref_pub(d)
        key = _net(net).keys.private(d, is_compressed=comp)
        m = rng.randrange(7)
        if m == 0:
            emit("msg_verify %s %s p:%d,%d %s %s" % (net, cfg, Q[0], Q[1], tx(sig), tx(text)))
        elif m == 1:
            emit("msg_verify %s %s a:%s %s %s" % (net, cfg, tx(key.address()), tx(sig), tx(text)))
        elif m == 2:
            emit("msg_verify %s %s k:%d:%d %s %s" % (net, cfg, rand_d(rng), 1, tx(sig), tx(text)))
        elif m == 3:
            emit("msg_verify %s %s a:%s %s %s" % (net, cfg, tx(_net(net).keys.private(rand_d(rng)).address()), tx(sig), tx(text)))
        elif m == 4:
            other = rng.choice([x for x in NETS if _net(x).network_name != _net(net).network_name])
            emit("msg_verify %s %s p:%d,%d %s %s" % (other, cfg, Q[0], Q[1], tx(sig), tx(text)))   # another network's magic: another digest
        elif m == 5:
            dec = ref_decode(sig)
            if dec:
                emit("msg_verify %s %s p:%d,%d %s %s" % (net, cfg, Q[0], Q[1], tx(_mk_sig(27 + ((dec[1] ^ 1) & 3) + 4 * dec[0], dec[2], dec[3])), tx(text)))
        else:
            emit("msg_recover %s %s %s %d" % (net, cfg, tx(sig), ref_hash(net, text)))


# ------------------------------------------------------------------ worker main (PYCOIN_NATIVE=none)

def _main():
    from pycoin.ecdsa.secp256k1 import secp256k1_generator
    has_ossl = any("openssl" in c.__module__ and c.__name__ == "Optimizations" for c in type(secp256k1_generator).__mro__)
    sys.stdout.write("worker openssl=%d\n" % (1 if has_ossl else 0))
    sys.stdout.flush()
    for line in sys.stdin:
        line = line.rstrip("\n")
        if not line:
            continue
        sys.stdout.write(eval_op(line) + "\n")
        sys.stdout.flush()


def _history_main():
    lines = sys.stdin.read().split("\n")
    import importlib
    for m in lines[0].split(","):
        _NET[m] = importlib.import_module("pycoin.symbols." + m).network
    from pycoin.ecdsa.secp256k1 import secp256k1_generator
    has_ossl = any("openssl" in c.__module__ and c.__name__ == "Optimizations" for c in type(secp256k1_generator).__mro__)
    print("history openssl=%d" % (1 if has_ossl else 0))
    for line in lines[1:]:
        if line:
            print(eval_op(line))


def _fresh_each_main():
    steps = [l for l in sys.stdin.read().split("\n") if l]
    import pycoin.networks.bitcoinish  # noqa: F401  (code only: no network object exists yet)
    from pycoin.ecdsa.secp256k1 import secp256k1_generator
    has_ossl = any("openssl" in c.__module__ and c.__name__ == "Optimizations" for c in type(secp256k1_generator).__mro__)
    if any(m.startswith("pycoin.symbols.") for m in sys.modules):
        print("fresh parent already holds a network")
        return
    print("fresh openssl=%d" % (1 if has_ossl else 0))
    sys.stdout.flush()
    for st in steps:
        r, w = os.pipe()
        pid = os.fork()
        if pid == 0:
            os.close(r)
            try:
                ans = eval_op(st)
            except BaseException as e:  # noqa: BLE001
                ans = "err " + type(e).__name__
            os.write(w, ans.encode())
            os._exit(0)
        os.close(w)
        buf = b""
        while True:
            chunk = os.read(r, 65536)
            if not chunk:
                break
            buf += chunk
        os.close(r)
        os.waitpid(pid, 0)
        print(buf.decode())
        sys.stdout.flush()


if __name__ == "__main__":
    if "--history" in sys.argv:
        _history_main()
    elif "--fresh-each" in sys.argv:
        _fresh_each_main()
    else:
        _main()
