"""C04 generator: `c04_checksol` cases over CUSTOM scripts, with the expected sequence of signature-hash requests WRITTEN DOWN from the
consensus rules (never harvested from the implementation):

* the script code of a signature check starts after the last EXECUTED OP_CODESEPARATOR (`begin_code_hash != 0`): separators before /
  between / after CHECKSIGs, inside an executed IF or ELSE branch vs. an unexecuted one, several in a row, as the last opcode, in the
  scriptSig (a fresh evaluation starts at 0 again);
* legacy: the signatures being checked are removed from the script code (FindAndDelete) -- copies pushed on either side of the separator;
  witness v0 (and Bitcoin Cash): nothing is removed;
* CHECKMULTISIG with several signatures of DIFFERENT hash types (real signatures over the reference digest, so that the matching loop
  walks on), also with a non-matching signature that is embedded in the script;
* all 256 hash-type bytes on a legacy and on a witness script for each of the five coin classes (a refused hash type of the fork-id
  coins ends the evaluation: no message reaches generator.verify).

Digests used for the real signatures come from harness/sighashlib.py (the independent reference)."""
from __future__ import annotations

import hashlib

import sighashlib as S
import txlib
from txlib import hx, show_fields
from sighashlib import show_us

from pycoin.ecdsa.secp256k1 import secp256k1_generator as G

ORDER = 0xFFFFFFFFFFFFFFFFFFFFFFFFFFFFFFFEBAAEDCE6AF48A03BBFD25E8CD0364141
P2PKH = bytes.fromhex("76a914") + b"\x5a" * 20 + bytes.fromhex("88ac")
_PUBS = []


def pubs():
    if not _PUBS:
        for k in S.KEYS:
            x, y = G * k
            _PUBS.append(bytes([2 + (int(y) & 1)]) + int(x).to_bytes(32, "big"))
    return _PUBS


def der_int(v: int) -> bytes:
    b = v.to_bytes(max(1, (v.bit_length() + 7) // 8), "big")
    if b[0] & 0x80:
        b = b"\x00" + b
    return b"\x02" + bytes([len(b)]) + b


def der_sig(r: int, s: int) -> bytes:
    body = der_int(r) + der_int(s)
    return b"\x30" + bytes([len(body)]) + body


def fake_sig(n: int, ht: int) -> bytes:
    """a well-formed signature that verifies for no key; distinct per n"""
    return der_sig(5 + 2 * n, 7 + 2 * n) + bytes([ht])


def push_int(n: int) -> bytes:
    return bytes([0x50 + n]) if 1 <= n <= 16 else b"\x00"


def h160(b: bytes) -> bytes:
    return hashlib.new("ripemd160", hashlib.sha256(b).digest()).digest()


# ------------------------------------------------------------------------------------------------ plans
# ("sep",)                                   OP_CODESEPARATOR
# ("if", cond, body, else_body | None)       <cond> IF body [ELSE else_body] ENDIF
# ("cs", n, key, ht, "stack" | "inline")     [<sig n>] <pub key> CHECKSIG DROP      (signature n is a fake one)
# ("emb", n, ht)                             <sig n> DROP                            (a copy of signature n pushed in the script)
# ("ms", keys, [("real", key, ht) | ("fake", n, ht)])   <m> <pubs> <n> CHECKMULTISIG DROP, signatures from the stack
# ("raw", bytes)

class _St:
    def __init__(self):
        self.script = bytearray()
        self.begin = 0
        self.events = []      # ("cs", begin, sig) | ("ms", begin, keys, sigspecs)
        self.consumers = []   # stack items each executed consumer takes, in execution order


def _walk(elems, st, executing):
    for e in elems:
        t = e[0]
        if t == "sep":
            st.script += b"\xab"
            if executing:
                st.begin = len(st.script)
        elif t == "if":
            _t, cond, body, other = e
            st.script += (b"\x51" if cond else b"\x00") + b"\x63"
            _walk(body, st, executing and bool(cond))
            if other is not None:
                st.script += b"\x67"
                _walk(other, st, executing and not cond)
            st.script += b"\x68"
        elif t == "cs":
            _t, n, key, ht, src = e
            sig = fake_sig(n, ht)
            if src == "inline":
                st.script += S.push_data(sig)
            st.script += S.push_data(pubs()[key]) + b"\xac\x75"
            if executing:
                if src == "stack":
                    st.consumers.append(("sig", sig))
                st.events.append(("cs", st.begin, sig))
        elif t == "emb":
            st.script += S.push_data(fake_sig(e[1], e[2])) + b"\x75"
        elif t == "ms":
            _t, keys, sigspecs = e
            st.script += push_int(len(sigspecs)) + b"".join(S.push_data(pubs()[k]) for k in keys) + push_int(len(keys)) + b"\xae\x75"
            if executing:
                ev = ["ms", st.begin, list(keys), list(sigspecs), None]
                st.consumers.append(("ms", ev))
                st.events.append(ev)
        elif t == "raw":
            st.script += e[1]
        else:
            raise ValueError(t)


def _ref(coin, wit, f, us, idx, code, sigs, ht):
    """the consensus message of a check: 'ok <hex>' | 'refused'"""
    if wit:
        return S.spec_segwit(coin, f, us, idx, code, ht)
    return S.spec_sighash(coin, f, us, idx, code if coin == "bch" else S.script_code_for(code, sigs), ht)


def build(coin, kind, elems, idx=0, tail=b"\x51", n_out=2, version=1, lock_time=0, sequences=(0xFFFFFFFE, 7, 0xFFFFFFFF), amount=9000,
          ssig_prefix=None, ssig_suffix=b""):
    """-> the op line `c04_checksol coin tx us idx trace vmap` for input idx of a 3-input transaction whose input idx spends `kind`
    (bare | p2sh | p2wsh | p2sh-p2wsh) of the planned script.  ssig_prefix: a plan evaluated IN the scriptSig (bare only), in front of the pushes."""
    wit = "wsh" in kind
    st = _St()
    _walk(elems, st, True)
    script = bytes(st.script) + tail
    pre = _St()
    if ssig_prefix is not None:
        _walk(ssig_prefix, pre, True)
    if kind == "bare":
        spk = script
    elif kind == "p2sh":
        spk = b"\xa9\x14" + h160(script) + b"\x87"
    else:
        prog = b"\x00\x20" + hashlib.sha256(script).digest()
        spk = prog if kind == "p2wsh" else b"\xa9\x14" + h160(prog) + b"\x87"
    ins0 = [(bytes([0x61 + j]) * 32, j + 1, b"", sequences[j], []) for j in range(3)]
    outs = [(5000, P2PKH), (6000, b"\x51"), (7, b"\x6a")][:n_out]
    f0 = (version, lock_time, ins0, outs)
    us = [(1000 + 7 * j, P2PKH) for j in range(3)]
    us[idx] = (amount, spk)

    def run(events, scr, kd_wit):
        """the requests of one evaluation: (entries, digests, vals) with vals indexing into entries; None entries end everything"""
        entries, digs, vs = [], [], []

        def entry(code, sigs, ht):
            d = _ref(coin, kd_wit, f0, us, idx, code, sigs, ht)
            if d == "refused":
                return None
            entries.append(("witness" if kd_wit else "legacy", ht, code, list(sigs)))
            digs.append(d)
            return len(entries) - 1

        for ev in events:
            code = scr[ev[1]:]
            if ev[0] == "cs":
                j = entry(code, [ev[2]], ev[2][-1])
                if j is None:
                    return entries, digs, vs, True
                vs.append(j)
                continue
            _t, _b, keys, sigspecs, _x = ev
            fakes = [fake_sig(s[1], s[2]) if s[0] == "fake" else None for s in sigspecs]
            known = [x for x in fakes if x is not None]
            sigs = []
            for s, fk in zip(sigspecs, fakes):
                if fk is not None:
                    sigs.append(fk)
                    continue
                # a real signature is never pushed inside the script, so removing it changes nothing: its message is known before it exists
                d = _ref(coin, kd_wit, f0, us, idx, code, known, s[2])
                if d == "refused":
                    sigs.append(fake_sig(99, s[2]))
                else:
                    r, s_ = G.sign(S.KEYS[s[1]], int(d[3:], 16))
                    sigs.append(der_sig(r, min(s_, ORDER - s_)) + bytes([s[2]]))
            ev[4] = sigs
            # CHECKMULTISIG as consensus runs it: last signature against last key first; every comparison uses up a key
            cache = {}
            isig, ikey, n_s, n_k, ok = len(sigs) - 1, len(keys) - 1, len(sigs), len(keys), True
            while ok and n_s > 0:
                ht = sigspecs[isig][2]
                if ht not in cache:
                    j = entry(code, sigs, ht)
                    if j is None:
                        return entries, digs, vs, True
                    cache[ht] = j
                vs.append(cache[ht])
                if sigspecs[isig][0] == "real" and sigspecs[isig][1] == keys[ikey]:
                    isig -= 1
                    n_s -= 1
                ikey -= 1
                n_k -= 1
                if n_s > n_k:
                    ok = False
        return entries, digs, vs, False

    # the script proper first: its messages do not depend on the scriptSig, and the real signatures it needs go INTO the scriptSig
    e2, d2, v2, _stop2 = run(st.events, script, wit)
    # the stack the script finds: consumers in execution order take from the top
    stack = []
    for c in reversed(st.consumers):
        if c[0] == "sig":
            stack.append(c[1])
        else:
            stack += [b""] + (c[1][4] if c[1][4] is not None else [fake_sig(98, 1)] * len(c[1][3]))
    pushes = b"".join(S.push_data(x) if x else b"\x00" for x in stack)
    ssig, witness = b"", []
    if kind == "bare":
        ssig = bytes(pre.script) + pushes + ssig_suffix
    elif kind == "p2sh":
        ssig = pushes + S.push_data(script)
    elif kind == "p2wsh":
        witness = stack + [script]
    else:
        ssig, witness = S.push_data(prog), stack + [script]
    # checks executed inside the scriptSig (base-version evaluation of the scriptSig itself, the whole scriptSig being the script)
    e1, d1, v1, stop1 = run(pre.events, ssig, False)
    if stop1:
        e2, d2, v2 = [], [], []
    trace, digests, vals = e1 + e2, d1 + d2, v1 + [j + len(e1) for j in v2]
    ins = list(ins0)
    ins[idx] = (ins0[idx][0], ins0[idx][1], ssig, ins0[idx][3], witness)
    f = (version, lock_time, ins, outs)
    # as sighashlib.observe_checksol attributes a message: the LAST request whose digest equals it
    vmap = [max(j for j, d in enumerate(digests) if d == digests[v]) for v in vals]
    show = ",".join("%s:%d:%s:%s" % (kd, ht, hx(code), "/".join(hx(x) for x in sg) if sg else "~") for kd, ht, code, sg in trace) or "~"
    return "c04_checksol %s %s %s %d %s %s" % (coin, show_fields(f, compact=False), show_us(us), idx, show, ",".join(str(j) for j in vmap) or "~")


# ------------------------------------------------------------------------------------------------ families
def families(h):
    """name -> plan; h(i) = hash type of the i-th check of the plan"""
    cs = lambda n, src="stack", key=None: ("cs", n, n % 4 if key is None else key, h(n), src)
    emb = lambda n: ("emb", n, h(n))
    SEP = ("sep",)
    NOP = ("raw", b"\x61")
    return {
        "sep-before": [SEP, cs(0)],
        "sep-between": [cs(0), SEP, cs(1)],
        "sep-after": [cs(0), SEP],
        "sep-unexecuted-if": [("if", 0, [SEP], None), cs(0)],
        "sep-executed-if": [("if", 1, [SEP], None), cs(0)],
        "sep-unexecuted-else": [SEP, NOP, ("if", 1, [NOP], [SEP]), cs(0)],
        "sep-executed-else": [("if", 0, [NOP], [SEP, NOP]), cs(0), ("if", 0, [SEP], [NOP]), cs(1)],
        "sep-several": [SEP, cs(0), SEP, SEP, cs(1), ("if", 0, [SEP, cs(5)], None), cs(2), ("if", 1, [NOP, SEP, cs(3)], None), cs(4)],
        "sep-nested-dead": [SEP, ("if", 0, [("if", 1, [SEP], [SEP])], [("if", 1, [NOP], [SEP])]), cs(0), ("if", 1, [("if", 1, [SEP], None)], None), cs(1)],
        "emb-both-sides": [emb(0), SEP, emb(0), cs(0), emb(0)],
        "emb-inline-both-sides": [emb(0), emb(1), SEP, emb(1), cs(0, "inline"), emb(0), SEP, emb(0), emb(1), cs(1, "inline"), emb(1)],
        "emb-in-dead-branch": [SEP, ("if", 0, [emb(0), SEP], None), cs(0), ("if", 0, [SEP], [emb(1)]), cs(1)],
        "ms-two-types": [("ms", [0, 1, 2], [("real", 0, h(0)), ("real", 2, h(1))])],
        "ms-three-types-sep": [cs(4), SEP, ("ms", [0, 1, 2, 3], [("real", 0, h(0)), ("real", 1, h(1)), ("real", 3, h(2))]), SEP, cs(5)],
        "ms-same-type": [SEP, ("ms", [0, 1, 2], [("real", 1, h(0)), ("real", 2, h(0))])],
        "ms-embedded-nonmatching": [emb(7), SEP, emb(7), ("ms", [0, 1, 2], [("fake", 7, h(0)), ("real", 2, h(1))]), emb(7)],
        "ms-wrong-order": [SEP, ("ms", [0, 1, 2], [("real", 2, h(0)), ("real", 0, h(1))]), cs(3)],
        "ms-then-ms": [("ms", [0, 1], [("real", 1, h(0))]), SEP, ("ms", [2, 3], [("real", 2, h(1)), ("real", 3, h(0))])],
    }


HT_POOL = [1, 2, 3, 0x81, 0x82, 0x83, 0x41, 0x42, 0x43, 0xC1, 0xC2, 0xC3, 0, 4, 0x1F, 0x20, 0x7F, 0xFF, 0x61, 0xE3]


def gen_custom(ctx, emit):
    rng = ctx.rng
    kinds = ["bare", "p2sh", "p2wsh", "p2sh-p2wsh"]
    coins = txlib.COINS
    n_variants = ctx.n(2, 24)
    for coin in coins:
        forkid = coin in ("bch", "btg")
        for v in range(n_variants):
            off = rng.randrange(len(HT_POOL))

            def h(i, off=off, v=v):
                ht = HT_POOL[(off + 3 * i + 7 * v) % len(HT_POOL)]
                # the fork-id coins refuse a hash type without bit 0x40: keep most plans running to their end there
                return ht | 0x40 if forkid and (i + v) % 5 else ht
            for name, plan in families(h).items():
                for ki, kind in enumerate(kinds):
                    idx = (v + ki + len(name)) % 3
                    tail = b"\x51\xab" if name == "sep-after" and (v + ki) % 2 == 0 else b"\x51"
                    emit(build(coin, kind, plan, idx=idx, tail=tail, n_out=1 + (v + ki) % 3, version=1 + v % 2, lock_time=[0, 500000000][ki % 2],
                               amount=[9000, 0, 2 ** 63, 21 * 10 ** 14][(v + ki) % 4]), "custom:" + name)
        # evaluation of the scriptSig: a separator executed there must not move the start of the scriptPubKey's script code, and a CHECKSIG
        # inside the scriptSig hashes the scriptSig itself
        for v in range(n_variants):
            ht = HT_POOL[(3 * v + 1) % len(HT_POOL)] | (0x40 if forkid else 0)
            hh = lambda i, ht=ht: ht if i % 2 == 0 else (ht ^ 0x80)
            emit(build(coin, "bare", families(hh)["sep-between"], idx=v % 3, ssig_suffix=b"\xab"), "custom:scriptsig-separator")
            emit(build(coin, "bare", [("cs", 0, 0, hh(0), "stack")], idx=(v + 1) % 3, ssig_suffix=b"\x61\xab\x61"), "custom:scriptsig-separator")
            emit(build(coin, "bare", families(hh)["sep-before"], idx=v % 3, ssig_prefix=[("raw", b"\x61"), ("sep",), ("emb", 3, hh(1)), ("cs", 3, 1, hh(1), "inline")]),
                 "custom:scriptsig-checksig")
        # all 256 hash-type bytes on a legacy and on a witness script (second check: another byte, so that every byte also follows a separator)
        sweeps = [("bare", "sweep-legacy"), ("p2wsh", "sweep-witness")] + ([("p2sh", "sweep-legacy-p2sh"), ("p2sh-p2wsh", "sweep-witness-p2sh")] if ctx.thorough else [])
        for kind, tag in sweeps:
            for ht in range(256):
                h2 = (ht * 7 + 3) & 0xFF
                if forkid:
                    h2 |= 0x40
                plan = [("cs", 1, 1, h2, "inline"), ("if", 1, [("sep",)], None), ("emb", 0, ht), ("emb", 1, h2), ("cs", 0, 0, ht, "stack"),
                        ("ms", [2, 3], [("real", 3, ht)])]
                emit(build(coin, kind, plan, idx=ht % 3, n_out=2, amount=12345 + ht), "custom:" + tag)
