"""C04 — signature hashes equal the consensus definition for every hash type (legacy algorithm, BIP143, the BCH/BTG
fork-id variants, Groestlcoin's single SHA-256), and computing one never modifies the transaction."""
from __future__ import annotations

import contextlib
import importlib

from lib import show_list
import txlib
from txlib import COINS, TX, hx, parse_bytes, parse_fields, show_fields, show_bytes_compact
import sighashlib as S
from sighashlib import parse_us, show_us, build, snapshot, hex64

from pycoin.coins.bitcoin.SolutionChecker import BitcoinSolutionChecker

MANIFEST = {
    "text": "Lean theorems over the model of _signature_hash / delete_subscript / _delete_signature / the BIP143 functions of SegwitChecker and the "
            "Bcash, Bgold and Groestlcoin overrides: the bytes the model digests equal the independently written consensus serialisation "
            "(Core's CTransactionSignatureSerializer, BIP143, fork-id variants) for every in-range transaction, input index, 32-bit hash-type word and "
            "every script code of which Core writes the whole undecodable rest (all scripts with complete pushes); signature removal equals Core's "
            "FindAndDelete for EVERY script and preserves completeness (so the CHECKSIG/CHECKMULTISIG closure theorem has no hypothesis about the "
            "script FindAndDelete leaves); OP_CODESEPARATOR stripping is characterised for EVERY script (same announced length, Core's bytes a prefix, "
            "equal iff Core writes the whole rest); every coin class is covered by name (BTC = LTC algorithm, GRS single SHA-256 for legacy, BIP143 "
            "and its part hashes, BCH/BTG = BIP143 with the fork id folded in and refusal without the fork-id bit, Tx.hash(hash_type) with the "
            "appended 4-byte hash type, the SIGHASH_SINGLE out-of-range constant / zero hashOutputs under each); purity. Constants, masks, format "
            "strings and per-class behaviour are regenerated from the source; the model is tied to the code by differential correspondence on the "
            "five Tx classes, and the implementation is compared with an independent struct/hashlib re-statement of the consensus algorithms on all "
            "256 hash types. The messages handed to generator.verify during Tx.check_solution are observed on signed standard puzzles and on custom "
            "legacy / P2SH / P2WSH / P2SH-P2WSH scripts whose expected requests are written down from the consensus rules: script code starting "
            "after the last EXECUTED OP_CODESEPARATOR (before / between / after the checks, in executed vs. unexecuted IF / ELSE branches, several, as "
            "last opcode, in the scriptSig), signatures pushed on either side of the separator (removed by FindAndDelete in the base version only), "
            "CHECKMULTISIG with signatures of different hash types, all 256 hash-type bytes on a legacy and a witness script of every class.",
    "note": "SHA-256 is a function symbol in the theorems (digests equal by congruence). Residual known finding truncated-push-short-write: for a "
            "legacy script code whose cut-short last push leaves bytes behind the point where GetScriptOp gave up, Core's SerializeScriptCode announces "
            "the full length but writes fewer bytes; pycoin (after the fix that made delete_subscript/_delete_signature stop at the truncated push) "
            "serialises the whole rest. Such a script can never validate; reproducing the short write would mean bypassing Tx serialisation.",
    "technique": "Lean 4 proof (model = independent spec, prefix-free serialisation) + differential correspondence + reference oracle on the implementation",
}
RULE = ("ops c04_sighash / c04_sighash_segwit / c04_sighash_f (+ _spec twins), c04_sighash_fb (closure with begin_code_hash != 0), c04_tmp_tx, "
        "c04_preimage_*, c04_delete_subscript, c04_find_and_delete, "
        "c04_script_code_spec, c04_seq, c04_seq2 (the object edited in place between the calls), c04_checksol; all 256 hash-type bytes x input position {<,=,>} |vout| x {0,1,2} code separators x {with, without} "
        "embedded signature push on fixed shapes for the five classes + seeded random transactions + call sequences on one object; c04_checksol: signed "
        "standard puzzles x six hash types (requests harvested) and custom scripts (harness/props/c04x_gen.py: 18 separator / embedded-signature / "
        "CHECKMULTISIG families x {bare, P2SH, P2WSH, P2SH-P2WSH} x hash-type assignments, scriptSig separators, 256-byte sweeps; requests written "
        "down from the consensus rules, compared per message handed to generator.verify); distinct = distinct op "
        "line; trivial = _spec twins (they compare the Lean spec with the Python reference, not the implementation)")
ASSUMPTIONS = ["hashlib.sha256 is modelled by Model/Sha256.lean (compared on every digest op)",
               "hash types and input indices are non-negative Python ints (negative ones are outside the property and not generated)",
               "Core's GetScriptOp / FindAndDelete / SerializeScriptCode / BIP143 as re-stated in Spec/Sighash.lean and harness/sighashlib.py"]
TRUSTED = ["harness/sighashlib.py: independent re-statement of the consensus sighash algorithms (agrees with Spec/Sighash.lean on every _spec op of every run)"]


def E(e):
    return "err " + type(e).__name__


class FakeVM:
    """what the closures of _make_sighash_f read from the VM"""

    def __init__(self, script, begin=0):
        self.script = script
        self.begin_code_hash = begin


def parse_sigs(s):
    return [] if s == "~" else [parse_bytes(x) for x in s.split("/")]


def show_sigs(sigs):
    return "/".join(hx(x) for x in sigs) if sigs else "~"


# module-level hash functions used by the code paths (wrapped to observe the bytes that are hashed; no source change)
_HASH_SITES = [("pycoin.coins.bitcoin.Tx", "double_sha256"), ("pycoin.coins.groestlcoin.Tx", "sha256"),
               ("pycoin.coins.bitcoin.SegwitChecker", "double_sha256"), ("pycoin.coins.bgold.SolutionChecker", "double_sha256"),
               ("pycoin.coins.groestlcoin.SolutionChecker", "sha256")]


@contextlib.contextmanager
def recording_hashes(log):
    saved = []
    for modname, attr in _HASH_SITES:
        mod = importlib.import_module(modname)
        orig = getattr(mod, attr)
        saved.append((mod, attr, orig))

        def wrap(data, _orig=orig):
            log.append(bytes(data))
            return _orig(data)
        setattr(mod, attr, wrap)
    try:
        yield
    finally:
        for mod, attr, orig in saved:
            setattr(mod, attr, orig)


def call_checked(tx, f):
    """run f() and make sure the transaction object is exactly as before"""
    before = snapshot(tx)
    try:
        r = ("ok", f())
    except Exception as e:  # noqa: BLE001
        r = ("err", type(e).__name__)
    after = snapshot(tx)
    if before != after:
        return ("mutated", r)
    return r


def show_call(r):
    if r[0] == "ok":
        return "ok " + hex64(r[1])
    if r[0] == "err":
        return "err " + r[1]
    return "MUTATED-TX " + show_call(r[1])


def impl(op: str) -> str:
    a = op.split(" ")
    k = a[0]
    try:
        if k in ("c04_sighash", "c04_sighash_segwit"):
            coin, f, us, idx, script, ht = a[1], parse_fields(a[2]), parse_us(a[3]), int(a[4]), parse_bytes(a[5]), int(a[6])
            tx = build(coin, f, us)
            sc = tx.SolutionChecker(tx)
            if k == "c04_sighash":
                return show_call(call_checked(tx, lambda: sc._signature_hash(script, idx, ht)))
            return show_call(call_checked(tx, lambda: sc._signature_for_hash_type_segwit(script, idx, ht)))
        if k == "c04_sighash_spec":
            coin, f, us, idx, script, ht = a[1], parse_fields(a[2]), parse_us(a[3]), int(a[4]), parse_bytes(a[5]), int(a[6])
            return S.spec_sighash(coin, f, us, idx, script, ht)
        if k == "c04_sighash_segwit_spec":
            coin, f, us, idx, script, ht = a[1], parse_fields(a[2]), parse_us(a[3]), int(a[4]), parse_bytes(a[5]), int(a[6])
            return S.spec_segwit(coin, f, us, idx, script, ht)
        if k == "c04_tmp_tx":
            coin, f, idx, script, ht = a[1], parse_fields(a[2]), int(a[3]), parse_bytes(a[4]), int(a[5])
            T = TX(coin)
            seen = []

            class Rec(T):
                def hash(self, hash_type=None):
                    seen.append(txlib.dump_tx(self))
                    return super().hash(hash_type=hash_type)
            v, lock, ins, outs = f
            txs_in = []
            for h, i, s, q, w in ins:
                t = T.TxIn(h, i, s, q)
                t.witness = list(w)
                txs_in.append(t)
            tx = Rec(v, txs_in, [T.TxOut(val, s) for val, s in outs], lock)
            r = BitcoinSolutionChecker._signature_hash(tx.SolutionChecker(tx), script, idx, ht)
            return "ok " + (seen[-1] if seen else "single-bug")
        if k == "c04_preimage_legacy":
            coin, f, idx, script, ht = a[1], parse_fields(a[2]), int(a[3]), parse_bytes(a[4]), int(a[5])
            tx = build(coin, f, [])
            log = []
            with recording_hashes(log):
                BitcoinSolutionChecker._signature_hash(tx.SolutionChecker(tx), script, idx, ht)
            return "ok " + (hx(log[-1]) if log else "single-bug")
        if k == "c04_preimage_legacy_spec":
            f, idx, script, ht = parse_fields(a[1]), int(a[2]), parse_bytes(a[3]), int(a[4])
            if idx >= len(f[2]):
                return "na"
            if (ht & 0x1F) == 3 and idx >= len(f[3]):
                return "ok single-bug"
            return "ok " + hx(S.legacy_preimage(f, idx, script, ht))
        if k == "c04_preimage_segwit":
            coin, f, us, idx, script, ht = a[1], parse_fields(a[2]), parse_us(a[3]), int(a[4]), parse_bytes(a[5]), int(a[6])
            tx = build(coin, f, us)
            return "ok " + hx(tx.SolutionChecker(tx)._segwit_signature_preimage(script, idx, ht))
        if k == "c04_preimage_segwit_spec":
            coin, f, us, idx, script, ht = a[1], parse_fields(a[2]), parse_us(a[3]), int(a[4]), parse_bytes(a[5]), int(a[6])
            if idx >= len(f[2]) or idx >= len(us) or us[idx] is None:
                return "na"
            return "ok " + hx(S.bip143_preimage(coin, f, idx, script, us[idx][0], ht))
        if k == "c04_delete_subscript":
            return "ok " + hx(BitcoinSolutionChecker.delete_subscript(parse_bytes(a[1]), parse_bytes(a[2])))
        if k == "c04_find_and_delete":
            script = parse_bytes(a[1])
            tx = build("btc", (1, 0, [(b"\x11" * 32, 0, b"", 0, [])], []), [])
            sc = tx.SolutionChecker(tx)
            for s in parse_sigs(a[2]):
                script = sc._delete_signature(script, s)
            return "ok " + hx(script)
        if k == "c04_find_and_delete_spec":
            return "ok " + hx(S.script_code_for(parse_bytes(a[1]), parse_sigs(a[2])))
        if k == "c04_script_code_spec":
            return "ok " + hx(S.serialize_script_code(parse_bytes(a[1])))
        if k == "c04_sighash_f":
            coin, kind, f, us, idx, script, sigs, ht = (a[1], a[2], parse_fields(a[3]), parse_us(a[4]), int(a[5]), parse_bytes(a[6]),
                                                         parse_sigs(a[7]), int(a[8]))
            tx = build(coin, f, us)
            sc = tx.SolutionChecker(tx)
            fn = sc._make_sighash_f(idx) if kind == "legacy" else sc._make_witness_sighash_f(idx)
            return show_call(call_checked(tx, lambda: fn(ht, sigs, FakeVM(script))))
        if k == "c04_sighash_fb":
            # the closure with a VM whose begin_code_hash is not 0 (an OP_CODESEPARATOR was executed at begin - 1)
            coin, kind, f, us, idx, script, begin, sigs, ht = (a[1], a[2], parse_fields(a[3]), parse_us(a[4]), int(a[5]), parse_bytes(a[6]), int(a[7]),
                                                                parse_sigs(a[8]), int(a[9]))
            tx = build(coin, f, us)
            sc = tx.SolutionChecker(tx)
            fn = sc._make_sighash_f(idx) if kind == "legacy" else sc._make_witness_sighash_f(idx)
            return show_call(call_checked(tx, lambda: fn(ht, sigs, FakeVM(script, begin))))
        if k == "c04_sighash_f_spec":
            coin, kind, f, us, idx, script, sigs, ht = (a[1], a[2], parse_fields(a[3]), parse_us(a[4]), int(a[5]), parse_bytes(a[6]),
                                                         parse_sigs(a[7]), int(a[8]))
            if kind == "legacy":
                code = script if coin == "bch" else S.script_code_for(script, sigs)
                return S.spec_sighash(coin, f, us, idx, code, ht)
            return S.spec_segwit(coin, f, us, idx, script, ht)
        if k == "c04_seq":
            coin, f, us, script = a[1], parse_fields(a[2]), parse_us(a[3]), parse_bytes(a[4])
            tx = build(coin, f, us)
            sc = tx.SolutionChecker(tx)
            res = []
            for call in a[5].split(","):
                kd, idx, ht = call.split(":")
                idx, ht = int(idx), int(ht)
                if kd == "l":
                    r = call_checked(tx, lambda: sc._signature_hash(script, idx, ht))
                else:
                    r = call_checked(tx, lambda: sc._signature_for_hash_type_segwit(script, idx, ht))
                res.append(hex64(r[1]) if r[0] == "ok" else ("!" + r[1] if r[0] == "err" else "MUTATED-TX"))
            return "ok " + ";".join(res)
        if k == "c04_seq2":
            # ONE transaction object and ONE checker: calls, then the object is edited in place into a second transaction (fields,
            # inputs, outputs, recorded unspents), then calls again; every answer is the digest of the transaction AS IT IS THEN
            coin, f1, us1, f2, us2, script = a[1], parse_fields(a[2]), parse_us(a[3]), parse_fields(a[4]), parse_us(a[5]), parse_bytes(a[6])
            tx = build(coin, f1, us1)
            sc = tx.SolutionChecker(tx)
            res = []

            def run(calls):
                for call in calls.split(","):
                    kd, idx, ht = call.split(":")
                    idx, ht = int(idx), int(ht)
                    if kd == "l":
                        r = call_checked(tx, lambda: sc._signature_hash(script, idx, ht))
                    else:
                        r = call_checked(tx, lambda: sc._signature_for_hash_type_segwit(script, idx, ht))
                    res.append(hex64(r[1]) if r[0] == "ok" else ("!" + r[1] if r[0] == "err" else "MUTATED-TX"))
            run(a[7])
            t2 = build(coin, f2, us2)
            tx.version, tx.lock_time = t2.version, t2.lock_time
            # edit in place the way callers do: item assignment / attribute assignment where the counts agree, else list surgery
            if len(tx.txs_in) == len(t2.txs_in):
                for i, ti in enumerate(t2.txs_in):
                    o = tx.txs_in[i]
                    o.previous_hash, o.previous_index, o.script, o.sequence, o.witness = ti.previous_hash, ti.previous_index, ti.script, ti.sequence, ti.witness
            else:
                tx.txs_in[:] = t2.txs_in
            if len(tx.txs_out) == len(t2.txs_out):
                for i, to in enumerate(t2.txs_out):
                    tx.txs_out[i].coin_value, tx.txs_out[i].script = to.coin_value, to.script
            else:
                tx.txs_out[:] = t2.txs_out
            tx.unspents = t2.unspents
            run(a[8])
            return "ok " + ";".join(res)
        if k == "c04_checksol":
            coin, f, us, idx = a[1], parse_fields(a[2]), parse_us(a[3]), int(a[4])
            tx = build(coin, f, us)
            before = snapshot(tx)
            trace, vmap, vals, _outcome = S.observe_checksol(tx, idx)
            if snapshot(tx) != before:
                return "MUTATED-TX"
            # what is compared: for every message handed to generator.verify, the request (path, hash type, script code, signatures to
            # remove) it answers -- not how many requests were made (a cache per hash type is the implementation's business)
            exp_e = [] if a[5] == "~" else a[5].split(",")
            exp_v = [] if a[6] == "~" else [int(x) for x in a[6].split(",")]
            got_e = [] if not trace else show_trace(trace).split(",")
            if [got_e[j] if j >= 0 else "?" for j in vmap] != [exp_e[j] for j in exp_v]:
                return "err TraceChanged"
            return "ok " + show_list(vals, hex64)
    except Exception as e:  # noqa: BLE001
        return E(e)
    return "bad-op"


def show_trace(trace):
    return ",".join("%s:%d:%s:%s" % (kd, ht, hx(sc), show_sigs(sigs)) for kd, ht, sc, sigs, _r in trace) or "~"


def checksol_op(coin, tx, idx):
    """the c04_checksol op line for input idx of a real transaction (the trace is harvested here, once)"""
    trace, vmap, _vals, _outcome = S.observe_checksol(tx, idx)
    if any(j < 0 for j in vmap):
        return None
    return "c04_checksol %s %s %s %d %s %s" % (coin, txlib.dump_tx(tx), show_us(S.us_of(tx)), idx, show_trace(trace), show_list(vmap))


# ---------------------------------------------------------------- oracle: the property on the implementation alone

def oracle(op: str, out: str):
    a = op.split(" ")
    k = a[0]
    if "MUTATED-TX" in out:
        return "computing a signature hash modified the transaction object"
    if k in ("c04_sighash", "c04_sighash_segwit"):
        coin, f, us, idx, script, ht = a[1], parse_fields(a[2]), parse_us(a[3]), int(a[4]), parse_bytes(a[5]), int(a[6])
        forkid = coin in ("bch", "btg")
        need_amount = forkid or k == "c04_sighash_segwit"
        if not S.in_quantifier(f, idx, us, need_amount, ht):
            return None
        want = S.spec_sighash(coin, f, us, idx, script, ht) if k == "c04_sighash" else S.spec_segwit(coin, f, us, idx, script, ht)
        if want == "refused":
            if out != "err ScriptError":
                return "a hash type without the fork-id bit is not refused (got %s)" % out[:40]
            return None
        if out != want:
            detail = ""
            if need_amount and out.startswith("ok"):
                try:
                    tx = build(coin, f, us)
                    ht2 = ht | (S.BTG_FORK_ID << 8) if coin == "btg" else ht
                    got = tx.SolutionChecker(tx)._segwit_signature_preimage(script, idx, ht2)
                    detail = "; first differing BIP143 item: " + S.which_bip143_field(got, S.bip143_preimage(coin, f, idx, script, us[idx][0], ht2))
                except Exception:  # noqa: BLE001
                    pass
            return "signature hash differs from the consensus definition (hash type 0x%x, input %d of %d, %d outputs)%s" % (
                ht, idx, len(f[2]), len(f[3]), detail)
    if k == "c04_sighash_f":
        coin, kind, f, us, idx, script, sigs, ht = (a[1], a[2], parse_fields(a[3]), parse_us(a[4]), int(a[5]), parse_bytes(a[6]),
                                                     parse_sigs(a[7]), int(a[8]))
        need_amount = coin in ("bch", "btg") or kind == "witness"
        if not S.in_quantifier(f, idx, us, need_amount, ht):
            return None
        want = impl("c04_sighash_f_spec " + " ".join(a[1:]))
        if want == "refused":
            return None if out == "err ScriptError" else "a hash type without the fork-id bit is not refused (got %s)" % out[:40]
        if out != want:
            return "the message handed to signature verification differs from the consensus definition (hash type 0x%x, %d signature(s) to remove)" % (ht, len(sigs))
    if k == "c04_sighash_fb":
        coin, kind, f, us, idx, script, begin, sigs, ht = (a[1], a[2], parse_fields(a[3]), parse_us(a[4]), int(a[5]), parse_bytes(a[6]), int(a[7]),
                                                            parse_sigs(a[8]), int(a[9]))
        need_amount = coin in ("bch", "btg") or kind == "witness"
        if not S.in_quantifier(f, idx, us, need_amount, ht) or begin > len(script):
            return None
        want = impl("c04_sighash_f_spec %s %s %s %s %d %s %s %d" % (coin, kind, a[3], a[4], idx, hx(script[begin:]), a[8], ht))
        if want == "refused":
            return None if out == "err ScriptError" else "a hash type without the fork-id bit is not refused (got %s)" % out[:40]
        if out != want:
            return ("the message handed to signature verification is not the consensus one for the script code that starts after the last executed "
                    "OP_CODESEPARATOR (position %d of %d, hash type 0x%x, %s)" % (begin, len(script), ht, kind))
    if k == "c04_find_and_delete":
        script, sigs = parse_bytes(a[1]), parse_sigs(a[2])
        if out != "ok " + hx(S.script_code_for(script, sigs)):
            return "signature removal differs from FindAndDelete"
    if k == "c04_delete_subscript":
        script, sub = parse_bytes(a[1]), parse_bytes(a[2])
        if sub == b"\xab":
            # OP_CODESEPARATOR stripping = what SerializeScriptCode writes after the length
            want = S.serialize_script_code(script)
            body = parse_bytes(out[3:]) if out.startswith("ok") else None
            if body is None:
                return "OP_CODESEPARATOR stripping differs from SerializeScriptCode"
            # what consensus fixes for every script: the announced length, and the bytes written are a prefix of the stripped script
            # that lacks exactly the part of the undecodable rest GetScriptOp did not move over
            cut = short_write(script)
            if txlib.compact_size(len(body)) + body[:len(body) - cut] != want or (cut and body[len(body) - cut:] != script[len(script) - cut:]):
                return "OP_CODESEPARATOR stripping differs from SerializeScriptCode beyond the unwritten rest of a truncated push"
            if cut:
                return "OP_CODESEPARATOR stripping differs from SerializeScriptCode"
    if k == "c04_checksol" and out == "err TraceChanged":
        return ("check_solution asked for other signature hashes than the consensus ones for this input (hash type / script code / "
                "signature to remove of each check, in order): expected " + a[5][:200])
    if k == "c04_checksol" and out.startswith("ok"):
        coin, f, us, idx = a[1], parse_fields(a[2]), parse_us(a[3]), int(a[4])
        vals = [] if out[3:] == "~" else out[3:].split(",")
        entries = [] if a[5] == "~" else a[5].split(",")
        vmap = [] if a[6] == "~" else [int(x) for x in a[6].split(",")]
        for v, j in zip(vals, vmap):
            kd, ht, sc, sigs = entries[j].split(":")
            ht, sc, sigs = int(ht), parse_bytes(sc), parse_sigs(sigs)
            need_amount = coin in ("bch", "btg") or kd == "witness"
            if not S.in_quantifier(f, idx, us, need_amount, ht):
                continue
            want = impl("c04_sighash_f_spec %s %s %s %s %d %s %s %d" % (coin, kd, a[2], a[3], idx, hx(sc), show_sigs(sigs), ht))
            if want == "refused" and v.startswith("!"):
                continue
            if "ok " + v != want:
                return "the message handed to generator.verify during check_solution differs from the consensus definition (%s path, hash type 0x%x)" % (kd, ht)
    if k == "c04_seq2" and out.startswith("ok"):
        coin, script = a[1], parse_bytes(a[6])
        got = out[3:].split(";")
        plan = [(a[2], a[3], c) for c in a[7].split(",")] + [(a[4], a[5], c) for c in a[8].split(",")]
        for (fs, uss, call), g in zip(plan, got):
            kd, idx, ht = call.split(":")
            tx = build(coin, parse_fields(fs), parse_us(uss))     # fresh objects for every call
            sc = tx.SolutionChecker(tx)
            try:
                v = sc._signature_hash(script, int(idx), int(ht)) if kd == "l" else sc._signature_for_hash_type_segwit(script, int(idx), int(ht))
                w = hex64(v)
            except Exception as e:  # noqa: BLE001
                w = "!" + type(e).__name__
            if w != g:
                return ("a call on a checker / transaction object that was edited in place differs from the same call on fresh objects "
                        "holding the transaction as it is at that moment (%s)" % call)
    if k == "c04_seq" and out.startswith("ok"):
        coin, f, us, script = a[1], parse_fields(a[2]), parse_us(a[3]), parse_bytes(a[4])
        got = out[3:].split(";")
        for call, g in zip(a[5].split(","), got):
            kd, idx, ht = call.split(":")
            tx = build(coin, f, us)     # fresh objects for every call
            sc = tx.SolutionChecker(tx)
            try:
                v = sc._signature_hash(script, int(idx), int(ht)) if kd == "l" else sc._signature_for_hash_type_segwit(script, int(idx), int(ht))
                w = hex64(v)
            except Exception as e:  # noqa: BLE001
                w = "!" + type(e).__name__
            if w != g:
                return "a call in a sequence on one checker/transaction object differs from the same call on fresh objects (%s)" % call
    return None


def trivial(op: str) -> bool:
    return op.split(" ", 1)[0].endswith("_spec")


def neighbours(op, rng):
    a = op.split(" ")
    if a[0] in ("c04_sighash", "c04_sighash_segwit"):
        f = parse_fields(a[2])
        for ht in list(range(0, 4)) + [0x41, 0x42, 0x43, 0x81, 0x82, 0x83, 0xC1, 0xC2, 0xC3, 0x1F, 0x23, 0x63]:
            for idx in range(len(f[2])):
                yield "%s %s %s %s %d %s %d" % (a[0], a[1], a[2], a[3], idx, a[5], ht)
    if a[0] == "c04_sighash_f":
        for ht in (1, 2, 3, 0x41, 0x81, 0xC3):
            yield " ".join(a[:8] + [str(ht)])
    if a[0] == "c04_sighash_fb":
        for ht in (1, 2, 3, 0x41, 0x81, 0xC3):
            yield " ".join(a[:9] + [str(ht)])


def short_write(script: bytes) -> int:
    """how many bytes of the undecodable rest of `script` Core's SerializeScriptCode announces but does not write (0 for
    scripts with complete pushes, and when the failed GetScriptOp left its iterator at the end)"""
    pc = 0
    while True:
        ok, _op, new_pc = S.get_script_op(script, pc)
        if not ok:
            return len(script) - new_pc
        pc = new_pc


LEGACY_COINS = ("btc", "ltc", "grs")


def _known_short_write(v):
    """legacy digest / OP_CODESEPARATOR stripping of a script code with a truncated push Core short-writes; nothing else"""
    op = str(v.get("input", ""))
    what = str(v.get("what", ""))
    a = op.split(" ")
    try:
        if a[0] == "c04_sighash" and a[1] in LEGACY_COINS and what.startswith("signature hash differs"):
            return short_write(parse_bytes(a[5])) > 0
        if a[0] == "c04_sighash_f" and a[2] == "legacy" and a[1] in LEGACY_COINS and what.startswith("the message handed to signature verification differs"):
            return short_write(parse_bytes(a[6])) > 0
        if a[0] == "c04_delete_subscript" and a[2] == "ab" and what == "OP_CODESEPARATOR stripping differs from SerializeScriptCode":
            return short_write(parse_bytes(a[1])) > 0
    except Exception:  # noqa: BLE001
        return False
    return False


KNOWN = {"truncated-push-short-write": _known_short_write}


# ---------------------------------------------------------------- generators

def H(n):
    return bytes([n % 251 + 1]) * 32


P2PKH = bytes.fromhex("76a914") + b"\x5a" * 20 + bytes.fromhex("88ac")
SIG = bytes.fromhex("3006020101020101") + b"\x01"          # a short DER-shaped signature blob, hash type 1
SIG2 = bytes.fromhex("30080202008102020082") + b"\x83"


def code_with(nsep: int, embed: bool, base: bytes = P2PKH) -> bytes:
    """a script code with `nsep` OP_CODESEPARATORs and optionally the push of SIG embedded (between instructions)"""
    parts = [base[:3], base[3:24], base[24:]]          # DUP HASH160 | push20 | EQUALVERIFY CHECKSIG
    out = bytearray(parts[0])
    if nsep >= 1:
        out += b"\xab"
    if embed:
        out += S.push_data(SIG)
    out += parts[1]
    if nsep >= 2:
        out += b"\xab"
    out += parts[2]
    if embed:
        out += S.push_data(SIG) + b"\x75"
    return bytes(out)


SHAPES = [
    # 4 inputs / 2 outputs: input 1 < |vout|, input 2 = |vout|, input 3 > |vout|
    (1, 0, [(H(1), 0, b"\x51", 0xFFFFFFFF, []), (H(2), 1, b"\x52\x53", 0xFFFFFFFE, []), (H(3), 7, b"", 5, []), (H(4), 0xFFFFFFFF, b"\x00", 0, [])],
     [(5000, P2PKH), (0, b"\x6a")]),
    # witness data present, 1 output
    (2, 500000, [(H(5), 0, b"", 0xFFFFFFFD, [b"\x30" * 71, b"\x02" * 33]), (H(6), 3, b"\x16\x00\x14" + b"\x07" * 20, 1, [b""]), (H(7), 2, b"", 2, [])],
     [(2 ** 63, b"")]),
    # 1 input, no outputs
    (0xFFFFFFFF, 0xFFFFFFFF, [(H(8), 0, b"\x51", 0, [])], []),
    # 2 inputs, 3 outputs, long output script
    (1, 1, [(H(9), 0, b"", 0xFFFFFFFF, []), (H(10), 1, b"", 0xFFFFFFFF, [])], [(1, b"\x51"), (2 ** 64 - 1, b"\x6a" * 253), (21 * 10 ** 14, P2PKH)]),
]


def us_for(f, rng=None):
    return [(1000 + 7 * j, P2PKH) for j in range(len(f[2]))]


def gen(ctx, emit):
    rng = ctx.rng

    def rs(n):
        return bytes(rng.randrange(256) for _ in range(n))

    def e_sighash(coin, f, us, idx, script, ht, kinds=("c04_sighash", "c04_sighash_segwit"), spec=False):
        t, u, sc = show_fields(f), show_us(us), show_bytes_compact(script)
        for kd in kinds:
            emit("%s %s %s %s %d %s %d" % (kd, coin, t, u, idx, sc, ht))
            if spec:
                emit("%s_spec %s %s %s %d %s %d" % (kd, coin, t, u, idx, sc, ht))

    def e_f(coin, kind, f, us, idx, script, sigs, ht, spec=False):
        tail = "%s %s %s %s %d %s %s %d" % (coin, kind, show_fields(f), show_us(us), idx, show_bytes_compact(script), show_sigs(sigs), ht)
        emit("c04_sighash_f " + tail)
        if spec:
            emit("c04_sighash_f_spec " + tail)

    # ---- the full product on the first shape: 256 hash types x {<,=,>} x {0,1,2} separators (x embedded signature for the closure)
    f0 = SHAPES[0]
    us0 = us_for(f0)
    full_shapes = SHAPES if ctx.thorough else SHAPES[:1]
    for f in full_shapes:
        us = us_for(f)
        positions = sorted({i for i in ((1, 2, 3) if len(f[2]) >= 4 else (0, len(f[2]) - 1)) if 0 <= i < len(f[2])})
        for coin in COINS:
            for ht in range(256):
                for idx in positions:
                    for nsep in (0, 1, 2):
                        script = code_with(nsep, False)
                        # spec twins on a slice only (they do not exercise the implementation)
                        sp = (ht % 16 == idx) and nsep == 1
                        e_sighash(coin, f, us, idx, script, ht, kinds=("c04_sighash", "c04_sighash_segwit") if nsep == 1 or ctx.thorough else ("c04_sighash",), spec=sp)
                        if ctx.thorough or (ht + idx + nsep) % 3 == 0 or ht in (1, 2, 3, 0x41, 0x42, 0x43, 0x81, 0x82, 0x83, 0xC1, 0xC2, 0xC3):
                            for embed in (False, True):
                                e_f(coin, "legacy", f, us, idx, code_with(nsep, embed), [SIG], ht, spec=sp)
                        if ht in (1, 3, 0x41, 0x83) and nsep == 2:
                            e_f(coin, "witness", f, us, idx, code_with(nsep, True), [SIG], ht, spec=True)
    # ---- the closures called with begin_code_hash != 0: script code = what follows the last executed OP_CODESEPARATOR (which may
    # itself hold further separators, embedded signatures on either side, or be empty when the separator is the last opcode)
    fb_scripts = [code_with(1, False), code_with(2, False), code_with(2, True), S.push_data(SIG) + b"\x75\xab" + S.push_data(SIG) + b"\x75" + P2PKH,
                  b"\x51\x63\xab\x68" + P2PKH + b"\xab", b"\xab\xab\xab" + P2PKH, P2PKH + b"\xab", S.push_data(SIG2) + b"\xab" + S.push_data(SIG) + b"\xab\xac"]
    for coin in COINS:
        for si, script in enumerate(fb_scripts):
            begins = [i + 1 for i in range(len(script)) if script[i] == 0xAB and S.is_complete(script[:i])]
            for begin in begins:
                for hi, ht in enumerate(range(256) if ctx.thorough else (1, 2, 3, 0x41, 0x42, 0x43, 0x81, 0x83, 0xC1, 0xC2, 0xC3, 0, 0x1F, 0x60, (37 * si + 11 * begin) % 256)):
                    for kind in ("legacy", "witness"):
                        for idx in ((1, 2, 3) if ctx.thorough else ((hi + si + begin) % 3 + 1,)):
                            emit("c04_sighash_fb %s %s %s %s %d %s %d %s %d" % (coin, kind, show_fields(f0), show_us(us0), idx, hx(script), begin,
                                                                                show_sigs([SIG] if (hi + begin) % 3 else [SIG, SIG2]), ht))
    # ---- the other shapes: every hash-type byte, one position / separator combination each (quick)
    if not ctx.thorough:
        for si, f in enumerate(SHAPES[1:]):
            us = us_for(f)
            for coin in COINS:
                for ht in range(256):
                    idx = (ht + si) % len(f[2])
                    e_sighash(coin, f, us, idx, code_with(ht % 3, False), ht, spec=(ht % 32 == si))
    # ---- hash-type words beyond one byte, out-of-quantifier inputs (still compared with the model)
    for coin in COINS:
        for ht in (0x100, 0x141, 79 << 8, (79 << 8) | 0x41, 0xFFFFFFFF, 0x80000001, 2 ** 32, 2 ** 32 + 1, 2 ** 40 + 0x41):
            e_sighash(coin, f0, us0, 1, P2PKH, ht)
        for idx in (4, 5, 100):                                     # no such input
            for ht in (1, 2, 3, 0x41, 0x81, 0x82, 0x83, 0xC1, 0xC3):
                e_sighash(coin, f0, us0, idx, P2PKH, ht)
        for us in ([], us0[:1], [None] * 4, us0[:1] + [None] + us0[2:], [(2 ** 64, b"")] * 4, [(-1, b"")] * 4, [(0, b"")] * 4, [(2 ** 64 - 1, b"\x51")] * 4):
            for ht in (1, 0x41, 0xC3):
                e_sighash(coin, f0, us, 1, P2PKH, ht)
        # fields out of wire range: struct.error wherever the code packs them
        bad = [(2 ** 32, 0, f0[2], f0[3]), (1, 2 ** 32, f0[2], f0[3]), (-1, 0, f0[2], f0[3]),
               (1, 0, [(H(1), 2 ** 32, b"", 0, [])] + f0[2][1:], f0[3]), (1, 0, f0[2][:1] + [(H(2), 1, b"", 2 ** 32, [])] + f0[2][2:], f0[3]),
               (1, 0, f0[2], [(2 ** 64, b"")] + f0[3][1:]), (1, 0, f0[2], f0[3][:1] + [(-5, b"")]),
               (1, 0, [(b"\x11" * 31, 0, b"", 0, []), (b"\x12" * 33, 0, b"", 0, [])], f0[3])]
        for f in bad:
            for ht in (1, 2, 3, 0x41, 0x81, 0xC2, 0x43):
                for idx in (0, 1):
                    e_sighash(coin, f, us_for(f), idx, P2PKH, ht)
    # ---- script codes: separators everywhere, pushes that contain 0xab, truncated pushes, empty script, long scripts
    codes = [b"", b"\xab", b"\xab\xab\xab", b"\x01\xab", b"\x01\xab\xab", b"\x02\xab\xab\xab", b"\x4c\x01\xab\xab", b"\x4d\x01\x00\xab\xab",
             b"\x4e\x01\x00\x00\x00\xab\xab", b"\x4c\x00\xab", b"\x51\xab\x52\xab\x53", b"\xab" + P2PKH + b"\xab", b"\x6a" * 252, b"\x6a" * 253,
             b"\x51" * 1500, b"\x4d\xe8\xfd" + b"\xab" * 65000 + b"\xab\x51\xab", b"\xab" * 300 + b"\x51", b"\x4c\xab" + b"\xab" * 0xAB + b"\xab", b"\xff\xab\xfe"]
    truncated = [b"\x05\xab\xab", b"\x05\xab", b"\x01", b"\x4c", b"\x4c\x05\xab", b"\x4d\x01", b"\x4d\xab\x00\xab", b"\x4e\x01\x00\x00", b"\x4e\xab\x00\x00\x00\xab\xab",
                 b"\x51\xab\x02\xab", b"\xab\x4b" + b"\xab" * 10]
    for sc in codes + truncated:
        emit("c04_delete_subscript %s ab" % show_bytes_compact(sc))
        emit("c04_script_code_spec %s" % show_bytes_compact(sc))
        for coin in ("btc", "grs", "bch"):
            for ht in (1, 0x42, 0x83):
                e_sighash(coin, f0, us0, 1, sc, ht, spec=len(sc) < 400)
    for sc in codes[:12]:
        emit("c04_tmp_tx btc %s 1 %s 1" % (show_fields(f0), show_bytes_compact(sc)))
        emit("c04_preimage_legacy btc %s 1 %s 1" % (show_fields(f0), show_bytes_compact(sc)))
        emit("c04_preimage_legacy_spec %s 1 %s 1" % (show_fields(f0), show_bytes_compact(sc)))
    # ---- signature removal: pushes of every encoding class, several occurrences, near misses
    sigs_pool = [SIG, SIG2, b"", b"\x00", b"\x01", b"\x02", b"\x10", b"\x11", b"\x81", b"\x80", b"\x30" * 75, b"\x30" * 76, b"\x30" * 255, b"\x30" * 256, b"\x30" * 0x10000]
    for s in sigs_pool:
        p = S.push_data(s)
        pm = BitcoinSolutionChecker.ScriptTools.compile_push_data_list([s])
        for script in (p, p + p, b"\x51" + p + b"\x52" + p, p + b"\xac", b"\x76" + p[:-1] + b"\xac" if len(p) > 1 else b"\x76", P2PKH + p, pm + b"\x51" + pm,
                       bytes([len(p)]) + p + p if len(p) < 76 else p, b"\x4c" + bytes([len(s)]) + s + b"\x51" if len(s) < 256 else p,
                       b"\x4d" + len(s).to_bytes(2, "little") + s + p if len(s) < 65536 else p):
            emit("c04_find_and_delete %s %s" % (show_bytes_compact(script), show_sigs([s])))
            emit("c04_find_and_delete_spec %s %s" % (show_bytes_compact(script), show_sigs([s])))
    emit("c04_find_and_delete %s %s" % (hx(S.push_data(SIG) + b"\x51" + S.push_data(SIG2) + S.push_data(SIG)), show_sigs([SIG, SIG2])))
    emit("c04_find_and_delete %s %s" % (hx(S.push_data(SIG2 + SIG)), show_sigs([SIG, SIG2])))
    emit("c04_find_and_delete 51 ~")
    for sc in truncated:
        emit("c04_find_and_delete %s %s" % (hx(sc + S.push_data(SIG)), show_sigs([SIG])))
        emit("c04_find_and_delete_spec %s %s" % (hx(sc + S.push_data(SIG)), show_sigs([SIG])))
    # a signature push (and an OP_CODESEPARATOR) lying inside the undecodable rest, at every offset a resynchronising walker could land on
    for s in (SIG, b"\x30", b""):
        p = S.push_data(s)
        for head in (b"\x4b", b"\x4b\x00", b"\x4c", b"\x4c\xff", b"\x4c\xff\x00", b"\x4d\xff", b"\x4d\xff\xff", b"\x4d\xff\xff\x00", b"\x4e\xff\xff\xff",
                     b"\x4e\xff\xff\xff\x7f", b"\x4e\xff\xff\xff\x7f\x00"):
            script = p + b"\x51" + head + p + b"\xab" + p
            emit("c04_find_and_delete %s %s" % (hx(script), show_sigs([s])))
            emit("c04_find_and_delete_spec %s %s" % (hx(script), show_sigs([s])))
            emit("c04_delete_subscript %s ab" % hx(script))
            emit("c04_script_code_spec %s" % hx(script))
            for coin in ("btc", "grs"):
                e_f(coin, "legacy", f0, us0, 1, script, [s], 1, spec=True)
    # ---- preimages, field by field
    for coin in COINS:
        for ht in (1, 2, 3, 0x81, 0x82, 0x83, 0x41, 0xC3, 0x1F, 0x20):
            for idx in (0, 1, 2, 3):
                t = show_fields(f0)
                emit("c04_tmp_tx %s %s %d %s %d" % (coin, t, idx, hx(code_with(1, False)), ht))
                if coin in ("btc", "grs"):
                    emit("c04_preimage_legacy %s %s %d %s %d" % (coin, t, idx, hx(code_with(1, False)), ht))
                if coin == "btc":
                    emit("c04_preimage_legacy_spec %s %d %s %d" % (t, idx, hx(code_with(1, False)), ht))
                emit("c04_preimage_segwit %s %s %s %d %s %d" % (coin, t, show_us(us0), idx, hx(P2PKH), ht))
                if coin in ("btc", "grs"):
                    emit("c04_preimage_segwit_spec %s %s %s %d %s %d" % (coin, t, show_us(us0), idx, hx(P2PKH), ht))
    # ---- sequences of calls on one checker / one transaction object
    HT = [1, 2, 3, 0x81, 0x82, 0x83, 0x41, 0x42, 0x43, 0xC1, 0xC2, 0xC3]
    for coin in COINS:
        for f in SHAPES[:2] + SHAPES[3:]:
            us = us_for(f)
            n = len(f[2])
            fixed = [[("l", 0, 3), ("l", 1, 3), ("l", 0, 3)], [("l", 0, 2), ("l", 0, 1), ("l", 1, 1)], [("w", 0, 3), ("w", 1, 3), ("w", 0, 1), ("w", 1, 1)],
                     [("w", 1, 0x43), ("w", 0, 0x43), ("l", 0, 0x41), ("l", 1, 0x41)], [("l", 1, 0x83), ("l", 0, 0x81), ("l", 1, 2), ("l", 0, 1), ("l", 1, 1)]]
            for calls in fixed:
                emit("c04_seq %s %s %s %s %s" % (coin, show_fields(f), show_us(us), hx(code_with(1, False)), ",".join("%s:%d:%d" % c for c in calls)))
            for _ in range(ctx.n(6, 200)):
                calls = [(rng.choice("lw"), rng.randrange(n), rng.choice(HT)) for _c in range(rng.randint(2, 6))]
                emit("c04_seq %s %s %s %s %s" % (coin, show_fields(f), show_us(us), hx(code_with(rng.randrange(3), False)), ",".join("%s:%d:%d" % c for c in calls)))
    # ---- the same, with the transaction EDITED IN PLACE between the calls (one field, one sequence, one amount, an output
    # appended, an input appended, an unspent changed): a checker or a transaction that memoises part hashes answers for the past
    def edits(f, us):
        v, lt, ins, outs = f
        yield (v, lt, ins, outs + [(12345, b"\x51")]), us
        yield (v, lt, ins, [(outs[0][0] + 1, outs[0][1])] + outs[1:]), us
        yield (v, lt, ins, [(outs[0][0], outs[0][1] + b"\x51")] + outs[1:]), us
        yield (v, lt, [ins[0][:3] + ((ins[0][3] ^ 1),) + ins[0][4:]] + ins[1:], outs), us
        yield (v, lt, ins[:-1] + [ins[-1][:3] + (5,) + ins[-1][4:]], outs), us
        yield (v, lt, [ins[0][:1] + (ins[0][1] + 1,) + ins[0][2:]] + ins[1:], outs), us
        yield (v, lt, ins + [(b"\x77" * 32, 3, b"", 0xFFFFFFFE, [])], outs), us + [(777, b"\x51")]
        yield (v + 1, lt, ins, outs), us
        yield (v, lt + 1, ins, outs), us
        yield f, [(us[0][0] + 1, us[0][1])] + us[1:]
        if len(outs) > 1:
            yield (v, lt, ins, outs[:-1]), us
    for coin in COINS:
        for f in SHAPES[:2] + SHAPES[3:5]:
            us = us_for(f)
            if any(u is None for u in us):
                continue
            n = len(f[2])
            for f2, us2 in edits(f, us):
                n2 = min(n, len(f2[2]))
                for kd in "wl":
                    c1 = [(kd, 0, 1), (kd, n - 1, rng.choice([1, 0x41]))]
                    c2 = [(kd, 0, 1), (kd, n2 - 1, 1), (kd, 0, rng.choice(HT)), (kd, rng.randrange(n2), rng.choice(HT))]
                    emit("c04_seq2 %s %s %s %s %s %s %s %s" % (coin, show_fields(f), show_us(us), show_fields(f2), show_us(us2), hx(code_with(0, False)),
                                                            ",".join("%s:%d:%d" % c for c in c1), ",".join("%s:%d:%d" % c for c in c2)), "edited-in-place")
    # ---- Tx.check_solution observed: signed transactions over the standard puzzle kinds, all six standard hash types,
    # as signed and after a change that makes the signature fail (the message must be the consensus one either way)
    for coin in COINS:
        names = [n for n, _s, _e in S.puzzles(coin)]
        for ht in (1, 2, 3, 0x81, 0x82, 0x83):
            tx = S.sign_tx(coin, names, ht, n_out=rng.choice([1, 2, 3, len(names) + 1]), version=rng.choice([1, 2]), lock_time=rng.choice([0, 500000]))
            for variant in range(2):
                if variant == 1:
                    which = rng.randrange(3)
                    if which == 0 and tx.txs_out:
                        tx.txs_out[0].coin_value += 1
                    elif which == 1:
                        tx.lock_time += 1
                    else:
                        tx.txs_in[rng.randrange(len(tx.txs_in))].sequence ^= 1
                for i in range(len(names)):
                    if variant == 0 or ctx.thorough or rng.random() < 0.4:
                        o = checksol_op(coin, tx, i)
                        if o:
                            emit(o)
    # ---- one legacy script with TWO signature checks of the same hash type whose signatures are both pushed inside the script
    # code: the message of each check is the script code with THAT signature removed (FindAndDelete), so the two differ; the
    # expected trace is written down here, not harvested from the implementation (a digest cached per script would be reused)
    from pycoin.encoding.sec import public_pair_to_sec
    from pycoin.ecdsa.secp256k1 import secp256k1_generator as G0
    from pycoin.satoshi import der as _der
    for coin in COINS:
        if coin in ("bch", "btg"):
            continue      # fork-id coins take the BIP143 path for every script: no signature removal there
        for ht in (1, 2, 3, 0x81) if (ctx.thorough or coin == "btc") else (rng.choice([1, 2, 3, 0x81]),):
            pubA, pubB = (public_pair_to_sec(G0 * kk, compressed=True) for kk in S.KEYS[:2])
            sigA = _der.sigencode_der(5, 7) + bytes([ht])
            sigB = _der.sigencode_der(9, 11) + bytes([ht])
            for spk in (S.push_data(sigA) + b"\x75" + S.push_data(sigB) + b"\x75" + S.push_data(pubA) + b"\xac\x75" + S.push_data(pubB) + b"\xac",
                        S.push_data(sigB) + b"\x75" + S.push_data(pubA) + b"\xac\x75" + S.push_data(sigA) + b"\x75" + S.push_data(pubB) + b"\xac"):
                f = (1, 0, [(bytes([0x41]) * 32, 0, S.push_data(sigB) + S.push_data(sigA), 0xFFFFFFFE, []), (bytes([0x42]) * 32, 1, b"", 7, [])],
                     [(5000, P2PKH), (6000, b"\x51")])
                us = [(9000, spk), (8000, P2PKH)]
                trace = "legacy:%d:%s:%s,legacy:%d:%s:%s" % (ht, hx(spk), show_sigs([sigA]), ht, hx(spk), show_sigs([sigB]))
                emit("c04_checksol %s %s %s 0 %s 0,1" % (coin, show_fields(f), show_us(us), trace), "two-checksigs-embedded-sigs")
    # ---- custom scripts: executed / unexecuted OP_CODESEPARATORs around the checks, embedded signatures on either side, CHECKMULTISIG
    # with several hash types, all 256 hash-type bytes on a legacy and a witness script per class (expected requests written down)
    from props import c04x_gen
    c04x_gen.gen_custom(ctx, emit)
    # ---- seeded random transactions
    LCH = [0, 0, 1, 2, 25, 0xFC, 0xFD, 0x100]
    OPS = [b"\x51", b"\xab", b"\xac", b"\x76", b"\x00", b"\x01\xab", b"\x02\xab\xab", b"\x4c\x01\xab", b"\x14" + b"\x33" * 20, S.push_data(SIG), b"\x4f", b"\xae"]
    for it in range(ctx.n(1500, 60000)):
        coin = rng.choice(COINS)
        n_in = rng.choice([1, 1, 2, 3, 5])
        n_out = rng.choice([0, 1, 2, 3, 6])
        ins = []
        for j in range(n_in):
            wit = [rs(rng.choice([0, 1, 33, 72])) for _w in range(rng.choice([0, 0, 1, 2]))]
            ins.append((rs(32), rng.choice([0, 1, 0xFFFFFFFF, rng.randrange(2 ** 32)]), rs(rng.choice(LCH)),
                        rng.choice([0, 0xFFFFFFFF, 0xFFFFFFFE, rng.randrange(2 ** 32)]), wit))
        outs = [(rng.choice([0, 1, 2 ** 63, 2 ** 64 - 1, rng.randrange(2 ** 64), rng.randrange(21 * 10 ** 14)]), rs(rng.choice(LCH))) for _ in range(n_out)]
        f = (rng.choice([0, 1, 2, rng.randrange(2 ** 32)]), rng.choice([0, 1, rng.randrange(2 ** 32)]), ins, outs)
        us = [None if rng.random() < 0.03 else (rng.choice([0, 1, 2 ** 64 - 1, rng.randrange(2 ** 64), rng.randrange(21 * 10 ** 14)]), rs(rng.choice([0, 1, 25])))
              for _ in range(n_in)]
        if rng.random() < 0.03:
            us = us[:-1]
        script = b"".join(rng.choice(OPS) for _ in range(rng.randrange(0, 8)))
        if rng.random() < 0.04:
            script += rng.choice([b"\x05\xab", b"\x4c", b"\x4d\x05", b"\x4c\x09\xab\xab"])
        ht = rng.choice([rng.randrange(256), rng.randrange(256), rng.choice(HT), rng.randrange(2 ** 32)])
        idx = rng.randrange(n_in) if rng.random() < 0.97 else n_in
        r = rng.random()
        if r < 0.55:
            e_sighash(coin, f, us, idx, script, ht, spec=rng.random() < 0.2)
        elif r < 0.8:
            sigs = [rng.choice([SIG, SIG2, b"", b"\x30" * 71 + b"\x01"]) for _ in range(rng.randrange(0, 3))]
            e_f(coin, rng.choice(["legacy", "legacy", "witness"]), f, us, idx, script + b"".join(S.push_data(s) for s in sigs if rng.random() < 0.5), sigs, ht,
                spec=rng.random() < 0.2)
        elif r < 0.9:
            emit("c04_tmp_tx %s %s %d %s %d" % (coin, show_fields(f), idx, hx(script), ht))
            if txlib.fields_in_range(f) and idx < n_in and ht < 2 ** 32:
                emit("c04_preimage_legacy %s %s %d %s %d" % (coin, show_fields(f), idx, hx(script), ht))
                emit("c04_preimage_legacy_spec %s %d %s %d" % (show_fields(f), idx, hx(script), ht))
        else:
            emit("c04_preimage_segwit %s %s %s %d %s %d" % (coin, show_fields(f), show_us(us), idx, hx(script), ht))
    for it in range(ctx.n(300, 10000)):
        script = b"".join(rng.choice(OPS) for _ in range(rng.randrange(0, 10)))
        emit("c04_delete_subscript %s %s" % (hx(script), hx(rng.choice([b"\xab", b"\x51", b"\x01\xab", S.push_data(SIG)]))))
        emit("c04_script_code_spec %s" % hx(script))
