"""C05, the solver's symbolic machinery: ops c05_constraints / c05_solve_machinery / c05_sign_machinery evaluated on the REAL
`Solver.determine_constraints`, `Solver.solve_for_constraints`, `Solver.solve`, `tx.sign` — printed in the driver's canonical form
(lean/Pycoin/Driver/C05solve.lean) — with their generators and oracles.  Imported by props/c05.py."""
from __future__ import annotations

import hashlib

from lib import show_list
from txlib import hx, parse_bytes, show_fields, dump_tx

from pycoin.encoding.hash import hash160
from pycoin.solve.constraints import Atom, Operator
from pycoin.solve.utils import build_p2sh_lookup
from pycoin.coins.SolutionChecker import ScriptError

OPS = ("c05_constraints", "c05_solve_machinery", "c05_sign_machinery")


# ---------------------------------------------------------------- canonical form of constraints

def show_term(t, ht):
    if isinstance(t, Operator):
        name, args = t._op_name, t._args
        if name == "SIGNATURES_CORRECT" and len(args) == 3 and callable(args[2]):
            try:
                z = str(args[2](ht))
            except ScriptError:
                z = "none"
            return "SIGNATURES_CORRECT([%s],[%s],%s)" % (";".join(show_term(x, ht) for x in args[0]),
                                                        ";".join(show_term(x, ht) for x in args[1]), z)
        return "%s(%s)" % (name, ",".join(show_term(a, ht) for a in args))
    if isinstance(t, Atom):
        return t.name
    if isinstance(t, (bytes, bytearray)):
        return hx(bytes(t))
    return "?%s" % type(t).__name__


def show_witness(w):
    return "/".join(hx(x) for x in w) if w else "~"


# ---------------------------------------------------------------- implementation

def impl(op: str, c05) -> str:
    """c05 = the props.c05 module (build, lookup_of, parse_entries, parse_hexlist, NET, …)"""
    a = op.split(" ")
    k = a[0]
    try:
        if k == "c05_constraints":
            _, coin, tx_s, us_s, p2sh_s, idx, ht = a
            tx = c05.build(coin, tx_s, us_s)
            solver = tx.Solver(tx)
            cs = solver.determine_constraints(int(idx), p2sh_lookup=build_p2sh_lookup(c05.parse_hexlist(p2sh_s)))
            return " ".join(["ok %d" % len(cs)] + [show_term(c, int(ht)) for c in cs])
        if k == "c05_solve_machinery":
            _, coin, tx_s, us_s, p2sh_s, idx, ht, keys_s, ph = a
            tx = c05.build(coin, tx_s, us_s)
            kw = dict(p2sh_lookup=build_p2sh_lookup(c05.parse_hexlist(p2sh_s)))
            if ht != "none":
                kw["hash_type"] = int(ht)
            if ph == "none":
                kw["signature_placeholder"] = None
            elif ph != "default":
                kw["signature_placeholder"] = parse_bytes(ph)
            r = tx.Solver(tx).solve(c05.lookup_of(c05.parse_entries(keys_s)), int(idx), **kw)
            if isinstance(r, bytes):
                return "ok %s none" % hx(r)
            return "ok %s %s" % (hx(r[0]), show_witness([x for x in r[1] if x is not None]))
        if k == "c05_sign_machinery":
            _, coin, tx_s, us_s, p2sh_s, ht, keys_s, _valid = a
            tx = c05.build(coin, tx_s, us_s)
            kw = dict(p2sh_lookup=build_p2sh_lookup(c05.parse_hexlist(p2sh_s)))
            if ht != "none":
                kw["hash_type"] = int(ht)
            tx.sign(c05.lookup_of(c05.parse_entries(keys_s)), **kw)
            return "ok " + dump_tx(tx)
    except Exception as e:  # noqa: BLE001
        return "err " + type(e).__name__
    return "bad-op"
