"""C05, the solver's symbolic machinery: ops c05_constraints / c05_solve_machinery / c05_sign_machinery evaluated on the REAL
`Solver.determine_constraints`, `Solver.solve_for_constraints`, `Solver.solve`, `tx.sign` — printed in the driver's canonical form
(lean/Pycoin/Driver/C05solve.lean) — with their generators and oracles.  Imported by props/c05.py."""
from __future__ import annotations

import hashlib

from lib import show_list
from txlib import hx, parse_bytes, parse_fields, show_fields, dump_tx

from pycoin.encoding.hash import hash160
from pycoin.solve.constraints import Atom, Operator
from pycoin.solve.utils import build_p2sh_lookup
from pycoin.coins.SolutionChecker import ScriptError

OPS = ("c05_constraints", "c05_solve_machinery", "c05_sign_machinery")


# ---------------------------------------------------------------- canonical form of constraints

def show_term(t, ht):
    if isinstance(t, Operator):
        name, args = t._op_name, t._args
        if name == "SIGNATURES_CORRECT" and len(args) == 3 and callable(args[2]):
            try:
                z = str(args[2](ht))
            except ScriptError:
                z = "none"
            return "SIGNATURES_CORRECT([%s],[%s],%s)" % (";".join(show_term(x, ht) for x in args[0]),
                                                        ";".join(show_term(x, ht) for x in args[1]), z)
        return "%s(%s)" % (name, ",".join(show_term(a, ht) for a in args))
    if isinstance(t, Atom):
        return t.name
    if isinstance(t, (bytes, bytearray)):
        return hx(bytes(t))
    return "?%s" % type(t).__name__


def show_witness(w):
    return "/".join(hx(x) for x in w) if w else "~"


# ---------------------------------------------------------------- implementation

def impl(op: str, c05) -> str:
    """c05 = the props.c05 module (build, lookup_of, parse_entries, parse_hexlist, NET, …)"""
    a = op.split(" ")
    k = a[0]
    try:
        if k == "c05_constraints":
            _, coin, tx_s, us_s, p2sh_s, idx, ht = a
            tx = c05.build(coin, tx_s, us_s)
            solver = tx.Solver(tx)
            cs = solver.determine_constraints(int(idx), p2sh_lookup=build_p2sh_lookup(c05.parse_hexlist(p2sh_s)))
            return " ".join(["ok %d" % len(cs)] + [show_term(c, int(ht)) for c in cs])
        if k == "c05_solve_machinery":
            _, coin, tx_s, us_s, p2sh_s, idx, ht, keys_s, ph = a
            tx = c05.build(coin, tx_s, us_s)
            kw = dict(p2sh_lookup=build_p2sh_lookup(c05.parse_hexlist(p2sh_s)))
            if ht != "none":
                kw["hash_type"] = int(ht)
            if ph == "none":
                kw["signature_placeholder"] = None
            elif ph != "default":
                kw["signature_placeholder"] = parse_bytes(ph)
            r = tx.Solver(tx).solve(c05.lookup_of(c05.parse_entries(keys_s)), int(idx), **kw)
            if isinstance(r, bytes):
                return "ok %s none" % hx(r)
            return "ok %s %s" % (hx(r[0]), "/".join("none" if x is None else hx(x) for x in r[1]) or "~")
        if k == "c05_sign_machinery":
            _, coin, tx_s, us_s, p2sh_s, ht, keys_s, _valid = a
            tx = c05.build(coin, tx_s, us_s)
            kw = dict(p2sh_lookup=build_p2sh_lookup(c05.parse_hexlist(p2sh_s)))
            if ht != "none":
                kw["hash_type"] = int(ht)
            tx.sign(c05.lookup_of(c05.parse_entries(keys_s)), **kw)
            return "ok " + dump_tx(tx)
    except ValueError:          # EncodingError, NoSuchPointError, …: what `Solver.sign` swallows as a ValueError
        return "err ValueError"
    except Exception as e:  # noqa: BLE001
        return "err " + type(e).__name__
    return "bad-op"


# ---------------------------------------------------------------- oracle

def _listed_supplied(c05, info, entries):
    """(m, how many distinct listed keys the (good) entries control)"""
    m, listed = c05.listed_keys(info)
    have = set()
    for e in entries:
        if not c05.entry_good(e):
            continue
        h, d, x, y, comp = e
        sec = c05.public_pair_to_sec((x, y), compressed=comp)
        for i, k in enumerate(listed):
            if k == sec or k == h:
                have.add(i)
    return m, len(have)


def oracle(op: str, out: str, c05):
    """the property on the implementation alone: a solution the machinery produces for a standard puzzle with enough listed
    keys validates under the standard flags, with too few it does not; an exception `Solver.sign` swallows leaves the input as
    it was; nothing but script and witness of the input changes"""
    a = op.split(" ")
    k = a[0]
    if k == "c05_solve_machinery":
        _, coin, tx_s, us_s, p2sh_s, idx, ht, keys_s, ph = a
        idx = int(idx)
        if ph != "default" or not out.startswith("ok "):
            return None
        scripts = c05.parse_hexlist(p2sh_s)
        tx = c05.build(coin, tx_s, us_s)
        if idx >= len(tx.unspents) or tx.unspents[idx] is None:
            return None
        info = c05.analyse(tx.unspents[idx].script, scripts)
        if not info:
            return None
        if info["redeem"] is not None and len(info["redeem"]) > 520:
            return None            # cannot be spent at all: outside the property
        e_ht = c05.eff_ht(coin, None if ht == "none" else int(ht))
        if e_ht > 255 or (e_ht & 0x1f) not in (1, 2, 3) or (e_ht & ~0xdf):
            return None
        m, have = _listed_supplied(c05, info, c05.parse_entries(keys_s))
        _, sc_s, wit_s = out.split(" ")
        before_valid = tx.is_solution_ok(idx, flags=c05.std_flags(coin))
        tx.txs_in[idx].script = parse_bytes(sc_s)
        if wit_s != "none":
            if "none" in wit_s.split("/"):
                return None
            tx.set_witness(idx, [] if wit_s == "~" else [parse_bytes(x) for x in wit_s.split("/")])
        valid = tx.is_solution_ok(idx, flags=c05.std_flags(coin))
        if have >= m and not valid and not before_valid:
            # existing blobs that look like signatures may fill the slots (stale ones are re-used when they still verify only)
            return "the machinery's solution for input %d (%d of %d listed keys supplied) does not validate under the standard flags" % (idx, have, m)
        if have < m and valid and not before_valid:
            return "input %d reported valid with %d of %d keys" % (idx, have, m)
        return None
    if k == "c05_sign_machinery":
        _, coin, tx_s, us_s, p2sh_s, ht, keys_s, _valid = a
        if not out.startswith("ok "):
            return None
        f0 = parse_fields(tx_s)
        f1 = parse_fields(out[3:])
        if (f0[0], f0[1], f0[3]) != (f1[0], f1[1], f1[3]) or len(f0[2]) != len(f1[2]):
            return "signing changed version, lock time, outputs or the number of inputs"
        for i, (b, c) in enumerate(zip(f0[2], f1[2])):
            if (b[0], b[1], b[3]) != (c[0], c[1], c[3]):
                return "signing changed outpoint or sequence of input %d" % i
        return None
    return None


# ---------------------------------------------------------------- generators

def _tx_text(fields):
    return show_fields(fields, compact=False)


def _mk(coin, puzzle, scripts, entries, c05, ht=None, script=b"", witness=(), lock=0, seq=0xffffffff, ph="default", rng=None,
        version=1, value=5000, extra_ins=0):
    """the two op lines (constraints, solve) for one input spending `puzzle`"""
    h = bytes(rng.randrange(256) for _ in range(32)) if rng else b"\x11" * 32
    ins = [(h, 0, script, seq, list(witness))]
    us = ["%d:%s" % (value, hx(puzzle))]
    for j in range(extra_ins):
        ins.append((bytes([j + 1]) * 32, j, b"", 0xffffffff, []))
        us.append("700:51")
    fields = (version, lock, ins, [(1000, b"\x51"), (2000, b"\x76\xa9\x14" + b"\x07" * 20 + b"\x88\xac")])
    tx_s = _tx_text(fields)
    us_s = "|".join(us)
    p2sh_s = show_list(scripts, hx)
    keys_s = show_list(entries, c05.show_entry)
    ht_s = "none" if ht is None else str(ht)
    return ("c05_constraints %s %s %s %s 0 %d" % (coin, tx_s, us_s, p2sh_s, c05.eff_ht(coin, ht)),
            "c05_solve_machinery %s %s %s %s 0 %s %s %s" % (coin, tx_s, us_s, p2sh_s, ht_s, keys_s, ph))


def _sha(b):
    return hashlib.sha256(b).digest()


def wrap(kind, inner):
    """-> (puzzle, scripts for the p2sh lookup)"""
    if kind == "bare":
        return inner, []
    if kind == "p2sh":
        return b"\xa9\x14" + hash160(inner) + b"\x87", [inner]
    if kind == "p2wsh":
        return b"\x00\x20" + _sha(inner), [inner]
    r = b"\x00\x20" + _sha(inner)
    return b"\xa9\x14" + hash160(r) + b"\x87", [inner, r]


WRAPS = ["bare", "p2sh", "p2wsh", "p2sh-p2wsh"]


def nonstandard_scripts(rng, pool, c05):
    """(name, script) of puzzle scripts outside the standard templates that stay inside the opcodes the model mirrors
    (Model/Constraints.lean: pushes, DUP, DROP, the hash opcodes, EQUAL(VERIFY), IF/NOTIF/ELSE/ENDIF, CHECKSIG, CHECKMULTISIG,
    and any opcode whose operands are constants already on the stack)"""
    P = c05._push
    d1, d2, d3 = (rng.randrange(1, c05.N_ORDER) for _ in range(3))
    k1, k2 = pool.sec(d1), pool.sec(d2, rng.random() < 0.7)
    k3 = pool.sec(d3)
    h1, h2 = hash160(k1), hash160(k2)
    p2pkh1 = b"\x76\xa9\x14" + h1 + b"\x88\xac"
    p2pk1 = P(k1) + b"\xac"
    out = [
        ("op1", b"\x51"), ("empty", b""), ("two-ones", b"\x51\x51"), ("return", b"\x6a"), ("drop-1", b"\x75\x51"), ("dup", b"\x76"),
        ("zero", b"\x00"), ("p2pkh-nop", p2pkh1 + b"\x61"), ("nop-p2pkh", b"\x61" + p2pkh1),
        ("cltv-p2pkh", P(b"\xf4\x01") + b"\xb1\x75" + p2pkh1), ("csv-p2pk", P(b"\x05") + b"\xb2\x75" + p2pk1),
        ("two-hashes", b"\x76\xa9\x14" + h1 + b"\x88" + b"\x76\xa9\x14" + h2 + b"\x88\xac"),
        ("hash160-unknown", b"\xa9\x14" + h1 + b"\x88\x51"), ("hash160-alone", b"\xa9"), ("sha256-unknown", b"\xa8\x20" + _sha(k1) + b"\x87"),
        ("hash256-atom", b"\x76\xaa"), ("ripemd-atom", b"\xa6"), ("sha1-const", P(b"abc") + b"\xa7"),
        ("hash-preimage-known", P(k1) + b"\xa9\x14" + h1 + b"\x88" + p2pk1),
        ("equal", b"\x87"), ("equalverify-1", b"\x88\x51"), ("dup-equal", b"\x76\x87"), ("const-equal", P(b"\xab\xcd\xef") + b"\x87"),
        ("dup-equalverify", b"\x76\x88\x51"), ("consts-equal", P(b"\x01\x02") + P(b"\x01\x02") + b"\x87"),
        ("consts-equalverify-fail", P(b"\x01\x02") + P(b"\x01\x03") + b"\x88" + p2pk1),
        ("if-const", b"\x51\x63" + p2pk1 + b"\x67" + P(k2) + b"\xac\x68"), ("notif-const", b"\x00\x64" + p2pk1 + b"\x67" + b"\x00\x68"),
        ("if-empty-stack", b"\x63" + p2pk1 + b"\x67" + P(k2) + b"\xac\x68"),
        ("nested-if", b"\x51\x63\x00\x63\x51\x67" + p2pk1 + b"\x68\x67\x00\x68"),
        ("nested-if-false", b"\x00\x63\x51\x63" + p2pk1 + b"\x68\x67" + P(k2) + b"\xac\x68"),
        ("if-after-checksig", p2pk1 + b"\x63\x51\x67\x00\x68"), ("unbalanced-if", b"\x51\x63" + p2pk1), ("else-alone", b"\x67"),
        ("arith", b"\x51\x52\x93\x53\x87"), ("arith-then-p2pk", b"\x51\x52\x93\x53\x88" + p2pk1), ("depth", b"\x74\x00\x87"),
        ("altstack", b"\x51\x6b\x6c"), ("verify-const", b"\x51\x69\x51"), ("verify-false", b"\x00\x69" + p2pk1),
        ("nop1", b"\xb0\x51"), ("csv-alone", b"\xb2"), ("reserved", b"\x50"), ("bad-opcode", b"\xba"), ("disabled-cat", b"\x51\x51\x7e"),
        ("cms-alone", b"\xae"), ("cms-zero-of-one", b"\x00" + P(k1) + b"\x51\xae"), ("cms-zero-of-zero", b"\x00\x00\xae"),
        ("cms-m-gt-n", b"\x52" + P(k1) + b"\x51\xae"), ("cms-negative", b"\x4f" + P(k1) + b"\x51\xae"),
        ("cms-nonkey", b"\x51" + P(k1) + P(b"\xab\xcd") + b"\x52\xae"), ("cms-n-short", b"\x51" + P(k1) + b"\x53\xae"),
        ("cms-big-count", b"\x51" + P(k1) + P(b"\x2c\x01") + b"\xae"),
("cms-dup-key", b"\x51" + P(k1) + P(k1) + b"\x52\xae"),
        ("p2pk-truncated", p2pk1 + b"\x4c"), ("truncated-push", b"\x05\x01\x02"), ("p2pk-bigpush", P(b"\x55" * 521) + b"\x75" + p2pk1),
        ("p2pk-odd-key", P(b"\x05" + k1[1:]) + b"\xac"), ("p2pk-short-key", P(b"\x02\x03") + b"\xac"),
        ("p2pk-pushdata1-key", b"\x4c" + bytes([len(k1)]) + k1 + b"\xac"), ("checksig-alone", b"\xac"), ("key-checksig-key-checksig", p2pk1 + b"\x75" + P(k3) + b"\xac"),
        ("witness-v1", b"\x51\x20" + _sha(k1)), ("witness-v16", b"\x60\x02\xab\xcd"), ("witness-v0-badlen", b"\x00\x0a" + b"\x07" * 10),
        ("witness-v0-2", b"\x00\x02\xab\xcd"), ("almost-p2sh", b"\xa9\x14" + h1 + b"\x88"),
    ]
    return out, (d1, d2, d3)


def _entries(pool, ds):
    out = []
    for d in ds:
        out += pool.entries(d)
    return out


def _signed_blobs(c05, coin, puzzle, scripts, ents, fields_ins_hash, value=5000):
    """script and witness `tx.sign` leaves on a variant of the op's transaction (other output values): stale once the outputs change"""
    T = c05.NET(coin).tx
    tin = T.TxIn(fields_ins_hash, 0, b"", 0xffffffff)
    tx = T(1, [tin], [T.TxOut(999, b"\x51"), T.TxOut(2000, b"\x76\xa9\x14" + b"\x07" * 20 + b"\x88\xac")])
    tx.unspents = [T.TxOut(value, puzzle)]
    try:
        tx.sign(c05.lookup_of(ents), p2sh_lookup=build_p2sh_lookup(scripts))
    except Exception:  # noqa: BLE001
        return b"", []
    return tx.txs_in[0].script or b"", [w for w in tx.txs_in[0].witness if isinstance(w, bytes)]


def gen(ctx, emit, c05, pool):
    rng = ctx.rng
    HTS = c05.HASH_TYPES

    def fresh(n):
        return [rng.randrange(1, c05.N_ORDER) for _ in range(n)]

    def both(t):
        emit(t[0])
        emit(t[1])

    def ms_input(kind, m, n, compressed=True):
        ds = fresh(n)
        secs = [pool.sec(d, compressed) for d in ds]
        puzzle, scripts = wrap(kind, c05.multisig_script(m, secs))
        return ds, puzzle, scripts

    # --- 1. every standard template x coin: constraints and solution; wrong key; missing redeem/witness script
    for coin in ["btc", "bch", "btg", "ltc"]:
        for kind in c05.KINDS:
            is_ms = kind.endswith("ms")
            ds = fresh(3 if is_ms else 1)
            comp = True if "w" in kind else rng.random() < 0.6
            puzzle, scripts = c05.make_input(kind, [pool.sec(d, comp) for d in ds], 2)
            ents = _entries(pool, ds)
            both(_mk(coin, puzzle, scripts, ents, c05, ht=rng.choice(HTS + [None]), rng=rng, lock=rng.choice([0, 500000]),
                     seq=rng.choice([0xffffffff, 0xfffffffe, 0]), version=rng.choice([1, 2]), extra_ins=rng.randrange(0, 2)))
            emit(_mk(coin, puzzle, scripts, _entries(pool, fresh(1)), c05, rng=rng)[1])          # a key that is not listed
            if is_ms:
                emit(_mk(coin, puzzle, scripts, _entries(pool, ds[:1]), c05, rng=rng)[1])         # one of two needed
            if scripts:
                both(_mk(coin, puzzle, scripts[1:], ents, c05, rng=rng))                          # a script missing from the lookup
    # --- 2. m-of-n for every 1 <= m <= n <= 20: the constraint list (no signing), wrappers in rotation
    pairs = [(m, n) for n in range(1, 21) for m in range(1, n + 1)]
    rng.shuffle(pairs)
    must = [(1, 1), (20, 20), (1, 20), (10, 10), (11, 11), (10, 12), (16, 16), (17, 17), (16, 17), (15, 15), (16, 20), (9, 9), (2, 3)]
    chosen = must + pairs[:ctx.n(45, 210)]
    for j, (m, n) in enumerate(chosen):
        kind = WRAPS[j % 4] if (m, n) not in must[:4] else None
        for kd in ([kind] if kind else WRAPS):
            ds, puzzle, scripts = ms_input(kd, m, n, compressed=True if "w" in kd else rng.random() < 0.8)
            emit(_mk(rng.choice(["btc", "btc", "bch", "btg"]), puzzle, scripts, [], c05, rng=rng)[0])
    # --- 3. m-of-n solved through the machinery (signing): boundaries of the atom numbering and of the 520-byte limit
    solve_pairs = [(1, 1, "bare"), (2, 3, "p2sh"), (10, 10, "bare"), (11, 12, "p2wsh"), (9, 9, "p2sh"), (15, 15, "p2sh"), (3, 16, "p2sh"),
                   (20, 20, "p2wsh"), (17, 20, "p2sh-p2wsh"), (16, 17, "bare"), (2, 20, "bare")]
    for (m, n, kd) in solve_pairs[:ctx.n(7, 11)]:
        ds, puzzle, scripts = ms_input(kd, m, n)
        coin = rng.choice(["btc", "bch", "btg"])
        k = rng.choice([m, m, n, max(0, m - 1)])
        both(_mk(coin, puzzle, scripts, _entries(pool, rng.sample(ds, k)), c05, ht=rng.choice(HTS), rng=rng))
    for _ in range(ctx.n(6, 60)):
        n = rng.randrange(1, 8)
        m = rng.randrange(1, n + 1)
        kd = rng.choice(WRAPS)
        ds, puzzle, scripts = ms_input(kd, m, n, compressed=True if "w" in kd else rng.random() < 0.7)
        both(_mk(rng.choice(["btc", "ltc", "bch", "btg"]), puzzle, scripts, _entries(pool, rng.sample(ds, rng.randrange(0, n + 1))), c05,
                 ht=rng.choice(HTS + [None]), rng=rng, ph=rng.choice(["default", "default", "none", "3006020101020101" + "01"])))
    # --- 4. puzzles outside the templates: bare and under a wrapper
    fams, ds3 = nonstandard_scripts(rng, pool, c05)
    ents3 = _entries(pool, list(ds3))
    for name, sc in fams:
        both(_mk("btc", sc, [], ents3, c05, rng=rng))
    for name, sc in rng.sample(fams, ctx.n(24, len(fams))):
        kd = rng.choice(WRAPS[1:])
        puzzle, scripts = wrap(kd, sc)
        both(_mk(rng.choice(["btc", "bch"]), puzzle, scripts, ents3, c05, rng=rng, ht=rng.choice([None, 1, 0x83])))
    # a P2SH whose redeem script is itself P2SH / a witness program with unknown script
    inner = b"\x51"
    p1, s1 = wrap("p2sh", inner)
    p2, s2 = wrap("p2sh", p1)
    both(_mk("btc", p2, s1 + s2, ents3, c05, rng=rng))
    both(_mk("btc", b"\x00\x20" + b"\x09" * 32, [], ents3, c05, rng=rng))
    # --- 5. inputs that already carry something: stale signatures, junk pushes, a scriptSig cut short
    for kind in ["p2pkh", "p2wpkh", "p2sh-p2wpkh", "p2pk", "ms", "p2sh-ms", "p2wsh-ms"][:ctx.n(5, 7)]:
        coin = rng.choice(["btc", "bch"])
        ds = fresh(3 if kind.endswith("ms") else 1)
        puzzle, scripts = c05.make_input(kind, [pool.sec(d) for d in ds], 2)
        ents = _entries(pool, ds)
        h = bytes(rng.randrange(256) for _ in range(32))
        sc, wit = _signed_blobs(c05, coin, puzzle, scripts, ents, h)
        fields = (1, 0, [(h, 0, sc, 0xffffffff, wit)], [(1000, b"\x51"), (2000, b"\x76\xa9\x14" + b"\x07" * 20 + b"\x88\xac")])
        tx_s, us_s = _tx_text(fields), "5000:%s" % hx(puzzle)
        emit("c05_solve_machinery %s %s %s %s 0 none %s default" % (coin, tx_s, us_s, show_list(scripts, hx), show_list(ents, c05.show_entry)))
        emit("c05_sign_machinery %s %s %s %s none %s 0" % (coin, tx_s, us_s, show_list(scripts, hx), show_list(ents, c05.show_entry)))
    d = fresh(1)
    puzzle, scripts = c05.make_input("p2pkh", [pool.sec(d[0])], 1)
    both(_mk("btc", puzzle, [], _entries(pool, d), c05, rng=rng, script=c05._push(b"\x30\x06\x02\x01\x01\x02\x01\x01\x01") + c05._push(b"junk")))
    both(_mk("btc", puzzle, [], _entries(pool, d), c05, rng=rng, script=b"\x05\x01\x02"))      # IndexError in get_opcodes
    # --- 6. tx.sign over a transaction mixing templates and a non-standard input, solve = the machinery
    for _ in range(ctx.n(4, 40)):
        coin = rng.choice(["btc", "bch", "btg", "ltc"])
        ins, us, scripts, secrets = [], [], [], []
        for j in range(rng.randrange(1, 5)):
            kind = rng.choice(c05.KINDS + ["nonstd"])
            if kind == "nonstd":
                puzzle, scs = wrap(rng.choice(WRAPS[:2]), rng.choice(fams)[1])      # no witness wrapper: an unsolved w-atom would end up as None in the witness
            else:
                ds = fresh(3 if kind.endswith("ms") else 1)
                secrets += ds if rng.random() < 0.8 else ds[:1]
                puzzle, scs = c05.make_input(kind, [pool.sec(x) for x in ds], 2)
            scripts += [s for s in scs if s not in scripts]
            ins.append((bytes(rng.randrange(256) for _ in range(32)), j, b"", rng.choice([0xffffffff, 0]), []))
            us.append("%d:%s" % (3000 + j, hx(puzzle)))
        fields = (rng.choice([1, 2]), 0, ins, [(1000, b"\x51")])
        tx_s, us_s = _tx_text(fields), "|".join(us)
        tx = c05.build(coin, tx_s, us_s)
        try:
            valid = "".join("1" if tx.is_solution_ok(i) else "0" for i in range(len(ins)))
        except Exception:  # noqa: BLE001
            continue
        emit("c05_sign_machinery %s %s %s %s %s %s %s" % (coin, tx_s, us_s, show_list(scripts, hx), rng.choice(["none", "1", "131"]),
                                                       show_list(_entries(pool, secrets), c05.show_entry), valid))
