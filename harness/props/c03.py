"""C03 — script evaluation agrees with Bitcoin consensus for every script and flag set.

Specification side of the check: the real pycoin (`BitcoinVM(...).eval_script()`, `Tx.check_solution`) is compared with the
Lean rendering of Bitcoin Core's interpreter (lean/Pycoin/Spec/Consensus.lean, driver ops `spec_eval` / `spec_verify`).
Here *implementation != consensus spec is the violation*, and the op line (flags, scripts, witness, tx context) is its replay.

Every run first validates the spec itself on Core's own vectors (script_tests.json with error codes, tx_valid.json,
tx_invalid.json); a spec/vector mismatch is an infrastructure error (exit 2), never a VIOLATION.
"""
from __future__ import annotations

import hashlib
import os

import lib
from lib import hx, unhx, Infra
import c03spec as S
from c03spec import F, OP, push, push_int, scriptnum, Case

from pycoin.symbols.btc import network as BTC
from pycoin.coins.bitcoin.VM import BitcoinVM
from pycoin.coins.SolutionChecker import ScriptError
from pycoin.satoshi import errno as ERRNO
from pycoin.ecdsa.secp256k1 import secp256k1_generator as G

from props import c03x_gen as X   # multi-input transactions, P2WPKH rows of the pipeline table (generators only)
from props import c03m as M   # model side: Lean model of pycoin's own VM vs the real VM (ops prefixed `vm_`, error codes compared)

MANIFEST = {
    "text": "Bitcoin Core's pre-taproot script interpreter (EvalScript, VerifyScript, VerifyWitnessProgram, CScriptNum, CheckMinimalPush, "
            "signature/pubkey encoding rules, FindAndDelete, CLTV/CSV) written as an executable Lean specification and validated on every run "
            "against all of script_tests.json (result and error code), tx_valid.json and tx_invalid.json; the real BitcoinVM.eval_script and "
            "Tx.check_solution are compared with it (verdict, and final stack of single-script evaluations) on a deterministic table "
            "(every opcode value x operand class x executed/dead branch x flag class, all limits at n-1/n/n+1, every push form) and on "
            "seeded stack-typed random programs, P2SH/P2WSH/P2WPKH wrappers, real signatures and multisig; the pipeline table has native and "
            "P2SH-wrapped P2WPKH rows (witness item count, program sizes 19/21/31/33, uncompressed/hybrid keys, scriptSig shapes, witness on a "
            "non-witness spend) under every flag class; multi-input transactions (2-5 inputs: bare, P2SH, P2WPKH, P2WSH, P2SH-P2WPKH, P2SH-P2WSH) are "
            "validated at EVERY input index with real signatures over the digest of that index (ALL/NONE/SINGLE with and without a matching "
            "output, ANYONECANPAY, non-standard bytes), witness amounts 0/1/2^63/21e14, CLTV/CSV against THIS input's sequence at index > 0, and "
            "near-miss signatures (other index, other amount, output 0, other input's sequence) that consensus rejects. Model side (ops vm_*): a Lean "
            "model of pycoin's own VM (decoder, conditional counters, every handler of the generated INSTRUCTION_LOOKUP, CHECKSIG family, "
            "check_solution pipeline) is tied to the code by generated tables and exact differential correspondence (stack, alt stack, op "
            "count, errno), and proved to refine the specification (Props/C03.lean, C03_model_*): conditional counters = vfExec for every op "
            "sequence; IntStreamer = CScriptNum; get_opcode = GetScriptOp + CheckMinimalPush for every script and pc; check_valid_signature = IsValidSignatureEncoding, hash-type and public-key encoding checks = Core's predicates, for every byte string; eval_instruction = one "
            "iteration of Core's loop for every state and ALL 256 opcode values incl. CHECKSIG/CHECKSIGVERIFY/CHECKMULTISIG/CHECKMULTISIGVERIFY "
            "(sigdecode_der_lax = Core's lax parser; parse_and_check_signature_blob = CheckSignatureEncoding; checksigs = Core's matching loop "
            "for all m <= n by induction on the signature and key lists; NULLDUMMY, NULLFAIL, op-count contribution of the key count; "
            "_delete_signature = FindAndDelete on every script code); eval_script = EvalScript (verdict and final "
            "stack) for EVERY script, decodable or not, on stacks of items within 520 bytes (C03_model_eval_eq); check_solution = VerifyScript "
            "for every scriptSig, scriptPubKey, witness, flag set, tx context with no hypothesis but ChkWF (C03_model_verify_eq: SIGPUSHONLY, "
            "P2SH, witness v0 rules, 520-byte items, malleation rules, upgradable versions, CLEANSTACK, WITNESS_UNEXPECTED).",
    "note": "The signature check inside the spec is a parameter answered by a sig-oracle: signature hash from the independent reference "
            "harness/sighashlib.py (NOT pycoin's; the generators sign over the same reference digest, and Core's tx_valid/tx_invalid vectors pass "
            "through it on every run), ECDSA by pycoin's verify with every answer recomputed by the Lean spec (Spec/Secp256k1.lean); "
            "Core itself is not available offline, the spec is validated, not verified. The refinement theorems ask of "
            "the shared checker only ChkWF (the early exits of Core's CheckSig: C03_model_chk_wf_core); the older "
            "C03_model_step_eq_partial / C03_model_eval_eq_partial (CHECKSIG family excluded) are kept.",
    "technique": "Lean 4 executable specification + proof of refinement (Props/C03) + differential check implementation vs specification",
}
RULE = ("ops vm_* (model of pycoin's VM vs the real VM, error codes compared: harness/props/c03m.py); ops spec_eval (BitcoinVM.eval_script: verdict and final stack) and spec_verify (Tx.check_solution: verdict); deterministic table + "
        "seeded random programs; spec_verify cases whose context carries a whole transaction and an input index (Core's tx vectors; multi-* families "
        "of harness/props/c03x_gen.py: every index of 2-5 input transactions) are validated at that index; distinct = distinct op line; trivial = script of at most one byte; error codes are reported in evidence "
        "(error_code_agreement) and never compared for the verdict")
ASSUMPTIONS = [
    "sig-oracle: CheckSig(sig, pubkey, scriptCode, sigversion) inside the spec is answered by harness/c03spec.py from the signature hash "
    "computed by harness/sighashlib.py (independent struct/hashlib re-statement of Core's CTransactionSignatureSerializer and BIP143, the reference "
    "of property C04; pycoin's _signature_hash is not used, only sampled beside it for the evidence file) and pycoin's ECDSA verify (property C01); "
    "DER lax parsing and public-key parsing of the oracle are independent ports of Core / libsecp256k1 rules; every answer of the oracle is "
    "recomputed on every run by the Lean spec (Spec/Secp256k1.lean: key parsing, lax DER, ECDSA over secp256k1) from the same signature hash; "
    "the transaction fields the reference digests are read from the Tx object pycoin parsed (property C07), the generated multi-input "
    "transactions are serialised by txlib.ref_wire, not by pycoin",
    "the Lean spec is my rendering of Bitcoin Core's interpreter.cpp (0.13-0.15 vintage, the one pycoin's vectors come from), validated on every "
    "run by script_tests.json (1205 entries incl. error codes), tx_valid.json (120) and tx_invalid.json (80)",
    "single-script evaluation in the base sigversion is observed as SolutionChecker does it (MINIMALIF and WITNESS_PUBKEYTYPE removed from the flags)",
    "taproot and CONST_SCRIPTCODE are outside the property",
] + ["model side: " + a for a in M.ASSUMPTIONS]
TRUSTED = ["lean/Pycoin/Spec/Consensus.lean as a faithful rendering of Bitcoin Core's EvalScript/VerifyScript (validated against Core's JSON vectors on every run)",
           "harness/sighashlib.py as the consensus signature hash of the sig-oracle (validated on every run by the real signatures of Core's tx_valid.json / tx_invalid.json)"]

Tx = BTC.tx
ERRNAME = {v: k for k, v in vars(ERRNO).items() if isinstance(v, int) and k.isupper() and k != "ERROR_COUNT"}

# module state shared by gen / impl / oracle
CASES: dict = {}      # op line -> Case (so that impl/oracle need not parse again)
SPEC: dict = {}       # op line -> spec answer in canonical form (`ok …` / `fail`)
IMPL_ERR: dict = {}   # op line -> errno name raised by the implementation (evidence only)
STATS = {"same_code": 0, "diff_code": 0, "pairs": {}}
_N = [0]


# =================================================================== implementation side
def _impl_case(c: Case) -> tuple[str, str | None]:
    """run the real pycoin; returns (canonical answer, errno name or None)"""
    try:
        info = c.txinfo()
    except Exception as e:  # noqa: BLE001
        raise Infra("cannot build transaction for %s: %r" % (c.line()[:120], e))
    try:
        if c.kind == "eval":
            sc = info.sc
            txc = sc.tx_context_for_idx(info.idx)
            flags = c.flags
            if c.sv == "0":
                flags &= ~(F["MINIMALIF"] | F["WITNESS_PUBKEYTYPE"])
                sighash_f = sc._make_sighash_f(info.idx)
            else:
                sighash_f = sc._make_witness_sighash_f(info.idx)
            vm = BitcoinVM(c.a[0], txc, sighash_f, flags, initial_stack=list(c.a[1]))
            vm.is_solution_script = False
            out = vm.eval_script()
            return "ok " + S.fmt_stack(out), None
        _N[0] += 1
        if _N[0] % 8 == 0:
            # the other two observation points must tell the same story as check_solution
            ok1 = info.tx.is_solution_ok(info.idx, flags=c.flags)
            bad = info.tx.bad_solution_count(flags=c.flags) if len(info.tx.txs_in) == 1 else (0 if ok1 else 1)
            try:
                info.tx.check_solution(info.idx, flags=c.flags)
                ok0 = True
            except ScriptError:
                ok0 = False
            if ok1 != ok0 or (bad == 0) != ok0:
                return "err is_solution_ok=%s/bad_solution_count=%d/check_solution=%s" % (ok1, bad, ok0), None
        info.tx.check_solution(info.idx, flags=c.flags)
        return "ok", None
    except ScriptError as e:
        code = e.error_code()
        return "fail", ERRNAME.get(code, "NONE" if code is None else str(code))
    except Exception as e:  # noqa: BLE001
        return "err " + type(e).__name__, None


def _case(op: str) -> Case:
    c = CASES.get(op)
    if c is None:
        c = S.case_from_op(op)
    return c


_HW = []


def _impl_h(op: str) -> str:
    """evaluate a spec_eval / spec_verify op in a child process where pycoin selected its bundled pure-Python RIPEMD-160
    (the choice is made at import time): the verdict and the stack must be those of consensus in that configuration too"""
    import subprocess, sys
    if not _HW:
        here = os.path.dirname(os.path.dirname(os.path.abspath(__file__)))
        code = ("import sys\nsys.path[:0] = [%r, %r]\nfrom props import c03\nfrom pycoin.encoding import hash as H\n"
                "print('worker ripemd160=' + getattr(H.ripemd160, '__module__', '?'), flush=True)\n"
                "for l in sys.stdin:\n    print(c03.impl(l.rstrip('\\n')), flush=True)\n") % (here, os.path.join(here, "props"))
        w = subprocess.Popen([sys.executable, "-c", code], stdin=subprocess.PIPE, stdout=subprocess.PIPE, text=True, bufsize=1,
                             env=dict(os.environ, PYCOIN_USE_PYTHON_RIPEMD160="1"))
        hello = w.stdout.readline().strip()
        if not hello.startswith("worker ripemd160="):
            raise Infra("fallback-hash worker did not start: %r" % hello)
        _HW.append(w)
        _HW.append(hello)
    w = _HW[0]
    w.stdin.write(op + "\n")
    w.stdin.flush()
    out = w.stdout.readline()
    if not out:
        raise Infra("fallback-hash worker died on: %s" % op[:200])
    return out.rstrip("\n")


def impl(op: str) -> str:
    k = op.split(" ", 1)[0]
    if k.startswith("vm_"):
        return M.impl(op)
    if k in ("spec_eval_h", "spec_verify_h"):
        return _impl_h(k[:-2] + " " + op.split(" ", 1)[1])
    if k not in ("spec_eval", "spec_verify"):
        return "bad-op"
    out, err = _impl_case(_case(op))
    if err:
        IMPL_ERR[op] = err
    return out


def _canon(spec_x: str) -> str:
    return "fail" if spec_x.startswith("fail") else spec_x


def oracle(op: str, impl_out: str):
    """the property on the implementation: same verdict as the consensus spec, same stack on success"""
    if op.startswith("vm_"):
        return M.oracle(op, impl_out)
    want = SPEC.get(op)
    if want is None:
        c = S.case_from_op(op)
        c.table = dict(c.table)
        S.resolve([c])
        want = _canon(c.spec)
        SPEC[op] = want
    if want == "precondition":
        return None  # flag set Core does not permit: outside the quantifier
    if impl_out != want:
        return "pycoin %s, consensus %s" % (impl_out[:120], want[:120])
    return None


def trivial(op: str) -> bool:
    if op.startswith("vm_"):
        return M.trivial(op)
    a = op.split(" ")
    return len(a[2]) <= 2 and (a[0] == "spec_eval" or len(a[3]) <= 2)


# =================================================================== known findings (class predicates)
KNOWN: dict = {}


# =================================================================== spec validation on Core's vectors
def validate_spec(ctx):
    norm = lambda f: f | F["P2SH"] | F["WITNESS"] if f & F["CLEANSTACK"] else f  # script_tests.cpp DoTest does the same
    cs = S.script_test_cases()
    for c, _, _ in cs:
        c.flags = norm(c.flags)
    S.resolve([c for c, _, _ in cs])
    bad = []
    for c, exp, com in cs:
        got = "OK" if c.spec == "ok" else c.spec.split(" ")[-1]
        if got != exp:
            bad.append("script_tests: expected %s, spec %s: %s [%s]" % (exp, c.spec, c.line()[:300], com[:80]))
    n_tx = {}
    by_check_tx = 0
    txcases = []
    for name, expect_ok in (("tx_valid.json", True), ("tx_invalid.json", False)):
        tvs = S.tx_test_cases(name)
        allc = [c for cc, _, _ in tvs for c in cc]
        for c in allc:
            c.flags = norm(c.flags)
        S.resolve(allc)
        S.cross_check_oracle()
        txcases += allc
        n_tx[name] = len(tvs)
        for cc, tx, txhex in tvs:
            ok = all(c.spec == "ok" for c in cc)
            if ok == expect_ok:
                continue
            if not expect_ok:
                # Core's test: CheckTransaction fails *or* some input fails
                try:
                    tx.check()
                except Exception:  # noqa: BLE001
                    by_check_tx += 1
                    continue
            bad.append("%s: spec says %s: %s" % (name, [c.spec for c in cc], txhex[:120]))
    # the harness' own lax DER port against the Lean one
    rng = lib.random.Random("C03/laxder/%d" % ctx.seed)
    blobs = [der_mutant(rng) for _ in range(400)]
    outs = lib.run_driver(["spec_laxder " + hx(b) for b in blobs])
    for b, o in zip(blobs, outs):
        r = S.lax_der(b)
        mine = "fail" if r is None else "ok %d %d" % r
        if mine != o:
            bad.append("lax DER port differs from the spec on %s: %s vs %s" % (b.hex(), mine, o))
    # the vectors' script text is parsed by an own port of Core's ParseScript; how often does pycoin's compiler read it the same way?
    same_text = diff_text = 0
    import json as _json
    for e in _json.loads((S.DATA / "script_tests.json").read_text()):
        if len(e) < 4:
            continue
        if isinstance(e[0], list):
            e = e[1:]
        for text in e[:2]:
            try:
                theirs = BTC.script.compile(text)
            except Exception:  # noqa: BLE001
                theirs = None
            if theirs == S.parse_core_script(text):
                same_text += 1
            else:
                diff_text += 1
    if bad:
        raise Infra("consensus spec does not reproduce Core's vectors (%d mismatches): %s" % (len(bad), " || ".join(bad[:5])))
    ctx.extra_cov["spec_validation"] = {"script_tests": len(cs), "tx_valid": n_tx["tx_valid.json"], "tx_invalid": n_tx["tx_invalid.json"],
                                        "tx_invalid_rejected_by_CheckTransaction_only": by_check_tx, "lax_der_cross_checks": len(blobs),
                                        "script_texts_parsed_like_pycoin_compile": same_text, "script_texts_parsed_differently": diff_text,
                                        "mismatches": 0}
    return [c for c, _, _ in cs], txcases


# =================================================================== generators
MAXINT = 0x7FFFFFFF
NUMS = [b"", b"\x00", b"\x80", b"\x00\x80", b"\x00\x00", b"\x01", b"\x81", b"\x02", b"\x7f", b"\xff", b"\x80\x00", b"\x80\x80",
        b"\xff\x00", b"\x01\x00", b"\x01\x80", b"\x00\x01", b"\xff\xff\x7f", b"\xff\xff\xff\x7f", b"\xff\xff\xff\xff", b"\x00\x00\x00\x80",
        b"\x00\x00\x00\x80\x00", b"\xff\xff\xff\xff\x7f", b"\xff\xff\xff\xff\xff", b"\x00\x00\x00\x00\x00", b"\x01\x00\x00\x00\x00",
        b"\x01\x00\x00\x00\x00\x00", b"\x10", b"\x11", b"\x14", b"\x15"]
BOOLS = [b"", b"\x00", b"\x80", b"\x00\x80", b"\x00\x00", b"\x00\x00\x80", b"\x01", b"\x01\x00", b"\x02", b"\x81", b"\x80\x00",
         b"\x00" * 520, b"\x00" * 519 + b"\x80", b"\x00" * 519 + b"\x01", b"\x00\x00\x00\x00\x00", b"\x80\x80"]
DATA = [b"", b"\x00", b"a", b"abc", b"\x00" * 20, b"\x01" * 32, b"\xff" * 75, b"\x07" * 76, b"\x00" * 255, b"\x09" * 256, b"\x05" * 520]


def push_min(d: bytes) -> bytes:
    """the minimal push of d (what CheckMinimalPush accepts)"""
    if len(d) == 0:
        return b"\x00"
    if len(d) == 1 and 1 <= d[0] <= 16:
        return bytes([0x50 + d[0]])
    if d == b"\x81":
        return b"\x4f"
    return push(d)


def push_form(d: bytes, form: int) -> bytes:
    """form 0 direct, 1 PUSHDATA1, 2 PUSHDATA2, 4 PUSHDATA4 (caller makes sure it fits)"""
    n = len(d)
    if form == 0:
        return bytes([n]) + d
    if form == 1:
        return b"\x4c" + bytes([n]) + d
    if form == 2:
        return b"\x4d" + n.to_bytes(2, "little") + d
    return b"\x4e" + n.to_bytes(4, "little") + d


def sc(*parts) -> bytes:
    """assemble a script: ints are opcodes, str opcode names, bytes raw script bytes"""
    out = bytearray()
    for p in parts:
        if isinstance(p, int):
            out.append(p)
        elif isinstance(p, str):
            if p.lstrip("-").isdigit():
                out += push_int(int(p))
            else:
                out.append(OP[p])
        else:
            out += p
    return bytes(out)


EVAL_FLAG_BITS = ["STRICTENC", "DERSIG", "LOW_S", "NULLDUMMY", "MINIMALDATA", "DISCOURAGE_UPGRADABLE_NOPS", "CHECKLOCKTIMEVERIFY",
                  "CHECKSEQUENCEVERIFY", "NULLFAIL"]
STD = sum(F[k] for k in F)  # every flag
FLAG_CLASSES = [0, F["MINIMALDATA"], F["DISCOURAGE_UPGRADABLE_NOPS"], F["CHECKLOCKTIMEVERIFY"] | F["CHECKSEQUENCEVERIFY"], STD]


def rand_eval_flags(rng) -> int:
    r = rng.random()
    if r < 0.15:
        return 0
    if r < 0.3:
        return STD
    if r < 0.5:
        return F["MINIMALDATA"] | (rng.getrandbits(16) & STD if rng.random() < 0.5 else 0)
    f = 0
    for k in EVAL_FLAG_BITS:
        if rng.random() < 0.4:
            f |= F[k]
    if rng.random() < 0.3:
        f |= F["MINIMALIF"] | F["WITNESS_PUBKEYTYPE"]
    return f


def rand_verify_flags(rng) -> int:
    """a subset of the 16 flags that Core permits (CLEANSTACK => P2SH & WITNESS, WITNESS => P2SH)"""
    r = rng.random()
    if r < 0.1:
        f = 0
    elif r < 0.3:
        f = STD
    elif r < 0.45:
        f = F["P2SH"] | F["WITNESS"]
    else:
        f = rng.getrandbits(16)
        if rng.random() < 0.5:
            f |= F["P2SH"]
        if rng.random() < 0.5:
            f |= F["WITNESS"]
    if f & F["CLEANSTACK"]:
        f |= F["P2SH"] | F["WITNESS"]
    if f & F["WITNESS"]:
        f |= F["P2SH"]
    return f


def rand_num(rng) -> bytes:
    r = rng.random()
    if r < 0.45:
        return rng.choice(NUMS)
    if r < 0.7:
        return scriptnum(rng.randint(-20, 20))
    if r < 0.85:
        return scriptnum(rng.choice([1, -1]) * rng.getrandbits(rng.choice([7, 8, 15, 16, 23, 24, 31])))
    if r < 0.93:
        return scriptnum(rng.choice([MAXINT, -MAXINT, MAXINT - 1, MAXINT + 1, -MAXINT - 1, 2 ** 39 - 1, 2 ** 32, 2 ** 31]))
    return bytes(rng.getrandbits(8) for _ in range(rng.randint(1, 6)))


def rand_bool(rng) -> bytes:
    r = rng.random()
    if r < 0.5:
        return rng.choice(BOOLS)
    if r < 0.8:
        return rng.choice([b"", b"\x01"])
    return rand_num(rng)


def rand_data(rng) -> bytes:
    r = rng.random()
    if r < 0.4:
        return rng.choice(DATA)
    if r < 0.8:
        return bytes(rng.getrandbits(8) for _ in range(rng.randint(0, 40)))
    return bytes([rng.getrandbits(8)]) * rng.choice([1, 2, 33, 65, 75, 76, 100, 255, 256, 519, 520])


UNARY = ["1ADD", "1SUB", "NEGATE", "ABS", "NOT", "0NOTEQUAL"]
BINARY = ["ADD", "SUB", "BOOLAND", "BOOLOR", "NUMEQUAL", "NUMNOTEQUAL", "LESSTHAN", "GREATERTHAN", "LESSTHANOREQUAL",
          "GREATERTHANOREQUAL", "MIN", "MAX"]
HASHES = ["RIPEMD160", "SHA1", "SHA256", "HASH160", "HASH256"]
# stack manipulation: name -> (items needed, net effect)
STACKOPS = {"2DROP": (2, -2), "2DUP": (2, 2), "3DUP": (3, 3), "2OVER": (4, 2), "2ROT": (6, 0), "2SWAP": (4, 0), "DEPTH": (0, 1),
            "DROP": (1, -1), "DUP": (1, 1), "NIP": (2, -1), "OVER": (2, 1), "ROT": (3, 0), "SWAP": (2, 0), "TUCK": (2, 1), "SIZE": (1, 1)}
DISABLED = ["CAT", "SUBSTR", "LEFT", "RIGHT", "INVERT", "AND", "OR", "XOR", "2MUL", "2DIV", "MUL", "DIV", "MOD", "LSHIFT", "RSHIFT"]
NOPS = ["NOP", "NOP1", "NOP4", "NOP5", "NOP6", "NOP7", "NOP8", "NOP9", "NOP10"]


class Synth:
    """stack-typed program synthesis: every snippet pushes the operands its opcode needs (or takes them from the stack when the
    abstract depth allows), so most programs run to completion; `d` is the abstract main-stack depth, `alt` the alt-stack depth"""

    def __init__(self, rng, depth=0, minimal=True, ctxd=None):
        self.rng, self.d, self.alt, self.minimal, self.out = rng, depth, 0, minimal, bytearray()
        self.nops = 0
        self.ctxd = ctxd or {}

    def P(self, d: bytes):
        """push data (minimal form mostly; a non-minimal form now and then unless self.minimal)"""
        if len(d) > 520 and self.rng.random() < 0.9:
            d = d[:520]
        if not self.minimal and self.rng.random() < 0.15:
            forms = [f for f, mx in ((0, 75), (1, 255), (2, 65535), (4, 1 << 32)) if len(d) <= mx]
            self.out += push_form(d, self.rng.choice(forms))
        else:
            self.out += push_min(d)
        self.d += 1

    def O(self, name, net):
        self.out.append(OP[name] if isinstance(name, str) else name)
        self.d += net
        self.nops += 1

    def need(self, k):
        while self.d < k:
            self.P(rand_data(self.rng) if self.rng.random() < 0.5 else rand_num(self.rng))

    def operand(self, gen):
        """operand from the generator, or (sometimes) whatever is on the stack"""
        if self.d > 0 and self.rng.random() < 0.12:
            return
        self.P(gen(self.rng))

    def snippet(self, level=0):
        rng = self.rng
        r = rng.random()
        if r < 0.10:
            self.P(rng.choice([rand_num, rand_bool, rand_data])(rng))
        elif r < 0.14:
            self.O(rng.choice([0x00, 0x4F] + list(range(0x51, 0x61))), 1)
            self.nops -= 1
        elif r < 0.24:
            before = self.d
            self.operand(rand_num)
            self.need(1)
            self.O(rng.choice(UNARY), 0)
            _ = before
        elif r < 0.36:
            self.operand(rand_num)
            self.operand(rand_num)
            self.need(2)
            self.O(rng.choice(BINARY), -1)
        elif r < 0.39:
            a = rand_num(rng)
            self.P(a)
            self.P(a if rng.random() < 0.7 else rand_num(rng))
            self.O("NUMEQUALVERIFY", -2)
        elif r < 0.44:
            for _ in range(3):
                self.operand(rand_num)
            self.need(3)
            self.O("WITHIN", -2)
        elif r < 0.56:
            name = rng.choice(list(STACKOPS))
            k, net = STACKOPS[name]
            self.need(k)
            self.O(name, net)
        elif r < 0.60:
            # PICK / ROLL with an index around the depth
            self.need(rng.randint(1, 4))
            n = rng.choice([0, 0, 1, self.d - 1, self.d, self.d + 1, -1, 2])
            v = scriptnum(n) if rng.random() < 0.8 else rand_num(rng)
            self.P(v)
            self.O(rng.choice(["PICK", "ROLL"]), -1 if rng.random() < 2 else 0)
            if self.out[-1] == OP["ROLL"]:
                self.d -= 1
        elif r < 0.64:
            self.operand(rand_bool)
            self.need(1)
            self.O("IFDUP", 0)
            # depth now uncertain by one: settle it
            self.O("DEPTH", 1)
            self.O("DROP", -1)
        elif r < 0.68:
            self.operand(rand_data)
            self.need(1)
            self.O(rng.choice(HASHES), 0)
        elif r < 0.73:
            a = rand_data(rng)
            self.P(a)
            self.P(a if rng.random() < 0.6 else rand_data(rng))
            if rng.random() < 0.5:
                self.O("EQUAL", -1)
            else:
                self.O("EQUALVERIFY", -2)
        elif r < 0.76:
            self.P(rand_bool(rng) if rng.random() < 0.3 else b"\x01")
            self.O("VERIFY", -1)
        elif r < 0.80:
            if self.alt > 0 and rng.random() < 0.6:
                self.O("FROMALTSTACK", 1)
                self.alt -= 1
            else:
                self.need(1)
                self.O("TOALTSTACK", -1)
                self.alt += 1
        elif r < 0.84:
            self.O(rng.choice(NOPS), 0)
        elif r < 0.88:
            self.locktime_snippet()
        elif r < 0.90:
            self.O("CODESEPARATOR", 0)
        elif r < 0.93:
            self.checksig_snippet()
        elif r < 0.97 and level < 3:
            self.conditional(level)
        else:
            self.rare()

    def checksig_snippet(self):
        """CHECKSIG / CHECKMULTISIG on signature-like and key-like blobs (none of them verifies: encodings, counts, op-count, NULLFAIL)"""
        rng = self.rng

        def sigish():
            r = rng.random()
            if r < 0.35:
                return b""
            if r < 0.75:
                return der_mutant(rng) + bytes([rng.choice(HASHTYPES)])
            if r < 0.85:
                return der_sig(rng.getrandbits(255) + 1, rng.getrandbits(250) + 1) + bytes([rng.choice(HASHTYPES)])
            return rand_data(rng)[:80]

        def keyish():
            r = rng.random()
            if r < 0.6:
                return sec(rng.randrange(len(SECRETS)), rng.choice(KEYFORMS_OK))
            if r < 0.85:
                return sec(rng.randrange(len(SECRETS)), rng.choice(KEYFORMS_BAD))
            return rand_data(rng)[:70]

        if rng.random() < 0.5:
            self.P(sigish())
            self.P(keyish())
            if rng.random() < 0.75:
                self.O("CHECKSIG", -1)
                if rng.random() < 0.6:
                    self.O("NOT", 0)
            else:
                self.O("CHECKSIG", -1)
                self.O("NOT", 0)
                self.O("VERIFY", -1)
        else:
            nk = rng.choice([0, 1, 2, 3, 5, 20, 21])
            ns = rng.randint(0, min(nk, 3)) if rng.random() < 0.9 else nk + 1
            self.P(b"" if rng.random() < 0.8 else b"\x01")
            for _ in range(ns):
                self.P(sigish())
            self.P(scriptnum(ns) if rng.random() < 0.9 else rand_num(rng))
            for _ in range(nk):
                self.P(keyish())
            self.P(scriptnum(nk) if rng.random() < 0.9 else rand_num(rng))
            self.O("CHECKMULTISIG", -(ns + nk + 2))
            self.nops += nk
            if rng.random() < 0.6:
                self.O("NOT", 0)

    def locktime_snippet(self):
        rng = self.rng
        lt = self.ctxd.get("lock_time", 0)
        sq = self.ctxd.get("sequence", 0xFFFFFFFF)
        if rng.random() < 0.5:
            cands = [0, 1, lt - 1, lt, lt + 1, 499999999, 500000000, 500000001, -1, 0xFFFFFFFF, 2 ** 32, 2 ** 39 - 1, 2 ** 39]
            v = scriptnum(rng.choice(cands)) if rng.random() < 0.85 else rand_num(rng)
            self.P(v)
            self.O("CHECKLOCKTIMEVERIFY", 0)
        else:
            m = sq & 0x0040FFFF
            cands = [0, 1, m - 1, m, m + 1, 0xFFFF, 0x10000, 1 << 22, (1 << 22) | (m & 0xFFFF), (1 << 22) - 1, 1 << 31, (1 << 31) | 5, -1, 2 ** 32, 2 ** 39 - 1,
                     sq, sq & 0x7FFFFFFF]
            v = scriptnum(rng.choice(cands)) if rng.random() < 0.85 else rand_num(rng)
            self.P(v)
            self.O("CHECKSEQUENCEVERIFY", 0)
        if rng.random() < 0.7:
            self.O("DROP", -1)

    def dead_code(self, level):
        """bytes for a branch that is not executed: anything goes as long as IF/ENDIF stay balanced (mostly)"""
        rng = self.rng
        out = bytearray()
        for _ in range(rng.randint(0, 5)):
            r = rng.random()
            if r < 0.25:
                out += push_min(rand_data(rng)[:80])
            elif r < 0.35:
                out.append(OP[rng.choice(DISABLED)] if rng.random() < 0.3 else OP[rng.choice(["VER", "RESERVED", "RESERVED1", "RESERVED2", "RETURN"])])
            elif r < 0.42:
                out.append(rng.choice([0x65, 0x66]) if rng.random() < 0.3 else rng.randint(0xBA, 0xFF))
            elif r < 0.5:
                out += bytes([OP["IF"]]) + push_min(b"\x01") + bytes([OP["ENDIF"]])
            elif r < 0.55:
                out += bytes([OP["NOTIF"], OP["ELSE"], OP["ELSE"], OP["ENDIF"]])
            elif r < 0.6:
                out += push_form(b"\x05", rng.choice([1, 2, 4]))  # non-minimal push in dead code
            elif r < 0.63:
                out += push_form(b"\x00" * 521, 2)
            else:
                out.append(rng.randint(0x61, 0xB9))
        self.nops += len(out)  # upper bound
        return bytes(out)

    def block(self, level):
        """a balanced block (net stack effect 0, never digs below its entry depth)"""
        sub = Synth(self.rng, 0, self.minimal, self.ctxd)
        for _ in range(self.rng.randint(0, 3)):
            sub.snippet(level + 1)
        while sub.d > 0:
            sub.O("DROP", -1)
        while sub.alt > 0:
            sub.O("FROMALTSTACK", 1)
            sub.O("DROP", -1)
            sub.alt -= 1
        self.nops += sub.nops
        return bytes(sub.out)

    def conditional(self, level):
        rng = self.rng
        cond = rand_bool(rng)
        truth = any(b for b in cond[:-1]) or (len(cond) > 0 and cond[-1] not in (0, 0x80))
        self.P(cond)
        op = rng.choice(["IF", "NOTIF"])
        taken = truth if op == "IF" else not truth
        self.O(op, -1)
        self.out += self.block(level) if taken else self.dead_code(level)
        if rng.random() < 0.6:
            self.O("ELSE", 0)
            self.out += self.dead_code(level) if taken else self.block(level)
            if rng.random() < 0.1:
                self.O("ELSE", 0)
                self.out += self.block(level) if taken else self.dead_code(level)
        if rng.random() < 0.97:
            self.O("ENDIF", 0)

    def rare(self):
        rng = self.rng
        r = rng.random()
        if r < 0.25:
            self.O(rng.choice(DISABLED), 0)
        elif r < 0.45:
            self.O(rng.choice(["VER", "RESERVED", "RESERVED1", "RESERVED2", "VERIF", "VERNOTIF", "RETURN"]), 0)
        elif r < 0.6:
            self.O(rng.randint(0xBA, 0xFF), 0)
        elif r < 0.7:
            self.O(rng.choice(["ELSE", "ENDIF"]), 0)
        elif r < 0.8:
            self.out += push_form(rand_data(rng)[:70], rng.choice([0, 1, 2, 4]))
            self.d += 1
        elif r < 0.9:
            # truncated push at the end
            self.out += bytes([rng.choice([0x05, 0x4C, 0x4D, 0x4E])]) + bytes(rng.randint(0, 3))
        else:
            self.out += push_form(b"\x00" * rng.choice([520, 521]), 2)
            self.d += 1


def synth_program(rng, minimal, ctxd, depth0=0):
    s = Synth(rng, depth0, minimal, ctxd)
    for _ in range(rng.choice([1, 2, 3, 4, 6, 8, 12, 20])):
        s.snippet()
    return bytes(s.out)


def rand_ctx(rng) -> str:
    r = rng.random()
    if r < 0.4:
        return S.fmt_ctx()
    version = rng.choice([1, 2, 2, 3, 0, 0xFFFFFFFF, 0x80000000])
    lock_time = rng.choice([0, 1, 100, 499999999, 500000000, 500000001, 0xFFFFFFFF, rng.getrandbits(32)])
    sequence = rng.choice([0xFFFFFFFF, 0xFFFFFFFE, 0, 1, 0xFFFF, 0x10000, 1 << 22, (1 << 22) | 7, 1 << 31, (1 << 31) | 9, 0x7FFFFFFF, rng.getrandbits(32)])
    amount = rng.choice([0, 1, 100000000, 21 * 10 ** 14])
    return S.fmt_ctx(version, lock_time, sequence, amount)


def rand_initial_stack(rng):
    return [rng.choice([rand_num, rand_bool, rand_data])(rng) for _ in range(rng.choice([0, 0, 0, 1, 2, 3, 6]))]


# ---------------------------------------------------------------------------------------------- keys and signatures
SECRETS = [1, 2, 3, 0x1234567890ABCDEF, S.N - 1]
POINTS = [tuple(int(v) for v in (G * s)) for s in SECRETS]


def sec(i, form="c") -> bytes:
    x, y = POINTS[i]
    xb, yb = x.to_bytes(32, "big"), y.to_bytes(32, "big")
    if form == "c":
        return bytes([2 + (y & 1)]) + xb
    if form == "u":
        return b"\x04" + xb + yb
    if form == "h":
        return bytes([6 + (y & 1)]) + xb + yb
    if form == "hbad":  # hybrid with the wrong parity byte
        return bytes([7 - (y & 1)]) + xb + yb
    if form == "c5":  # 33 bytes, prefix 05
        return b"\x05" + xb
    if form == "cflip":  # the other root: a valid key, but not this one
        return bytes([3 - (y & 1)]) + xb
    if form == "short":
        return bytes([2 + (y & 1)]) + xb[:-1]
    if form == "long":
        return b"\x04" + xb + yb + b"\x00"
    if form == "u33":  # prefix 04 with 33 bytes
        return b"\x04" + xb
    if form == "offcurve":
        return b"\x04" + xb + (y ^ 1).to_bytes(32, "big")
    if form == "xbig":  # x >= p
        return b"\x02" + (S.P + 1).to_bytes(32, "big")
    if form == "empty":
        return b""
    raise ValueError(form)


KEYFORMS_OK = ["c", "u", "h"]
KEYFORMS_BAD = ["hbad", "c5", "cflip", "short", "long", "u33", "offcurve", "xbig", "empty"]


def der_int(v: int, pad=0, strip=False) -> bytes:
    b = v.to_bytes((v.bit_length() + 7) // 8 or 1, "big")
    if b[0] & 0x80 and not strip:
        b = b"\x00" + b
    b = b"\x00" * pad + b
    return b"\x02" + bytes([len(b)]) + b


def der_sig(r: int, s: int, **kw) -> bytes:
    body = der_int(r, kw.get("rpad", 0), kw.get("rstrip", False)) + der_int(s, kw.get("spad", 0), kw.get("sstrip", False))
    ln = len(body) + kw.get("seqdelta", 0)
    if kw.get("longlen"):
        hdr = b"\x30\x81" + bytes([ln & 0xFF])
    else:
        hdr = b"\x30" + bytes([ln & 0xFF])
    return hdr + body + kw.get("trail", b"")


def der_mutant(rng) -> bytes:
    """DER-like blobs around the lax/strict boundary"""
    r = rng.choice([1, 0x7F, 0x80, rng.getrandbits(255), rng.getrandbits(256), S.N - 1, S.N, S.N + 1, 0, 2 ** 256 - 1, 2 ** 264 - 1])
    s = rng.choice([1, 0x7F, 0x80, rng.getrandbits(255), S.N // 2, S.N // 2 + 1, S.N - 1, S.N, 0, 2 ** 256 - 1])
    kw = {}
    for k, vals in (("rpad", [0, 0, 0, 1, 2]), ("spad", [0, 0, 0, 1]), ("rstrip", [False, False, True]), ("sstrip", [False, False, True]),
                    ("seqdelta", [0, 0, 0, 1, -1, -4, 100]), ("longlen", [False, False, False, True]),
                    ("trail", [b"", b"", b"", b"\x00", b"\x01\x02"])):
        kw[k] = rng.choice(vals)
    b = bytearray(der_sig(r, s, **kw))
    m = rng.random()
    if m < 0.1 and len(b) > 2:
        del b[rng.randrange(len(b)):]
    elif m < 0.2:
        b[rng.randrange(len(b))] ^= 1 << rng.randrange(8)
    elif m < 0.25:
        b[0] = rng.choice([0x31, 0x00, 0x30])
    elif m < 0.3:
        # long-form integer length
        b = bytearray(b"\x30\x0a\x02\x82\x00\x01\x05\x02\x81\x01\x07")
    elif m < 0.33:
        b = bytearray(rng.getrandbits(8) for _ in range(rng.randint(0, 12)))
    return bytes(b)


def sign(info: S.TxInfo, secret_i: int, script_code: bytes, hash_type: int, sv: str, high_s=None, **kw) -> bytes:
    h = info.sighash(script_code, hash_type, sv)
    r, s = G.sign(SECRETS[secret_i], h)
    if high_s is True and s <= S.N // 2:
        s = S.N - s
    if high_s is False and s > S.N // 2:
        s = S.N - s
    return der_sig(r, s, **kw) + bytes([hash_type & 0xFF])


HASHTYPES = [1, 1, 1, 2, 3, 0x81, 0x82, 0x83, 0, 4, 0x80, 0x41, 0xFF, 0x21]


def sig_variant(rng, info, ki, script_code, sv):
    """a signature by key ki over script_code, in one of the encoding classes; returns (sig bytes, label)"""
    r = rng.random()
    ht = 1 if r < 0.5 else rng.choice(HASHTYPES)
    if r < 0.45:
        return sign(info, ki, script_code, ht, sv, high_s=False), "good"
    if r < 0.55:
        return sign(info, ki, script_code, ht, sv, high_s=True), "high-s"
    if r < 0.6:
        return b"", "empty"
    if r < 0.68:
        kw = rng.choice([{"rpad": 1}, {"spad": 1}, {"trail": b"\x00"}, {"seqdelta": 1}, {"seqdelta": -1}, {"longlen": True}, {"rstrip": True},
                         {"sstrip": True}])
        return sign(info, ki, script_code, ht, sv, high_s=rng.choice([False, None]), **kw), "lax-der"
    if r < 0.74:
        good = sign(info, ki, script_code, ht, sv, high_s=False)
        return good[:-1] + bytes([rng.choice(HASHTYPES)]), "other-hashtype"
    if r < 0.8:
        # signature over a different script code
        return sign(info, ki, script_code + b"\x51", ht, sv, high_s=False), "wrong-code"
    if r < 0.85:
        return sign(info, (ki + 1) % len(SECRETS), script_code, ht, sv, high_s=False), "wrong-key"
    if r < 0.9:
        return der_mutant(rng) + bytes([ht]), "der-mutant"
    if r < 0.93:
        return bytes([0x30, ht]) if rng.random() < 0.5 else bytes([ht]), "tiny"
    if r < 0.96:
        # r, s out of range
        return der_sig(rng.choice([S.N, S.N + 5, 1]), rng.choice([S.N, S.N - 1, S.N // 2 + 1, 2 ** 256 - 1])) + bytes([ht]), "overflow"
    good = bytearray(sign(info, ki, script_code, ht, sv, high_s=False))
    good[rng.randrange(4, len(good) - 1)] ^= 1
    return bytes(good), "bitflip"


def h160(b: bytes) -> bytes:
    return hashlib.new("ripemd160", hashlib.sha256(b).digest()).digest()


def sha256(b: bytes) -> bytes:
    return hashlib.sha256(b).digest()


def pushes(items, rng=None, minimal=True) -> bytes:
    out = bytearray()
    for it in items:
        out += push_min(it) if minimal or rng is None or rng.random() < 0.8 else push(it)
    return bytes(out)


def wrap(rng, kind, inner_script, inner_stack, flags, ctx, mut=None):
    """wrap (script, stack bottom-first) as bare / p2sh / p2wsh / p2sh-p2wsh; returns a verify Case"""
    wit = []
    if kind == "bare":
        ssig, spk = pushes(inner_stack), inner_script
    elif kind == "p2sh":
        ssig, spk = pushes(inner_stack) + push_min(inner_script), sc("HASH160", push(h160(inner_script)), "EQUAL")
    elif kind == "p2wsh":
        ssig, spk, wit = b"", sc(0, push(sha256(inner_script))), list(inner_stack) + [inner_script]
    elif kind == "p2sh-p2wsh":
        redeem = sc(0, push(sha256(inner_script)))
        ssig, spk, wit = push(redeem), sc("HASH160", push(h160(redeem)), "EQUAL"), list(inner_stack) + [inner_script]
    else:
        raise ValueError(kind)
    return Case("verify", flags, (ssig, spk, wit), ctx, tag=kind)


# ---------------------------------------------------------------------------------------------- signature scenarios
def sig_scenarios(rng, n, out):
    """real keys and signatures: P2PK, P2PKH, m-of-n multisig, bare and wrapped, with encoding variants"""
    for _ in range(n):
        flags = rand_verify_flags(rng)
        ctx = rand_ctx(rng) if rng.random() < 0.3 else S.fmt_ctx(amount=rng.choice([0, 1, 12345678]))
        kind = rng.choice(["bare", "bare", "p2sh", "p2wsh", "p2sh-p2wsh", "p2wpkh", "p2sh-p2wpkh"])
        templ = rng.choice(["p2pk", "p2pk", "p2pkh", "multisig", "multisig", "p2pk-not", "multisig-not", "codesep"])
        keyform = lambda ok=0.8: rng.choice(KEYFORMS_OK if rng.random() < ok else KEYFORMS_BAD)
        if kind in ("p2wpkh", "p2sh-p2wpkh"):
            ki = rng.randrange(len(SECRETS))
            pk = sec(ki, keyform(0.85) if rng.random() < 0.6 else "c")
            prog = h160(pk)
            code = sc("DUP", "HASH160", push(prog), "EQUALVERIFY", "CHECKSIG")
            spk0 = sc(0, push(prog))
            if kind == "p2wpkh":
                ssig, spk = b"", spk0
            else:
                ssig, spk = push(spk0), sc("HASH160", push(h160(spk0)), "EQUAL")
            c = Case("verify", flags, (ssig, spk, []), ctx, tag="sig-" + kind)
            info = c.txinfo()
            sig, lab = sig_variant(rng, info, ki, code, "1")
            wit = [sig, pk]
            m = rng.random()
            if m < 0.06:
                wit = [sig]
            elif m < 0.12:
                wit = [b"", sig, pk]
            elif m < 0.16:
                ssig = ssig + b"\x51" if ssig else b"\x61"
            elif m < 0.2 and kind == "p2sh-p2wpkh":
                ssig = b"\x4c" + ssig
            c.a = (ssig, spk, wit)
            c.info = None
            out.append(c)
            continue
        sv = "1" if "wsh" in kind else "0"
        # inner script
        if templ in ("p2pk", "p2pk-not"):
            ki = rng.randrange(len(SECRETS))
            pk = sec(ki, keyform())
            script = sc(push(pk), "CHECKSIG") + (sc("NOT") if templ.endswith("not") else b"")
            signers, code = [ki], script
        elif templ == "p2pkh":
            ki = rng.randrange(len(SECRETS))
            pk = sec(ki, keyform())
            script = sc("DUP", "HASH160", push(h160(pk)), "EQUALVERIFY", rng.choice(["CHECKSIG", "CHECKSIG", "CHECKSIGVERIFY"]))
            if script[-1] == OP["CHECKSIGVERIFY"]:
                script += b"\x51"
            signers, code = [ki], script
        elif templ == "codesep":
            ki = rng.randrange(len(SECRETS))
            pk = sec(ki, keyform())
            pre = sc(rng.choice(["NOP", "CODESEPARATOR"]))
            script = pre + sc("CODESEPARATOR") + sc(push(pk), "CHECKSIG")
            signers = [ki]
            code = script[len(pre) + 1:] if rng.random() < 0.8 else script
        else:
            nk = rng.choice([1, 2, 3, 3, 4, 5])
            kis = [rng.randrange(len(SECRETS)) for _ in range(nk)]
            m_ = rng.randint(0, nk)
            pks = [sec(k, keyform(0.9)) for k in kis]
            script = sc(push_int(m_), *[push(p) for p in pks], push_int(nk), "CHECKMULTISIG") + (sc("NOT") if templ.endswith("not") else b"")
            order = sorted(rng.sample(range(nk), m_))
            if rng.random() < 0.15 and len(order) > 1:
                order.reverse()
            signers, code = [kis[j] for j in order], script
        # build the case skeleton first (the tx depends on scriptPubKey only), then sign
        c = wrap(rng, kind, script, [], flags, ctx)
        c.tag = "sig-%s-%s" % (kind, templ)
        info = c.txinfo()
        sigs = [sig_variant(rng, info, k, code, sv)[0] for k in signers]
        stack = list(sigs)
        if templ.startswith("multisig"):
            dummy = b"" if rng.random() < 0.8 else rng.choice([b"\x00", b"\x01", b"\x51"])
            stack = [dummy] + stack
            if rng.random() < 0.05:
                stack = stack[1:]
        if templ == "p2pkh":
            stack = stack + [pk if rng.random() < 0.93 else sec(rng.randrange(len(SECRETS)), "c")]
        if rng.random() < 0.05:
            stack = [b"\x01"] + stack  # unclean stack
        c2 = wrap(rng, kind, script, stack, flags, ctx)
        c2.tag = c.tag
        out.append(c2)


# ---------------------------------------------------------------------------------------------- wrapper / pipeline scenarios
def pipeline_scenarios(rng, n, out):
    """P2SH / witness dispatch, malleation rules, CLEANSTACK, SIGPUSHONLY, WITNESS_UNEXPECTED, program lengths and versions"""
    for _ in range(n):
        flags = rand_verify_flags(rng)
        ctx = rand_ctx(rng) if rng.random() < 0.2 else S.fmt_ctx()
        ctxd = S.parse_ctx(ctx)
        kind = rng.choice(["bare", "p2sh", "p2wsh", "p2sh-p2wsh"])
        minimal = rng.random() < 0.7
        r = rng.random()
        if r < 0.5:
            inner = synth_program(rng, minimal, ctxd) + (b"\x51" if rng.random() < 0.8 else b"")
        elif r < 0.6:
            inner = b"\x51"
        elif r < 0.7:
            # big scripts: 520 / 521 / 3600 / 10000 / 10001 bytes
            size = rng.choice([519, 520, 521, 3600, 9999, 10000, 10001])
            inner = big_script(size)
        else:
            inner = rng.choice([b"", b"\x00", b"\x51\x51", b"\x6a", b"\x51\x63\x68", b"\x00\x63\x51", sc("DEPTH", "0", "EQUAL"), sc("1", "1"),
                                sc("1", "IF", "1", "ENDIF")])
        stack = rand_initial_stack(rng) if rng.random() < 0.5 else []
        if "wsh" in kind and rng.random() < 0.2:
            stack = stack + [b"\x00" * rng.choice([520, 521])]
        c = wrap(rng, kind, inner, stack, flags, ctx)
        ssig, spk, wit = c.a
        m = rng.random()
        if m < 0.05:
            ssig = ssig + b"\x61"                       # non-push in scriptSig
        elif m < 0.10 and kind in ("p2sh", "p2sh-p2wsh"):
            # another push form of the redeem script / the witness program
            last = inner if kind == "p2sh" else sc(0, push(sha256(inner)))
            if len(last) <= 255:
                ssig = ssig[: len(ssig) - len(push_min(last))] + push_form(last, rng.choice([1, 2, 4]))
        elif m < 0.14 and kind == "p2wsh":
            ssig = rng.choice([b"\x00", b"\x61", b"\x51", b"\x01\x00"])   # scriptSig not empty on a native witness program
        elif m < 0.18 and "wsh" in kind:
            wit = wit[:-1] + [wit[-1] + b"\x61"] if wit else wit        # wrong script for the hash
        elif m < 0.21 and "wsh" in kind:
            wit = []
        elif m < 0.25 and kind in ("bare", "p2sh"):
            wit = [b"\x01"]                                            # unexpected witness
        elif m < 0.30:
            # witness programs of other lengths and versions
            ver = rng.choice([0, 0, 0x51, 0x52, 0x60, 0x4F, 0x61])
            prog = bytes(rng.getrandbits(8) for _ in range(rng.choice([1, 2, 19, 20, 21, 31, 32, 33, 40, 41])))
            spk = bytes([ver]) + push(prog)
            ssig = b"" if rng.random() < 0.8 else b"\x51"
            wit = rng.choice([[], [b"\x01"], [b"", b"\x51"], [b"\x51"]])
        elif m < 0.34:
            # P2SH look-alikes: 23 bytes a9 .. 87 with another length byte (DESIGN §8 row 32), or 22/24 bytes
            h = bytes(rng.getrandbits(8) for _ in range(19))
            spk = rng.choice([sc("HASH160", "DROP", push(h), "EQUAL"), sc("HASH160", push(h + b"\x00\x00"), "EQUAL"), sc("HASH160", push(h), "EQUAL"),
                              sc("HASH160", push_form(h160(inner), 1), "EQUAL")])
            ssig = rng.choice([pushes([h, b"\x6a"]), pushes([inner]), pushes([h])])
        elif m < 0.37:
            ssig = pushes(stack + [b"\x01"]) + (push_min(inner) if kind == "p2sh" else b"") if kind in ("bare", "p2sh") else ssig  # extra item
        c.a = (ssig, spk, wit)
        c.info = None
        out.append(c)


def big_script(size: int) -> bytes:
    """a script of exactly `size` bytes that succeeds (when allowed): 520-byte pushes with DROPs, padding, OP_1"""
    out = bytearray()
    while size - len(out) > 524 + 4:
        out += b"\x4d\x08\x02" + b"\x00" * 520 + b"\x75"
    rest = size - len(out) - 1
    # rest bytes of pushes+drops, then OP_1
    while rest > 0:
        k = min(rest, 77)
        if k >= 3:
            out += bytes([k - 2]) + b"\x00" * (k - 2) + b"\x75"
        else:
            out += b"\x61" * k
        rest -= k
    out += b"\x51"
    assert len(out) == size, (len(out), size)
    return bytes(out)


# ---------------------------------------------------------------------------------------------- the deterministic table
def operand_sets(name):
    """operand tuples (bottom first) for an opcode: every class in every position against a default"""
    if name in UNARY:
        return [(a,) for a in NUMS]
    if name in BINARY or name == "NUMEQUALVERIFY":
        base = b"\x01"
        return [(a, base) for a in NUMS] + [(base, a) for a in NUMS] + [(a, a) for a in NUMS[:12]]
    if name == "WITHIN":
        return [(a, b"", b"\x05") for a in NUMS] + [(b"\x02", a, b"\x05") for a in NUMS] + [(b"\x02", b"", a) for a in NUMS]
    if name in ("PICK", "ROLL"):
        return [(b"a", b"b", b"c", a) for a in NUMS] + [(a,) for a in NUMS[:6]] + [(b"a", scriptnum(k)) for k in (0, 1, 2)]
    if name in ("IF", "NOTIF", "VERIFY", "IFDUP", "NOT", "0NOTEQUAL", "BOOLAND", "BOOLOR"):
        return [(a,) for a in BOOLS]
    if name in HASHES or name == "SIZE":
        return [(a,) for a in DATA]
    if name in ("EQUAL", "EQUALVERIFY"):
        return [(a, b) for a in (b"", b"\x00", b"\x01", b"\x80") for b in (b"", b"\x00", b"\x01", b"\x01\x00")]
    if name in ("CHECKLOCKTIMEVERIFY", "CHECKSEQUENCEVERIFY"):
        vals = [0, 1, 2, 99, 100, 101, 499999999, 500000000, 500000001, 0xFFFF, 0x10000, 0x10001, 1 << 22, (1 << 22) + 1, (1 << 22) + 0xFFFF, (1 << 31), (1 << 31) + 1,
                0xFFFFFFFF, 1 << 32, 2 ** 39 - 1, -1, -0x7FFFFFFF]
        return [(scriptnum(v),) for v in vals] + [(a,) for a in NUMS] + [()]
    return None


def table_cases(out, thorough):
    """every opcode value executed and unexecuted x operand class x flag class; limits; push forms"""
    flag_classes = FLAG_CLASSES if thorough else [0, F["MINIMALDATA"], STD]
    ctxs = [S.fmt_ctx(), S.fmt_ctx(2, 100, 100), S.fmt_ctx(2, 500000001, (1 << 22) | 100), S.fmt_ctx(1, 100, 0xFFFFFFFF)]
    byname = {v: k for k, v in OP.items() if k not in ("NOP2", "NOP3", "0")}
    for opv in range(256):
        name = byname.get(opv)
        # --- executed
        variants = []
        if opv <= 0x4E:
            if 1 <= opv <= 0x4B:
                variants = [bytes([opv]) + bytes([7]) * opv, bytes([opv]) + bytes([7]) * (opv - 1)]
                if opv == 1:
                    variants += [bytes([1, v]) for v in (0, 1, 16, 17, 0x80, 0x81)]
            elif opv == 0:
                variants = [b"\x00"]
            else:
                variants = []  # PUSHDATA forms below
        else:
            sets = operand_sets(name) if name else None
            if sets is None:
                k = STACKOPS.get(name, (0, 0))[0] if name else 0
                sets = [tuple(bytes([0x61 + i]) for i in range(j)) for j in sorted({0, max(k - 1, 0), k, k + 1})]
            for ops_ in sets:
                variants.append((ops_, bytes([opv])))
        for v in variants:
            for fl in flag_classes:
                for ctx in (ctxs if name in ("CHECKLOCKTIMEVERIFY", "CHECKSEQUENCEVERIFY") else ctxs[:1]):
                    if isinstance(v, tuple):
                        # operands once as initial stack (any bytes can sit there), once pushed by the script
                        out.append(Case("eval", fl, (v[1] + b"\x61", list(v[0])), ctx, "0", tag="table-exec"))
                        if all(len(o) <= 520 for o in v[0]):
                            out.append(Case("eval", fl, (pushes(v[0]) + v[1], []), ctx, "0", tag="table-exec"))
                    else:
                        out.append(Case("eval", fl, (v, []), ctx, "0", tag="table-exec"))
        # MINIMALIF in witness v0 for IF/NOTIF
        if name in ("IF", "NOTIF"):
            for a in BOOLS:
                for fl in (F["MINIMALIF"], 0):
                    out.append(Case("eval", fl, (bytes([opv]) + sc("1", "ELSE", "2", "ENDIF"), [a]), ctxs[0], "1", tag="table-minimalif"))
        # --- unexecuted
        body = bytes([opv]) + (bytes([7]) * opv if opv <= 0x4B else b"\x01\x07\x00\x00\x00"[: {0x4C: 2, 0x4D: 3, 0x4E: 5}.get(opv, 0)])
        if opv == 0x4D:
            body = b"\x4d\x01\x00\x07"
        if opv == 0x4E:
            body = b"\x4e\x01\x00\x00\x00\x07"
        if opv == 0x4C:
            body = b"\x4c\x01\x07"
        for fl in flag_classes:
            for pre, post in ((sc("0", "IF"), sc("ENDIF", "1")), (sc("1", "IF", "ELSE"), sc("ENDIF", "1")), (sc("1", "NOTIF"), sc("ELSE", "1", "ENDIF")),
                              (sc("0", "IF", "1", "IF"), sc("ENDIF", "ENDIF", "1"))):
                out.append(Case("eval", fl, (pre + body + post, []), ctxs[0], "0", tag="table-dead"))
    # --- push forms per length
    for ln in (0, 1, 2, 74, 75, 76, 77, 254, 255, 256, 257, 519, 520, 521, 522):
        d = bytes([0x42]) * ln
        for form, mx in ((0, 75), (1, 255), (2, 65535), (4, 1 << 32)):
            if ln > mx:
                continue
            for fl in (0, F["MINIMALDATA"]):
                out.append(Case("eval", fl, (push_form(d, form) + sc("SIZE"), []), ctxs[0], "0", tag="table-push"))
                out.append(Case("eval", fl, (sc("0", "IF") + push_form(d, form) + sc("ENDIF", "1"), []), ctxs[0], "0", tag="table-push"))
    for ln in (65535, 65536):
        d = b"\x00" * ln
        for form in (2, 4):
            if ln > 65535 and form == 2:
                continue
            for fl in (0, F["MINIMALDATA"]):
                out.append(Case("eval", fl, (push_form(d, form) + b"\x75\x51", []), ctxs[0], "0", tag="table-push"))
                out.append(Case("verify", fl | F["P2SH"], (push_form(d, form), b"\x75\x51", []), ctxs[0], tag="table-push"))
    for v in list(range(0, 18)) + [0x7F, 0x80, 0x81, 0xFF]:
        for form in (0, 1, 2, 4):
            for fl in (0, F["MINIMALDATA"]):
                out.append(Case("eval", fl, (push_form(bytes([v]), form), []), ctxs[0], "0", tag="table-push"))
    # --- truncated pushes at the end of a script, executed and not
    for tail in (b"\x01", b"\x02\x00", b"\x4b" + b"\x00" * 74, b"\x4c", b"\x4c\x01", b"\x4d", b"\x4d\x01", b"\x4d\x01\x00", b"\x4e", b"\x4e\x01\x00\x00",
                 b"\x4e\x01\x00\x00\x00", b"\x4e\xff\xff\xff\xff\x00", b"\x4d\xff\xff"):
        out.append(Case("eval", 0, (b"\x51" + tail, []), ctxs[0], "0", tag="table-trunc"))
        out.append(Case("eval", 0, (sc("1", "0", "IF") + tail, []), ctxs[0], "0", tag="table-trunc"))
        out.append(Case("verify", F["P2SH"] | F["SIGPUSHONLY"], (b"\x51" + tail, b"\x51", []), ctxs[0], tag="table-trunc"))
    # --- op count 200 / 201 / 202, with CHECKMULTISIG key counts
    for nops in (199, 200, 201, 202):
        out.append(Case("eval", 0, (b"\x51" + b"\x61" * nops, []), ctxs[0], "0", tag="table-opcount"))
        out.append(Case("eval", 0, (sc("1", "0", "IF") + b"\x61" * (nops - 2) + sc("ENDIF"), []), ctxs[0], "0", tag="table-opcount"))
        out.append(Case("eval", 0, (sc("1", "0", "IF") + b"\x50" * 300 + b"\x61" * (nops - 2) + sc("ENDIF"), []), ctxs[0], "0", tag="table-opcount"))
    for nkeys in (0, 1, 2, 19, 20, 21):
        for total in (200, 201, 202):
            nops = total - 1 - nkeys
            if nops < 0:
                continue
            keys = b"".join(push(bytes([k + 1]) * 33) for k in range(nkeys))
            body = b"\x61" * nops + sc("0", "0") + keys + push_int(nkeys) + sc("CHECKMULTISIG")
            out.append(Case("eval", 0, (body, []), ctxs[0], "0", tag="table-opcount"))
            out.append(Case("eval", F["NULLDUMMY"] | F["NULLFAIL"] | F["STRICTENC"], (body, []), ctxs[0], "0", tag="table-opcount"))
    # key / signature count operands of CHECKMULTISIG
    for a in NUMS:
        out.append(Case("eval", 0, (sc("0", "0") + push_min(a) + sc("CHECKMULTISIG"), []), ctxs[0], "0", tag="table-multisig-count"))
        out.append(Case("eval", F["MINIMALDATA"], (sc("0") + push_min(a) + sc("0", "CHECKMULTISIG"), []), ctxs[0], "0", tag="table-multisig-count"))
        out.append(Case("eval", 0, (sc("CHECKMULTISIG"), [b"", b"", a]), ctxs[0], "0", tag="table-multisig-count"))
        out.append(Case("eval", 0, (sc("CHECKMULTISIG"), [b"", a, b"k", b"\x01"]), ctxs[0], "0", tag="table-multisig-count"))
    for stack in ([], [b""], [b"", b""], [b"\x01"], [b"", b"\x01"], [b"k", b"\x01"], [b"", b"k", b"\x01"], [b"", b"", b"k", b"\x01"], [b"s", b"\x01", b"k", b"\x01"],
                  [b"", b"s", b"\x01", b"k", b"\x01"], [b"\x01", b"", b"\x01", b"k", b"\x01"], [b"", b"", b"", b"\x02", b"k", b"k", b"\x02"]):
        for fl in (0, F["NULLDUMMY"], F["NULLFAIL"], F["NULLDUMMY"] | F["NULLFAIL"] | F["STRICTENC"]):
            for opn in ("CHECKMULTISIG", "CHECKMULTISIGVERIFY"):
                out.append(Case("eval", fl, (sc(opn, "DEPTH"), stack), ctxs[0], "0", tag="table-multisig-shape"))
    # every (key count, signature count) shape up to 3 keys incl. one signature too many, items present or one short
    for nk in range(0, 4):
        for ns in range(0, nk + 2):
            for sigitem in (b"", b"s"):
                full = [b""] + [sigitem] * ns + [scriptnum(ns)] + [b"k"] * nk + [scriptnum(nk)]
                for stack in (full, full[1:], [b"\x01"] + full[1:]):
                    for fl in (0, F["NULLDUMMY"] | F["NULLFAIL"]):
                        for tail in (sc("DEPTH"), sc("NOT"), b""):
                            out.append(Case("eval", fl, (sc("CHECKMULTISIG") + tail, stack), ctxs[0], "0", tag="table-multisig-shape"))
                        out.append(Case("eval", fl, (sc("CHECKMULTISIGVERIFY", "1"), stack), ctxs[0], "0", tag="table-multisig-shape"))
    # --- stack size 999 / 1000 / 1001 (main + alt)
    for n in (999, 1000, 1001):
        out.append(Case("eval", 0, (b"\x51" * n, []), ctxs[0], "0", tag="table-stacksize"))
        out.append(Case("eval", 0, (b"\x51" * (n - 1) + sc("DUP"), []), ctxs[0], "0", tag="table-stacksize"))
        out.append(Case("eval", 0, (b"\x51" * (n - 3) + sc("3DUP"), []), ctxs[0], "0", tag="table-stacksize"))
        out.append(Case("eval", 0, (b"\x51" * (n - 1) + sc("TOALTSTACK", "1", "1"), []), ctxs[0], "0", tag="table-stacksize"))
        out.append(Case("eval", 0, (b"\x51" * (n - 1) + sc("1", "DROP"), []), ctxs[0], "0", tag="table-stacksize"))
        out.append(Case("eval", 0, (sc("NOP"), [b"\x01"] * n), ctxs[0], "0", tag="table-stacksize"))
        out.append(Case("eval", 0, (b"", [b"\x01"] * n), ctxs[0], "0", tag="table-stacksize"))
        out.append(Case("eval", 0, (sc("0", "IF", "ENDIF"), [b"\x01"] * n), ctxs[0], "0", tag="table-stacksize"))
        out.append(Case("verify", F["P2SH"] | F["WITNESS"], (b"", sc(0, push(sha256(b"\x51"))), [b"\x01"] * (n - 1) + [b"\x51"]), ctxs[0], tag="table-stacksize"))
    # --- script size 10000 / 10001, plain and wrapped
    for size in (9999, 10000, 10001):
        s_ = big_script(size)
        out.append(Case("eval", 0, (s_, []), ctxs[0], "0", tag="table-scriptsize"))
        out.append(Case("eval", 0, (sc("0", "IF") + s_[: size - 4] + sc("ENDIF", "1"), []), ctxs[0], "0", tag="table-scriptsize"))
        for kind in ("bare", "p2wsh", "p2sh-p2wsh"):
            out.append(wrap(None, kind, s_, [], F["P2SH"] | F["WITNESS"], ctxs[0]))
            out[-1].tag = "table-scriptsize"
    for size in (519, 520, 521, 522, 3600):
        s_ = big_script(size)
        for kind in ("p2sh", "p2wsh", "p2sh-p2wsh"):
            for fl in (F["P2SH"] | F["WITNESS"], STD):
                out.append(wrap(None, kind, s_, [], fl, ctxs[0]))
                out[-1].tag = "table-wrapsize"
    for ln in (519, 520, 521):
        for kind in ("p2wsh", "p2sh-p2wsh"):
            out.append(wrap(None, kind, sc("DROP", "1"), [b"\x00" * ln], F["P2SH"] | F["WITNESS"], ctxs[0]))
            out[-1].tag = "table-wrapsize"


# ---------------------------------------------------------------------------------------------- signature encoding table
def sig_table(out, thorough):
    """key encoding x signature class x flag class x (CHECKSIG | CHECKSIG NOT | 1-of-1, 1-of-2 CHECKMULTISIG [NOT]) x sigversion,
    signature and dummy on the initial stack; real signatures over the script"""
    ctx = S.fmt_ctx(amount=5000)
    flag_sets = [0, F["STRICTENC"], F["DERSIG"], F["LOW_S"], F["NULLFAIL"], F["WITNESS_PUBKEYTYPE"], F["STRICTENC"] | F["NULLFAIL"] | F["NULLDUMMY"], STD]
    sig_classes = [("empty", {}), ("good", {}), ("high", {"high_s": True}), ("seq-1", {"seqdelta": -1}), ("trail", {"trail": b"\x00"}), ("rpad", {"rpad": 1}),
                   ("ht00", {"ht": 0}), ("ht04", {"ht": 4}), ("ht83", {"ht": 0x83}), ("tiny", {}), ("wrong", {})]
    forms = KEYFORMS_OK + KEYFORMS_BAD
    for form in forms:
        ki = 4 if form in ("u33", "c5") else 0
        pk = sec(ki, form)
        other = sec(1, "c")
        templates = [("cs", sc(push(pk), "CHECKSIG"), 0), ("cs-not", sc(push(pk), "CHECKSIG", "NOT"), 0),
                     ("ms11", sc("1", push(pk), "1", "CHECKMULTISIG"), 1), ("ms11-not", sc("1", push(pk), "1", "CHECKMULTISIG", "NOT"), 1),
                     ("ms12a", sc("1", push(pk), push(other), "2", "CHECKMULTISIG", "NOT"), 1), ("ms12b", sc("1", push(other), push(pk), "2", "CHECKMULTISIG", "NOT"), 1)]
        for tname, script, dummy in templates:
            for sv in ("0", "1"):
                base = Case("eval", 0, (script, []), ctx, sv)
                info = base.txinfo()
                for cname, kw in sig_classes:
                    kw = dict(kw)
                    ht = kw.pop("ht", 1)
                    if cname == "empty":
                        sig = b""
                    elif cname == "tiny":
                        sig = b"\x30\x01"
                    elif cname == "wrong":
                        sig = sign(info, ki, script + b"\x61", ht, sv, high_s=False)
                    else:
                        kw.setdefault("high_s", False)
                        sig = sign(info, ki, script, ht, sv, **kw)
                    for fl in (flag_sets if thorough or cname in ("empty", "good", "seq-1") else flag_sets[:4] + flag_sets[-1:]):
                        out.append(Case("eval", fl, (script, ([b""] if dummy else []) + [sig]), ctx, sv, tag="sigtable-" + tname))


# ---------------------------------------------------------------------------------------------- deterministic pipeline table
def pipeline_table(out, thorough):
    """VerifyScript dispatch, exhaustively over small ingredients: wrapper kind x inner script x stack x flag class x mutation"""
    W, P = F["WITNESS"], F["P2SH"]
    flag_sets = [0, P, P | W, P | W | F["CLEANSTACK"], STD, STD & ~F["DISCOURAGE_UPGRADABLE_WITNESS_PROGRAM"], P | F["SIGPUSHONLY"],
                 P | W | F["MINIMALIF"], F["SIGPUSHONLY"]]
    inners = [b"\x51", b"\x00", b"", sc("1", "1"), sc("DEPTH", "0", "EQUAL"), b"\x6a", sc("DROP", "1"), sc("IF", "1", "ELSE", "0", "ENDIF"), sc("1", "RESERVED"),
              sc("NOP1", "1")]
    stacks = [[], [b"\x01"], [b""], [b"\x02"], [b"\x01", b"\x01"]]
    ctx = S.fmt_ctx()
    muts = ["none", "sig+nop", "sig+push", "sig+reserved", "redeem-pd1", "redeem-pd2", "native-sig-00", "native-sig-61", "wit-wrong", "wit-none", "wit-extra",
            "wit-unexpected", "unclean"]
    if not thorough:
        # quick: the ingredients that distinguish the dispatch rules; the full product runs in the thorough tier
        inners = inners[:2] + inners[3:6] + inners[7:9]
        flag_sets = flag_sets[:6] + flag_sets[7:8]
    for kind in ("bare", "p2sh", "p2wsh", "p2sh-p2wsh"):
        for inner in inners:
            for stack in (stacks if thorough else stacks[:3]):
                for fl in flag_sets:
                    for mut in muts:
                        c = wrap(None, kind, inner, stack, fl, ctx)
                        ssig, spk, wit = c.a
                        last = inner if kind == "p2sh" else sc(0, push(sha256(inner)))
                        if mut == "sig+nop":
                            ssig += b"\x61"
                        elif mut == "sig+push":
                            ssig = b"\x51" + ssig
                        elif mut == "sig+reserved":
                            ssig = sc("0", "IF", "RESERVED", "ENDIF") + ssig
                        elif mut in ("redeem-pd1", "redeem-pd2"):
                            if kind not in ("p2sh", "p2sh-p2wsh"):
                                continue
                            ssig = ssig[: len(ssig) - len(push_min(last))] + push_form(last, 1 if mut.endswith("1") else 2)
                        elif mut.startswith("native-sig-"):
                            if kind != "p2wsh":
                                continue
                            ssig = bytes.fromhex(mut[-2:])
                        elif mut == "wit-wrong":
                            if not wit:
                                continue
                            wit = wit[:-1] + [wit[-1] + b"\x61"]
                        elif mut == "wit-none":
                            if not wit:
                                continue
                            wit = []
                        elif mut == "wit-extra":
                            if not wit:
                                continue
                            wit = [b"\x01"] + wit
                        elif mut == "wit-unexpected":
                            if wit:
                                continue
                            wit = [b"\x01"]
                        elif mut == "unclean":
                            if wit:
                                continue
                            ssig = b"\x51" + ssig
                        c.a = (ssig, spk, wit)
                        c.tag = "ptable-" + kind
                        out.append(c)
    # witness programs by version and length, native and P2SH-wrapped; all-zero programs (false top item)
    for ver in (0x00, 0x4F, 0x50, 0x51, 0x52, 0x60, 0x61):
        for ln in (1, 2, 3, 19, 20, 21, 31, 32, 33, 40, 41):
            for fill in (0x00, 0x07):
                prog = bytes([fill]) * ln
                if fill == 0:
                    prog = prog[:-1] + b"\x80" if ln % 2 else prog
                spk0 = bytes([ver]) + push(prog)
                for fl in ((P | W, STD, STD & ~F["DISCOURAGE_UPGRADABLE_WITNESS_PROGRAM"], P, P | W | F["CLEANSTACK"]) if thorough or fill else
                           (P | W, STD & ~F["DISCOURAGE_UPGRADABLE_WITNESS_PROGRAM"], P | W | F["CLEANSTACK"])):
                    for wit in ([], [b"\x01"], [b"", b""]):
                        for ssig in (b"", b"\x51"):
                            out.append(Case("verify", fl, (ssig, spk0, wit), ctx, tag="ptable-program"))
                        out.append(Case("verify", fl, (push(spk0), sc("HASH160", push(h160(spk0)), "EQUAL"), wit), ctx, tag="ptable-program"))
    # look-alikes of the P2SH pattern
    h = bytes(range(1, 20))
    for spk, ssig in ((sc("HASH160", "DROP", push(h), "EQUAL"), pushes([h, b"\x6a"])), (sc("HASH160", push(h + b"\x00\x00"), "EQUAL"), pushes([b"\x6a"])),
                      (sc("HASH160", push_form(h160(b"\x51"), 1), "EQUAL"), pushes([b"\x51"])), (sc("HASH160", push(h160(b"\x51")), "EQUAL"), pushes([b"\x51"])),
                      (sc("HASH160", push(h160(b"\x51")), "EQUAL", "NOP"), pushes([b"\x51"])), (sc("HASH160", push(h160(b"\x00")), "EQUAL"), pushes([b"\x00"])),
                      (sc("HASH160", push(h160(b"\x51")), "EQUAL"), sc("NOP") + pushes([b"\x51"]))):
        for fl in (0, P, P | W, STD):
            out.append(Case("verify", fl, (ssig, spk, []), ctx, tag="ptable-p2sh-pattern"))


# ---------------------------------------------------------------------------------------------- regression cases (one per repaired defect)
def regression_cases():
    """witnesses of the defects found by this check and repaired in the worktree (known_findings/C03.json `fixed`);
    the same lines are in corpus/C03.txt"""
    ctx = S.fmt_ctx()
    E = lambda fl, script, stack=(), c=ctx, sv="0": Case("eval", fl, (script, list(stack)), c, sv, tag="regress")
    V = lambda fl, ssig, spk, wit=(), c=ctx: Case("verify", fl, (ssig, spk, list(wit)), c, tag="regress")
    W, P = F["WITNESS"], F["P2SH"]
    out = [
        E(0, bytes.fromhex("010073")),                                  # IFDUP on a non-empty false value
        E(F["MINIMALDATA"], sc("1", "0NOTEQUAL")),                      # 0NOTEQUAL under MINIMALDATA
        E(0, sc(push(b"\x01\x00\x00\x00\x00"), "0NOTEQUAL")),           # 0NOTEQUAL with a 5-byte operand
        E(0, sc("0", "0", push(b"\x00" * 5), "CHECKMULTISIG")),          # 5-byte key count
        E(0, sc("1", "0", push(b"\x05\x00\x00\x00\x00"), "WITHIN")),
        E(0, sc("1", push(b"\x00" * 5), "PICK")),
        E(0, sc("1", push(b"\x00" * 5), "ROLL")),
        E(F["CHECKLOCKTIMEVERIFY"], sc(push(b"\x01\x00"), "CHECKLOCKTIMEVERIFY", "SIZE"), c=S.fmt_ctx(1, 10, 0)),   # operand re-encoded
        E(F["CHECKSEQUENCEVERIFY"], sc(push(b"\x01\x00"), "CHECKSEQUENCEVERIFY", "SIZE"), c=S.fmt_ctx(2, 0, 10)),
        E(F["MINIMALDATA"], push_form(b"\x42" * 256, 2)),                 # 256 bytes with PUSHDATA2 is minimal
        E(F["MINIMALDATA"], b"\x4c\x00"),                                 # an empty PUSHDATA1 is not
        E(0, b"\x51\x4c"),                                               # truncated PUSHDATA1 length
        E(0, b"\x51\x4d\x01"),
        E(0, b"", [b"\x01"] * 1001),                                      # oversized initial stack, nothing executed
        E(0, sc("2DROP"), [b"\x01"] * 1001),
        wrap(None, "p2wsh", big_script(521), [], P | W, ctx),            # witness script over 520 bytes
        wrap(None, "p2sh-p2wsh", big_script(3600), [], P | W, ctx),
        V(P | W, b"\x61", sc(0, push(sha256(b"\x51"))), [b"\x51"]),       # native witness program with a non-empty scriptSig that leaves no stack
        V(P | W, push_form(sc(0, push(sha256(b"\x51"))), 1), sc("HASH160", push(h160(sc(0, push(sha256(b"\x51"))))), "EQUAL"), [b"\x51"]),
        E(F["LOW_S"], sc(push(der_sig(1, S.N // 2 + 1) + b"\x01"), push(sec(0)), "CHECKSIG", "NOT")),   # high S between n/2 and p/2
        E(F["LOW_S"], sc(push(der_sig(1, S.N // 2) + b"\x01"), push(sec(0)), "CHECKSIG", "NOT")),
        E(F["LOW_S"], sc(push(der_sig(1, S.N) + b"\x01"), push(sec(0)), "CHECKSIG", "NOT")),            # S out of range is not "high"
        E(F["STRICTENC"], sc("0", push(b"\x05" + b"\x11" * 32), "CHECKSIG", "NOT")),                  # key encoding checked although the signature is empty
        E(F["STRICTENC"], sc("0", "0", "1", push(b"\x05" + b"\x11" * 32), "1", "CHECKMULTISIG", "NOT")),
        E(F["WITNESS_PUBKEYTYPE"], sc("0", push(sec(0, "u")), "CHECKSIG", "NOT"), sv="1"),
        E(F["WITNESS_PUBKEYTYPE"], sc("0", "0", "CHECKSIG", "NOT"), sv="1"),                           # empty key: IndexError
        E(0, sc(push(b"\x30\x01"), push(sec(0)), "CHECKSIG", "NOT")),                                 # TypeError in der.read_length
        E(0, sc(push(b"\x30"), push(sec(0)), "CHECKSIG", "NOT")),
        V(P, pushes([bytes(range(1, 20)), b"\x6a"]), sc("HASH160", "DROP", push(bytes(range(1, 20))), "EQUAL")),   # 23 bytes a9 .. 87, not P2SH
        V(P | W | F["CLEANSTACK"], b"", sc("2", push(b"\x07" * 32)), [b"\x51"]),                      # undefined witness version under CLEANSTACK
        V(P | W | F["CLEANSTACK"], push(sc("16", push(b"\x07" * 40))), sc("HASH160", push(h160(sc("16", push(b"\x07" * 40)))), "EQUAL")),
    ]
    # real signatures: a key given as 04 + x only (33 bytes); a signature whose sequence length is off by one
    for form, kw, notop in (("u33", {}, False), ("c5", {}, False), ("hbad", {}, False), ("c", {"seqdelta": -1}, False), ("c", {"seqdelta": -1}, True),
                            ("c", {"trail": b"\x00"}, False)):
        ki = 4 if form in ("u33", "c5") else 0
        spk = sc(push(sec(ki, form)), "CHECKSIG") + (sc("NOT") if notop else b"")
        c = V(0, b"", spk)
        sig = sign(c.txinfo(), ki, spk, 1, "0", high_s=False, **kw)
        out.append(V(0, push(sig), spk))
    return out


# ---------------------------------------------------------------------------------------------- op count reached through CHECKMULTISIG
def _ms_opcount_layout(blocks, total, sec_f):
    """script `NOP*k  (m <keys> n CHECKMULTISIG DROP)*  1` whose executed op count is exactly `total` (k NOPs, every block counts
    1 + n + 1); dummy and signatures come from the stack.  Returns (script, [key indices per block]) or None when total is too small."""
    fixed = sum(1 + n + 1 for _, n in blocks)
    k = total - fixed
    if k < 0:
        return None
    body, keyidx = bytearray(b"\x61" * k), []
    for bi, (m, n) in enumerate(blocks):
        idx = [(bi + j) % 3 for j in range(n)]
        keyidx.append(idx)
        body += push_int(m) + b"".join(push(sec_f(i)) for i in idx) + push_int(n) + bytes([OP["CHECKMULTISIG"], OP["DROP"]])
    return bytes(body) + b"\x51", keyidx


def _ms_opcount_stack(blocks, keyidx, sigkind, sign_f, garbage_f, script, pos_f):
    """stack (bottom first): the items of the last block lowest; per block: dummy, then m signatures in key order.
    sigkind: match | wrongcode (a real signature of the right key over another script) | garbage (well-formed DER, random r and s)"""
    per_block = []
    for (m, n), idx in zip(blocks, keyidx):
        chosen = pos_f(m, n)
        sigs = []
        for j in chosen:
            if sigkind == "match":
                sigs.append(sign_f(idx[j], script))
            elif sigkind == "wrongcode":
                sigs.append(sign_f(idx[j], script + b"\x61"))
            else:
                sigs.append(garbage_f())
        per_block.append([b""] + sigs)
    out = []
    for items in reversed(per_block):
        out += items
    return out


MS_OPCOUNT_BLOCKS = [[(1, 1)], [(1, 3)], [(2, 3)], [(1, 20)], [(3, 20)], [(1, 20)] * 9, [(2, 20)] * 4 + [(1, 3)] * 2, [(1, 15), (2, 15), (1, 1)]]


def ms_opcount_cases(out, vm_emit, rng=None, n_random=0):
    """op-count boundary (199..203 executed ops) where the count is reached THROUGH CHECKMULTISIG key counts with m >= 1 and parsable
    signatures: matching, real-but-not-matching, well-formed DER garbage; bare evaluation (both sigversions), P2SH, P2WSH; with and
    without NULLFAIL.  Emitted for the spec stream (Case objects into `out`) and for the model stream (`vm_emit(op line)`)."""
    from props import c03m_gen as g, c03m_gensig as gs
    W, P = F["WITNESS"], F["P2SH"]
    ctx = S.fmt_ctx(amount=1000)
    det = rng is None
    grng = lib.random.Random("C03/ms-opcount") if det else rng

    def garbage():
        return der_sig(grng.getrandbits(255) + 1, grng.getrandbits(253) + 1) + b"\x01"

    def first_pos(m, n):
        return list(range(m))

    def last_pos(m, n):
        return list(range(n - m, n))

    def rnd_pos(m, n):
        return sorted(grng.sample(range(n), m))

    def plans():
        if det:
            wrappers, fls = ("eval0", "eval1", "p2wsh", "p2sh"), (0, F["NULLFAIL"])
            i = 0
            for bi, blocks in enumerate(MS_OPCOUNT_BLOCKS):
                for sigkind in ("match", "wrongcode", "garbage"):
                    pos = last_pos if sigkind == "match" and bi % 2 else first_pos
                    for total in (199, 200, 201, 202, 203):
                        # one wrapper and flag set in rotation for every total ...
                        i += 1
                        w = wrappers[i % 4]
                        yield blocks, total, sigkind, fls[(i // 4) % 2], ("eval0" if w == "p2sh" and bi > 2 else w), pos
                        # ... and every wrapper right at the limit for the small shapes
                        if total in (201, 202) and bi < 4:
                            for wi, w2 in enumerate(wrappers):
                                if w2 != w and not (w2 == "p2sh" and bi > 2):
                                    yield blocks, total, sigkind, fls[(i + wi) % 2], w2, pos
        else:
            for _ in range(n_random):
                nb = grng.choice([1, 1, 2, 3, 5, 9])
                blocks = []
                for _b in range(nb):
                    n = grng.choice([1, 2, 3, 5, 15, 19, 20])
                    blocks.append((grng.randint(1, min(n, 3)), n))
                fl = grng.choice([0, F["NULLFAIL"], F["NULLFAIL"] | F["NULLDUMMY"] | F["STRICTENC"] | F["DERSIG"], F["STRICTENC"], F["LOW_S"]])
                yield (blocks, grng.choice([150, 198, 199, 200, 201, 202, 203, 204, 220]), grng.choice(["match", "match", "wrongcode", "garbage"]), fl,
                       grng.choice(["eval0", "eval1", "p2wsh", "p2sh", "p2sh-p2wsh"]), rnd_pos)

    for blocks, total, sigkind, fl, wrapper, pos_f in plans():
        # ---- spec stream
        lay = _ms_opcount_layout(blocks, total, lambda i: sec(i, "c"))
        if lay is None:
            continue
        script, keyidx = lay
        if len(script) > 10000 or (wrapper == "p2sh" and len(script) > 520):
            continue
        sv = "1" if wrapper in ("eval1", "p2wsh", "p2sh-p2wsh") else "0"
        if wrapper.startswith("eval"):
            base = Case("eval", fl, (script, []), ctx, sv)
        else:
            base = wrap(None, wrapper, script, [], fl | P | W, ctx)
        info = base.txinfo()
        stack = _ms_opcount_stack(blocks, keyidx, sigkind, lambda ki, code: sign(info, ki, code, 1, sv, high_s=False), garbage, script, pos_f)
        if wrapper.startswith("eval"):
            c = Case("eval", fl, (script, stack), ctx, sv)
        else:
            c = wrap(None, wrapper, script, stack, fl | P | W, ctx)
        c.tag = "ms-opcount-" + wrapper
        c.hints = [(sg, sec(ki, "c"), script, sv) for sg in dict.fromkeys(x for x in stack if x) for ki in sorted({i_ for idx_ in keyidx for i_ in idx_})]
        out.append(c)
        # ---- model stream (its own transaction, keys and signatures)
        wit = sv == "1"
        lay2 = _ms_opcount_layout(blocks, total, lambda i: gs.sec(i, "c"))
        script2, keyidx2 = lay2
        stack2 = _ms_opcount_stack(blocks, keyidx2, sigkind, lambda ki, code: gs.sign(ki, code, wit), garbage, script2, pos_f)
        sigs2 = [x for x in stack2 if x]
        pubs2 = sorted({gs.sec(i, "c") for idx in keyidx2 for i in idx})
        tbl = gs.table(sorted(set(sigs2)), pubs2, [script2], wit, g.CTX0) if sigkind == "match" else []
        if wrapper.startswith("eval"):
            vm_emit(g.ev(fl, script2, stack2, wit=int(wit), table=tbl))
        elif wrapper == "p2wsh":
            vm_emit(g.vf(fl | P | W, b"", sc(0, push(sha256(script2))), stack2 + [script2], g.CTX0, tbl))
        elif wrapper == "p2sh":
            vm_emit(g.vf(fl | P | W, pushes(stack2) + push_min(script2), sc("HASH160", push(h160(script2)), "EQUAL"), [], g.CTX0, tbl))
        else:
            redeem = sc(0, push(sha256(script2)))
            vm_emit(g.vf(fl | P | W, push(redeem), sc("HASH160", push(h160(redeem)), "EQUAL"), stack2 + [script2], g.CTX0, tbl))


# ---------------------------------------------------------------------------------------------- signature arrangements (both streams)
def fixed_ctx(script_sig=b"", witness=(), amount=1000, version=1, lock_time=0, sequence=0xFFFFFFFF) -> str:
    """a context whose spending transaction has a FIXED outpoint (not the hash of a crediting transaction): signature hashes then do not depend
    on the scriptPubKey, so that a signature can also be embedded in the script it signs (FindAndDelete removes it from its own scriptCode)"""
    tx = Tx(version, [Tx.TxIn(b"\x22" * 32, 0, script_sig, sequence=sequence)], [Tx.TxOut(amount, b"")], lock_time=lock_time)
    tx.txs_in[0].witness = list(witness)
    return S.fmt_ctx(version, lock_time, sequence, amount, tx.as_hex(), 0)


class SpecStream:
    """spec_* cases: own keys, signatures over the fixed-outpoint transaction"""

    def __init__(self, out, tag):
        self.out, self.tag = out, tag
        self.info = Case("eval", 0, (b"", []), fixed_ctx()).txinfo()
        self._cache: dict = {}

    def sec(self, i, form="c"):
        return sec(i, form)

    def sign(self, i, code, wit, ht=1):
        k = (i, code, wit, ht)
        if k not in self._cache:
            self._cache[k] = sign(self.info, i, code, ht, "1" if wit else "0", high_s=False)
        return self._cache[k]

    @staticmethod
    def _hints(codes, sigs, pubs, wit):
        sv = "1" if wit else "0"
        if codes and isinstance(codes[0], tuple):
            return [(sg, pb, code, sv) for sg, pb, code in codes if sg]
        return [(sg, pb, code, sv) for code in dict.fromkeys(codes) for sg in dict.fromkeys(x for x in sigs if x) for pb in dict.fromkeys(pubs)]

    def ev(self, fl, script, stack, wit, codes=(), sigs=(), pubs=()):
        c = Case("eval", fl, (script, list(stack)), fixed_ctx(), "1" if wit else "0", tag=self.tag)
        c.hints = self._hints(codes, sigs, pubs, wit)
        self.out.append(c)

    def vf(self, fl, ssig, spk, witness, wit, codes=(), sigs=(), pubs=()):
        c = Case("verify", fl, (ssig, spk, list(witness)), fixed_ctx(ssig, witness), tag=self.tag)
        c.hints = self._hints(codes, sigs, pubs, wit)
        self.out.append(c)


class VmStream:
    """vm_* lines: the model side's transaction, keys, signatures and oracle table"""

    def __init__(self, emit):
        from props import c03m_gen as g, c03m_gensig as gs
        self.g, self.gs, self.emit = g, gs, emit

    def sec(self, i, form="c"):
        return self.gs.sec(i, form)

    def sign(self, i, code, wit, ht=1):
        return self.gs.sign(i, code, bool(wit), ht)

    def _table(self, codes, sigs, pubs, wit):
        if codes and isinstance(codes[0], tuple):
            # explicit candidates (sig, pub, scriptCode): keep those that really verify
            import props.c03m as m
            seen, out = set(), []
            for sg, pb, code in codes:
                k = (sg, pb, code)
                if sg and k not in seen:
                    seen.add(k)
                    if self.gs.really_verifies(sg, pb, code, bool(wit), self.g.CTX0):
                        out.append((sg, pb, m.code_key(code, bool(wit))))
            return out
        sigs = sorted({x for x in sigs if x})
        return self.gs.table(sigs, sorted(set(pubs)), list(dict.fromkeys(codes)), bool(wit), self.g.CTX0)

    def ev(self, fl, script, stack, wit, codes=(), sigs=(), pubs=()):
        self.emit(self.g.ev(fl, script, list(stack), wit=int(bool(wit)), table=self._table(codes, sigs, pubs, wit)))

    def vf(self, fl, ssig, spk, witness, wit, codes=(), sigs=(), pubs=()):
        self.emit(self.g.vf(fl, ssig, spk, list(witness), self.g.CTX0, self._table(codes, sigs, pubs, wit)))


def _wrap_emit(st, wrapper, fl, script, stack, wit, codes, sigs, pubs):
    W, P = F["WITNESS"], F["P2SH"]
    if wrapper in ("eval0", "eval1"):
        st.ev(fl, script, stack, wit, codes, sigs, pubs)
    elif wrapper == "bare":
        st.vf(fl, pushes(stack), script, [], wit, codes, sigs, pubs)
    elif wrapper == "p2sh":
        st.vf(fl | P, pushes(stack) + push_min(script), sc("HASH160", push(h160(script)), "EQUAL"), [], wit, codes, sigs, pubs)
    elif wrapper == "p2wsh":
        st.vf(fl | P | W, b"", sc(0, push(sha256(script))), list(stack) + [script], wit, codes, sigs, pubs)
    else:  # p2sh-p2wsh
        redeem = sc(0, push(sha256(script)))
        st.vf(fl | P | W, push(redeem), sc("HASH160", push(h160(redeem)), "EQUAL"), list(stack) + [script], wit, codes, sigs, pubs)


# (a) several CHECKSIG / CHECKSIGVERIFY / CHECKMULTISIG per script, shared hash types, a signature embedded in the script, CODESEPARATORs
def multi_checksig(st, plan):
    """plan: ops = [(kind, key index, hash type)], kind in cs | ms (1-of-1 multisig); every op but the last is the VERIFY form.
    embed = index of the op whose signature is ALSO pushed inside the script (then dropped), or None; embed_at = start | before;
    codesep = set of op indices preceded by OP_CODESEPARATOR; cross = (a, b): op a's signature is made over op b's scriptCode (invalid)."""
    ops, e, wit = plan["ops"], plan.get("embed"), plan["wit"]
    items = []                      # ("raw", bytes) | ("emb",) | ("cs",)
    opitem = []
    if e is not None and plan.get("embed_at") == "start":
        items += [("emb",), ("raw", bytes([OP["DROP"]]))]
    for j, (kind, ki, ht) in enumerate(ops):
        if j in plan.get("codesep", ()):
            items.append(("cs",))
        if e == j and plan.get("embed_at") != "start":
            items += [("emb",), ("raw", bytes([OP["DROP"]]))]
        last = j == len(ops) - 1
        if kind == "cs":
            items.append(("raw", push(st.sec(ki)) + bytes([OP["CHECKSIG" if last else "CHECKSIGVERIFY"]])))
        else:
            items.append(("raw", sc("1", push(st.sec(ki)), "1", "CHECKMULTISIG" if last else "CHECKMULTISIGVERIFY")))
        opitem.append(len(items) - 1)

    def render(its, emb):
        return b"".join(b"\xab" if it[0] == "cs" else (push(emb) if it[0] == "emb" else it[1]) for it in its)

    def code_for(j, emb, delete_own):
        start = 0
        for idx in range(opitem[j]):
            if items[idx][0] == "cs":
                start = idx + 1
        its = items[start:]
        if delete_own:
            its = [it for it in its if it[0] != "emb"]
        return render(its, emb)

    sigs: dict = {}
    order = ([e] if e is not None else []) + [j for j in range(len(ops)) if j != e]
    emb = b""
    codes = []
    for j in order:
        kind, ki, ht = ops[j]
        src = j
        if plan.get("cross") and plan["cross"][0] == j:
            src = plan["cross"][1]
        code = code_for(src, emb, delete_own=(src == e and not wit))
        codes.append(code)
        sigs[j] = st.sign(ki, code, wit, ht)
        if j == e:
            emb = sigs[j]
    script = render(items, emb)
    codes += [code_for(j, emb, delete_own=(j == e and not wit)) for j in range(len(ops))]
    stack = []
    for j in reversed(range(len(ops))):
        stack += ([b""] if ops[j][0] == "ms" else []) + [sigs[j]]
    pubs = [st.sec(ki) for _, ki, _ in ops]
    # what the interpreter can ask: each op's key and actual scriptCode, with any of the signatures of the case
    cands = [(sg, pubs[j], code_for(j, emb, delete_own=(j == e and not wit))) for j in range(len(ops)) for sg in sigs.values()]
    _wrap_emit(st, plan["wrapper"], plan["flags"], script, stack, wit, cands, list(sigs.values()), pubs)


def multi_checksig_plans(rng=None, n=0):
    if rng is None:
        i = 0
        for kinds in (("cs", "cs"), ("cs", "ms"), ("ms", "cs"), ("ms", "ms"), ("cs", "cs", "cs"), ("cs", "ms", "cs")):
            for samekey in (True, False):
                for e, at in ((None, None), (0, "start"), (1, "start"), (1, "before"), (len(kinds) - 1, "start")):
                    for codesep in ((), (1,), (len(kinds) - 1,)):
                        for cross in (None, (len(kinds) - 1, 0)):
                            i += 1
                            wrapper = ("eval0", "bare", "p2sh", "eval0", "p2wsh", "eval1")[i % 6]
                            wit = wrapper in ("p2wsh", "eval1")
                            if wit and e is not None:
                                wrapper, wit = "p2sh", False
                            ops = [(k, 0 if samekey else j % 3, 1) for j, k in enumerate(kinds)]
                            yield {"ops": ops, "embed": e, "embed_at": at, "codesep": codesep, "cross": cross, "wrapper": wrapper, "wit": wit,
                                   "flags": (0, F["NULLFAIL"], F["STRICTENC"] | F["DERSIG"] | F["LOW_S"] | F["NULLFAIL"] | F["NULLDUMMY"])[i % 3]}
    else:
        for _ in range(n):
            k = rng.choice([2, 2, 3, 4])
            wrapper = rng.choice(["eval0", "eval0", "bare", "p2sh", "p2wsh", "eval1", "p2sh-p2wsh"])
            wit = wrapper in ("p2wsh", "eval1", "p2sh-p2wsh")
            hts = [rng.choice([1, 1, 1, 2, 3, 0x81, 0x83]) for _ in range(k)]
            if rng.random() < 0.6:
                hts = [hts[0]] * k
            yield {"ops": [(rng.choice(["cs", "cs", "ms"]), rng.choice([0, 0, 1, 2]), hts[j]) for j in range(k)],
                   "embed": None if wit or rng.random() < 0.3 else rng.randrange(k), "embed_at": rng.choice(["start", "before"]),
                   "codesep": tuple(j for j in range(k) if rng.random() < 0.25), "cross": None if rng.random() < 0.7 else (rng.randrange(k), rng.randrange(k)),
                   "wrapper": wrapper, "wit": wit,
                   "flags": rng.choice([0, 0, F["NULLFAIL"], F["STRICTENC"] | F["DERSIG"], F["LOW_S"] | F["NULLFAIL"] | F["NULLDUMMY"]])}


# (b) witness items of 520 / 521+ bytes: padded (lax DER) signatures, oversized keys and extra items, P2WPKH and P2WSH, native and P2SH-wrapped
def big_witness_items(st, thorough, rng=None, n=0):
    W, P = F["WITNESS"], F["P2SH"]
    flag_sets = [P | W, P | W | F["NULLFAIL"], P | W | F["WITNESS_PUBKEYTYPE"] | F["MINIMALIF"] | F["NULLDUMMY"] | F["CLEANSTACK"], STD]

    def padded(sig, total):
        return sig if total <= len(sig) else sig[:-1] + b"\x00" * (total - len(sig)) + sig[-1:]

    def one(kind, what, size, fl, ki):
        pk = st.sec(ki)
        if kind.endswith("wpkh"):
            code = sc("DUP", "HASH160", push(h160(pk)), "EQUALVERIFY", "CHECKSIG")
            sig = st.sign(ki, code, True)
            if what == "sig":
                wit_items, prog = [padded(sig, size), pk], h160(pk)
            elif what == "key":
                blob = pk + b"\x00" * (size - len(pk))
                wit_items, prog = [sig, blob], h160(blob)
            else:
                wit_items, prog = [b"\x00" * size, sig, pk], h160(pk)
            spk0 = sc(0, push(prog))
            codes = [code]
        else:
            script = sc(push(pk), "CHECKSIG") if what != "extra" else sc("DROP", push(pk), "CHECKSIG")
            sig = st.sign(ki, script, True)
            if what == "sig":
                wit_items = [padded(sig, size), script]
            elif what == "key":
                script = sc(push(pk + b"\x00" * 10), "CHECKSIG")
                wit_items = [padded(st.sign(ki, script, True), size), script]
            else:
                wit_items = [sig, b"\x00" * size, script]
            spk0 = sc(0, push(sha256(wit_items[-1])))
            codes = [wit_items[-1]]
        if kind.startswith("p2sh-"):
            ssig, spk = push(spk0), sc("HASH160", push(h160(spk0)), "EQUAL")
        else:
            ssig, spk = b"", spk0
        st.vf(fl, ssig, spk, wit_items, True, codes, [x for x in wit_items if 8 < len(x) < 700 and x[:1] == b"\x30"], [pk])

    if rng is None:
        i = 0
        for kind in ("p2wpkh", "p2sh-p2wpkh", "p2wsh", "p2sh-p2wsh"):
            for what in ("sig", "key", "extra"):
                for size in (519, 520, 521, 522, 600):
                    i += 1
                    for fl in (flag_sets if thorough or size in (520, 521) else flag_sets[i % 4: i % 4 + 1]):
                        one(kind, what, size, fl, i % 3)
    else:
        for _ in range(n):
            one(rng.choice(["p2wpkh", "p2sh-p2wpkh", "p2wsh", "p2sh-p2wsh"]), rng.choice(["sig", "sig", "key", "extra"]),
                rng.choice([73, 100, 519, 520, 521, 522, 1000, 5000]), rng.choice(flag_sets + [P | W | F["DERSIG"], P | W | F["LOW_S"]]), rng.randrange(3))


# (c) CHECKMULTISIG failure patterns under NULLFAIL: every arrangement of {valid for key i, empty, garbage} over the m signature slots
def multisig_patterns(st, thorough, rng=None, n=0):
    grng = lib.random.Random("C03/ms-patterns")
    garbage = der_sig(grng.getrandbits(255) + 1, grng.getrandbits(253) + 1) + b"\x01"
    NF = F["NULLFAIL"]

    def one(m, n_, slots, fl, tail, wrapper):
        wit = wrapper in ("eval1", "p2wsh")
        pubs = [st.sec(i) for i in range(n_)]
        script = sc(push_int(m), *[push(p_) for p_ in pubs], push_int(n_), "CHECKMULTISIG") + tail
        sigs = [b"" if s_ == "e" else garbage if s_ == "g" else st.sign(s_, script, wit) for s_ in slots]
        _wrap_emit(st, wrapper, fl, script, [b""] + sigs, wit, [script], sigs, pubs)

    def arrangements(m, n_):
        opts = list(range(n_)) + ["e", "g"]
        out = [[]]
        for _ in range(m):
            out = [a + [o] for a in out for o in opts]
        return out

    if rng is None:
        i = 0
        for m, n_ in ((1, 1), (1, 2), (2, 2), (2, 3), (3, 3)):
            for slots in arrangements(m, n_):
                i += 1
                combos = [(NF, sc("NOT"), ("eval0", "eval1", "p2sh", "p2wsh", "bare")[i % 5])]
                if thorough or i % 3 == 0:
                    combos += [(0, sc("NOT"), "eval0"), (NF | F["NULLDUMMY"] | F["STRICTENC"], b"", "eval1"), (NF, b"", "eval0")]
                for fl, tail, wrapper in combos:
                    one(m, n_, slots, fl, tail, wrapper)
    else:
        for _ in range(n):
            n_ = rng.choice([1, 2, 3, 4, 5])
            m = rng.randint(1, n_)
            slots = [rng.choice(list(range(n_)) + ["e", "g"]) for _ in range(m)]
            if rng.random() < 0.5:
                slots = sorted([x for x in slots if isinstance(x, int)]) + [x for x in slots if not isinstance(x, int)]
                rng.shuffle(slots) if rng.random() < 0.3 else None
            one(m, n_, slots, rng.choice([NF, NF, 0, NF | F["NULLDUMMY"], NF | F["STRICTENC"] | F["DERSIG"]]), rng.choice([sc("NOT"), sc("NOT"), b""]),
                rng.choice(["eval0", "eval1", "bare", "p2sh", "p2wsh", "p2sh-p2wsh"]))


def signature_arrangements(out, vm_emit, thorough, rng, n_random):
    """the three families above, for the spec_ stream (Case objects) and for the vm_ stream (op lines); deterministic tables + seeded random"""
    seed = rng.getrandbits(64)
    for st in (SpecStream(out, "sigarr"), VmStream(vm_emit)):
        r = lib.random.Random(seed)   # the same random plans for both streams
        for plan in multi_checksig_plans():
            multi_checksig(st, plan)
        big_witness_items(st, thorough)
        multisig_patterns(st, thorough)
        for plan in multi_checksig_plans(r, n_random):
            multi_checksig(st, plan)
        big_witness_items(st, thorough, r, n_random // 2)
        multisig_patterns(st, thorough, r, n_random)


# ---------------------------------------------------------------------------------------------- anchored line coverage
ANCHORS = ["pycoin/vm/VM.py", "pycoin/vm/ConditionalStack.py", "pycoin/vm/ScriptStreamer.py", "pycoin/coins/bitcoin/VM.py",
           "pycoin/coins/bitcoin/make_instruction_lookup.py", "pycoin/coins/bitcoin/ScriptStreamer.py", "pycoin/coins/bitcoin/SolutionChecker.py",
           "pycoin/coins/bitcoin/P2SChecker.py", "pycoin/coins/bitcoin/SegwitChecker.py", "pycoin/satoshi/intops.py", "pycoin/satoshi/stackops.py",
           "pycoin/satoshi/miscops.py", "pycoin/satoshi/checksigops.py", "pycoin/satoshi/IntStreamer.py"]


def _function_lines(path):
    """line numbers that belong to function bodies (module-level statements run at import time and are not traced here)"""
    lines = set()

    def walk(code, inside):
        if inside:
            for _, _, ln in code.co_lines():
                if ln is not None:
                    lines.add(ln)
        for c in code.co_consts:
            if hasattr(c, "co_code"):
                walk(c, True)

    walk(compile(open(path).read(), path, "exec"), False)
    return lines


def line_coverage(ops):
    """stdlib tracing of the anchored files while the implementation runs a sample of the cases"""
    import sys
    files = {str(lib.REPO / a): a for a in ANCHORS}
    hit: dict = {a: set() for a in ANCHORS}

    def tracer(frame, event, arg):
        a = files.get(frame.f_code.co_filename)
        if a is None:
            return None
        if event == "line" or event == "call":
            hit[a].add(frame.f_lineno)
        return tracer

    sys.settrace(tracer)
    try:
        for op in ops:
            _impl_case(_case(op))
    finally:
        sys.settrace(None)
    rep = {}
    for path, a in files.items():
        want = _function_lines(path)
        # lines of doctest-only / disabled-opcode helpers that the VM can never reach are listed, not hidden
        miss = sorted(want - hit[a])
        rep[a] = {"function_lines": len(want), "executed": len(want & hit[a]), "not_executed": miss[:60]}
    return rep


# ---------------------------------------------------------------------------------------------- gen
def _emit_cases(cases, emit, ctx):
    S.resolve(cases)
    S.cross_check_oracle()
    ctx.extra_cov["sig_oracle_answers_recomputed_in_lean"] = {"answers": S.XCHECK_DONE[0], "true": S.XCHECK_DONE[1]}
    ctx.extra_cov["sig_oracle_digests"] = {"computed_by_reference_sighashlib": S.REF_STATS[0], "sampled_beside_pycoin": S.REF_STATS[1] + S.REF_STATS[2],
                                           "pycoin_same": S.REF_STATS[1], "pycoin_different_or_raised": S.REF_STATS[2], "different_examples": list(S.REF_DIFF),
                                           "different_with_completely_decodable_script_code": S.REF_STATS[3],
                                           "note": "informational: the verdict uses the reference digest only; agreement of pycoin's digest is property C04 (on the unchanged tree the "
                                                   "differences are script codes with a cut-short last push: C04 known finding truncated-push-short-write; such scripts never validate)"}
    for c in cases:
        op = c.line()
        if op in CASES:
            continue
        CASES[op] = c
        SPEC[op] = _canon(c.spec)
        emit(op, c.tag or c.kind)
        if c.tag == "hash-config":
            # the same case once more in the configuration with the bundled pure-Python RIPEMD-160
            oph = op.replace("spec_eval ", "spec_eval_h ", 1).replace("spec_verify ", "spec_verify_h ", 1)
            CASES[oph] = c
            SPEC[oph] = SPEC[op]
            emit(oph, "hash-config:python-ripemd160")
        # evidence: do the error codes agree when both fail?
        ie = IMPL_ERR.get(op)
        if ie is not None and c.spec.startswith("fail "):
            se = c.spec.split(" ")[1]
            if se == ie:
                STATS["same_code"] += 1
            else:
                STATS["diff_code"] += 1
                k = "%s/%s" % (ie, se)
                STATS["pairs"][k] = STATS["pairs"].get(k, 0) + 1
        h = ctx.extra_cov.setdefault("spec_outcomes", {})
        key = c.spec.split(" ")[1] if c.spec.startswith("fail ") else c.spec.split(" ")[0]
        h[key] = h.get(key, 0) + 1
        c.info = None  # free the transaction


class _VmCtx:
    """the model-side stream runs on a fraction of its own budget inside C03 (its full budget: ./check C03M)"""

    def __init__(self, ctx, scale):
        self._ctx, self._scale = ctx, scale
        self.rng, self.thorough, self.extra_cov = ctx.rng, ctx.thorough, ctx.extra_cov

    def n(self, quick, thorough):
        return max(1, int(self._ctx.n(quick, thorough) * self._scale))


def gen(ctx, emit):
    rng = ctx.rng
    S.XCHECK_SAMPLE[0] = 1 if ctx.thorough else 3
    # model side first: pycoin's VM against its Lean model (exact, error codes included)
    M.gen(_VmCtx(ctx, 0.35 if ctx.thorough else 0.6), lambda op, kind="": emit(op, "vm:" + (kind or op.split(" ", 1)[0])))
    vec_cases, tx_cases = validate_spec(ctx)
    # Core's own vectors as differential cases too
    for c in vec_cases + tx_cases:
        c.spec = None
    _emit_cases(vec_cases + tx_cases, emit, ctx)

    cases: list = regression_cases()
    table_cases(cases, ctx.thorough)
    pipeline_table(cases, ctx.thorough)
    X.p2wpkh_table(cases, ctx.thorough)
    X.multi_table(cases, ctx.thorough)
    sig_table(cases, ctx.thorough)
    vm_emit = lambda op: emit(op, "vm:ms-opcount")
    ms_opcount_cases(cases, vm_emit)
    ms_opcount_cases(cases, vm_emit, rng, ctx.n(40, 1500))
    if not os.environ.get("C03_NO_SIGARR"):
        signature_arrangements(cases, lambda op: emit(op, "vm:sigarr"), ctx.thorough, rng, ctx.n(60, 2000))
    _emit_cases(cases, emit, ctx)

    # ---- hash opcodes across the padding boundaries of RIPEMD-160 / SHA-256, in the default configuration and in the one
    # that selects the bundled pure-Python RIPEMD-160 (PYCOIN_USE_PYTHON_RIPEMD160): same verdict, same stack
    hc = []
    ctx0 = "1:0:4294967295:0"
    for n in (0, 1, 31, 32, 54, 55, 56, 57, 63, 64, 65, 118, 119, 120, 127, 128, 183, 184, 247, 311, 375, 439, 503, 520):
        d = bytes((7 * i + n) & 255 for i in range(n))
        for hop in ("RIPEMD160", "HASH160"):
            hc.append(Case("eval", 0, (push(d) + sc(hop), []), ctx0, "0", tag="hash-config"))
    for n in (23, 55, 56, 119, 120, 183, 247, 503, 520):
        redeem = (b"\x61" * (n - 1)) + b"\x51"          # NOPs then OP_1: a redeem script of n bytes (op count stays within 201)
        if n - 1 <= 201:
            hc.append(Case("verify", F["P2SH"], (push(redeem), sc("HASH160", push(h160(redeem)), "EQUAL"), []), ctx0, tag="hash-config"))
        data = bytes((3 * i + n) & 255 for i in range(n))
        hc.append(Case("verify", 0, (push(data), sc("RIPEMD160", push(hashlib.new("ripemd160", data).digest()), "EQUAL"), []), ctx0, tag="hash-config"))
    _emit_cases(hc, emit, ctx)

    def batch(n, f):
        done = 0
        while done < n:
            k = min(5000, n - done)
            cs: list = []
            f(k, cs)
            _emit_cases(cs, emit, ctx)
            done += k

    def random_evals(k, cs):
        for _ in range(k):
            c = rand_ctx(rng)
            minimal = rng.random() < 0.6
            sv = "1" if rng.random() < 0.2 else "0"
            prog, stack, fl = synth_program(rng, minimal, S.parse_ctx(c)), rand_initial_stack(rng), rand_eval_flags(rng)
            if rng.random() < 0.04:
                # a real signature over the whole script, checked by a prologue of the program
                ki = rng.randrange(len(SECRETS))
                pk = sec(ki, rng.choice(KEYFORMS_OK + KEYFORMS_OK + KEYFORMS_BAD))
                prog = sc(push(pk), rng.choice(["CHECKSIGVERIFY", "CHECKSIGVERIFY", "CHECKSIG"])) + prog
                base = Case("eval", fl, (prog, []), c, sv)
                stack = stack + [sig_variant(rng, base.txinfo(), ki, prog, sv)[0]]
            cs.append(Case("eval", fl, (prog, stack), c, sv, tag="random-eval"))

    batch(ctx.n(22000, 480000), random_evals)
    batch(ctx.n(6000, 100000), lambda k, cs: pipeline_scenarios(rng, k, cs))
    batch(ctx.n(1500, 40000), lambda k, cs: sig_scenarios(rng, k, cs))
    batch(ctx.n(150, 8000), lambda k, cs: X.multi_scenarios(rng, k, cs))   # k transactions, every input index of each validated
    # anchored line coverage on a sample (every k-th case, all regression cases)
    allops = list(CASES)
    step = max(1, len(allops) // ctx.n(3000, 12000))
    ctx.extra_cov["anchored_line_coverage"] = line_coverage(allops[::step])
    tot = STATS["same_code"] + STATS["diff_code"]
    ctx.extra_cov["error_code_agreement"] = {
        "both_fail": tot, "same_code": STATS["same_code"], "different_code": STATS["diff_code"],
        "most_common_pairs_impl/spec": dict(sorted(STATS["pairs"].items(), key=lambda kv: -kv[1])[:25]),
        "note": "informational: a different error code with the same verdict is not a violation (DESIGN §9)"}
