"""C06 — validation is tamper-evident: after signing, a change makes an input fail exactly when its hash type commits to
the changed field; an input whose spent output is unknown is never valid; repeating validation on the same object gives
the verdict a fresh object gives."""
from __future__ import annotations

from lib import show_list
import txlib
from txlib import COINS, TX, hx, parse_bytes, parse_fields, show_fields
import sighashlib as S
from sighashlib import parse_us, show_us, build

from pycoin.satoshi import checksigops

MANIFEST = {
    "text": "Lean theorems over the model of the commitment (the temporary transaction of _signature_hash, the BIP143 message) and of the validation "
            "entry points: two legacy preimages are equal iff the committed projections (the blanked transaction) are equal (unique decoding of the wire "
            "format; every script code, complete pushes or not) and, read back field by field, iff the listed fields are (legacyFields: version, lock "
            "time, stripped script code, outpoints and sequences of the kept inputs with the other sequences read as zero under NONE/SINGLE and the "
            "signed input alone under ANYONECANPAY, all / none / the one output at the input's position) for every hash-type word; SIGHASH_SINGLE "
            "without a matching output commits nothing (constant 1<<248 whatever the transaction); the BIP143 / fork-id messages are equal iff their "
            "ten items are and, the part hashes standing for the lists they digest (explicit hypotheses), iff the fields143 are (incl. the spent "
            "amount; SINGLE without a matching output: zero hashOutputs, nothing of the outputs); the fork id folded into bits 8.. changes no flag; the "
            "serialiser of the legacy message is injective in (transaction, hash type); the closures of check_solution read the state only through "
            "the committed bytes, so equal committed bytes + equal input context => equal verdict of is_solution_ok (frame direction), with the "
            "other inputs' unlocking data (all hash types) and the outputs under SIGHASH_NONE as proved instances; an input moved to another position "
            "commits to what stands at its NEW position (ANYONECANPAY: position free; legacy SINGLE: position and output; BIP143 SINGLE: the output "
            "there); unknown spent output => False; is_solution_ok turns ScriptError and nothing else into False and nothing into True (except clauses "
            "regenerated from the source); the per-call sighash cache is transparent; every answer of any history of validations and in-place changes "
            "on one object equals the fresh computation. FAILS DIRECTION AT VERDICT LEVEL, through is_solution_ok of the instantiated interpreter "
            "(stdVM: the VM model of C03 run with the class's DEFAULT_FLAGS, its signature check being checksig over the closures of check_solution: "
            "key parse, lax DER, digest of the committed bytes, ECDSA): for P2PKH, P2PK, P2WPKH, P2SH-P2WPKH and m-of-n multisig bare / P2SH / P2WSH / "
            "P2SH-P2WSH (every 1<=m<=n<=20, per-signature hash types): the input validates only if every signature verifies for the digest of the "
            "current state (C06_valid_imp_verifies_*), and if it validated in s and the committed bytes of one signature differ in s' (by "
            "C06_tampered_of_fields_legacy / _bip143_partial: a committed field differs) it does not validate in s' under exactly two named "
            "cryptographic hypotheses, CollisionFree (digest function on the two committed byte strings) and NoForgery (the signature verifies for the "
            "other digest under none of the keys) (C06_tamper_fails_<kind>); everything structural is proved (which bytes are digested, that the digest "
            "feeds ECDSA-verify of the key in the script, that a refused check makes CHECKSIG push false - NULLFAIL is not a default flag - and the "
            "script fail, that the multisig loop gives up when one signature matches no key, that P2SH / witness wrappers compare hashes first). THE "
            "SCRIPT BEING SATISFIED: a change inside the hash push of a P2PKH / P2WPKH / P2SH / P2WSH spent script makes the input fail with no "
            "cryptographic hypothesis (C06_spent_script_hash_fails_*); a spent script changed into one the same unlocking data still runs (P2PKH then "
            "OP_NOP) fails because the script code is committed (C06_tamper_fails_p2pkh_script_nop). Tied to the code by histories: sign with pycoin "
            "(P2PKH, P2PK, bare/P2SH/P2WSH multisig, P2WPKH, P2SH-P2WPKH; BTC/LTC/GRS/BCH/BTG; six standard hash types), then sequences of "
            "single-field mutations interleaved with is_solution_ok/bad_solution_count on the same object and on a fresh parse, and a deterministic "
            "table (c06_each): coin class x hash type x puzzle kind x one single-step mutation per family and position (version, lock time, each "
            "input's outpoint hash / index / sequence, each output's amount / script, insertion / removal / reordering of inputs and of outputs, "
            "unlocking data swapped between two inputs of the same kind, spent amount, the data push of the spent script, OP_NOP appended / "
            "prepended to it, unspent set to None / dropped, values outside their wire range), the last input of every row having no output at its "
            "position; the verdict of EVERY input is dictated by the model ('1', '0', 'E' = raises) and by an independent reference, and compared.",
    "note": "The frame theorems keep the script interpreter abstract (C03 covers it); the fails direction instantiates it (Model/ValidateVM.lean) and "
            "rests on SHA-256 collision freeness on the two named byte strings and on ECDSA non-forgeability for the two named digests, hypotheses of "
            "C06_tamper_fails_<kind> (for reading the BIP143 part hashes back as lists: collision freeness on three more named pairs and a non-zero "
            "output digest, C06_tampered_of_fields_bip143_partial) - facts the statements also need: the tampered transaction is not of the coinbase "
            "shape (known finding coinbase-marker-input-valid) and the closure answers in the tampered state (otherwise is_solution_ok raises: 'E' in "
            "the table). Spent-script changes no theorem speaks about (OP_NOP around a P2SH / witness template, arbitrary byte flips outside the data "
            "pushes, unlocking data swapped between different kinds) stay undetermined ('?').",
    "technique": "Lean 4 proof (unique decoding / congruence over the sighash model; symbolic evaluation of the consensus specification on the standard "
                 "templates, carried to the VM model by C03M_verify_eq) + differential histories and a deterministic mutation table on the real objects + "
                 "reference oracle",
}
RULE = ("ops c06_from_db / c06_set_unspents / c06_parse_unspents (ways the unspents get populated: databases lacking the tx, with too few outputs, "
        "under the wrong hash; None entries, short lists; the include_unspents extension; scriptSig empty / OP_1 / genuine), c06_hist (signed transaction + mutation sequence; verdict vector after every step), "
        "c06_each (the table: signed transaction + single mutations each applied on its own; one verdict vector per mutation), c06_guards (missing_unspent / missing_unspents / the "
        "is_solution_ok guard on unspents patterns), c06_cache (one checksigs execution with repeated hash types); distinct = distinct op line; "
        "trivial = histories without any mutation")
ASSUMPTIONS = ["SHA-256 collision freeness on the two committed byte strings and ECDSA non-forgeability for their digests (the two named hypotheses of C06_tamper_fails_<kind>; no generated tampering produced a valid signature)",
               "the frame theorems abstract the script interpreter as a function of the TxContext and of the sighash closures; the tamper theorems instantiate it with the VM model of C03 and the consensus ECDSA / key / DER parsing of Spec/Secp256k1 (pycoin's own tied to them under C01/C03/C10)",
               "mutations do not create the null outpoint (coinbase marker); a value outside its wire range makes the validation raise (dictated 'E'), never return True"]
TRUSTED = ["harness/sighashlib.py: independent re-statement of the consensus sighash preimages used to decide what a mutation must do to a verdict"]


def E(e):
    return "err " + type(e).__name__


# ---------------------------------------------------------------- mutation interpreter on the real objects

def apply_step(coin, tx, mp, cmd):
    """mutate `tx` (and its unspents, and the position map) in place"""
    T = TX(coin)
    a = cmd.split(":")
    k = a[0]
    if k == "nop":
        pass
    elif k == "ver":
        tx.version = int(a[1])
    elif k == "lock":
        tx.lock_time = int(a[1])
    elif k == "seq":
        tx.txs_in[int(a[1])].sequence = int(a[2])
    elif k == "pidx":
        tx.txs_in[int(a[1])].previous_index = int(a[2])
    elif k == "phash":
        tx.txs_in[int(a[1])].previous_hash = parse_bytes(a[2])
    elif k == "sol":
        tx.txs_in[int(a[1])].script = parse_bytes(a[2])
    elif k == "wit":
        tx.txs_in[int(a[1])].witness = [] if a[2] == "~" else [parse_bytes(x) for x in a[2].split("/")]
    elif k == "oval":
        tx.txs_out[int(a[1])].coin_value = int(a[2])
    elif k == "oscr":
        tx.txs_out[int(a[1])].script = parse_bytes(a[2])
    elif k == "delin":
        i = int(a[1])
        del tx.txs_in[i]
        if i < len(tx.unspents):
            del tx.unspents[i]
        del mp[i]
    elif k == "insin":
        i = int(a[1])
        h, idx, sc, q, w = a[2].split(",")
        t = T.TxIn(parse_bytes(h), int(idx), parse_bytes(sc), int(q))
        t.witness = [] if w == "~" else [parse_bytes(x) for x in w.split("/")]
        tx.txs_in.insert(i, t)
        tx.unspents.insert(i, None)
        mp.insert(i, None)
    elif k == "swapin":
        i, j = int(a[1]), int(a[2])
        tx.txs_in[i], tx.txs_in[j] = tx.txs_in[j], tx.txs_in[i]
        if i < len(tx.unspents) and j < len(tx.unspents):
            tx.unspents[i], tx.unspents[j] = tx.unspents[j], tx.unspents[i]
        mp[i], mp[j] = mp[j], mp[i]
    elif k == "swapsol":
        i, j = int(a[1]), int(a[2])
        x, y = tx.txs_in[i], tx.txs_in[j]
        x.script, y.script = y.script, x.script
        x.witness, y.witness = y.witness, x.witness
        mp[i], mp[j] = mp[j], mp[i]      # the unlocking data (the signatures) change places
    elif k == "delout":
        del tx.txs_out[int(a[1])]
    elif k == "insout":
        v, sc = a[2].split(",")
        tx.txs_out.insert(int(a[1]), T.TxOut(int(v), parse_bytes(sc)))
    elif k == "swapout":
        i, j = int(a[1]), int(a[2])
        tx.txs_out[i], tx.txs_out[j] = tx.txs_out[j], tx.txs_out[i]
    elif k == "us":
        i = int(a[1])
        if a[2] == "none":
            tx.unspents[i] = None
        else:
            v, sc = a[2].split(",")
            tx.unspents[i] = T.TxOut(int(v), parse_bytes(sc))
    elif k == "usdrop":
        tx.unspents.pop()
    elif k in ("uskey", "usnop", "uspre"):
        i = int(a[1])
        u = tx.unspents[i]
        sc = bytes(u.script)
        if k == "uskey":
            sc = flip_data_bit(sc, int(a[2]))
        elif k == "usnop":
            sc = sc + b"\x61"
        else:
            sc = b"\x61" + sc
        tx.unspents[i] = T.TxOut(u.coin_value, sc)
    else:
        raise ValueError("unknown mutation " + cmd)


# ---------------------------------------------------------------- standard spent scripts and their data pushes

def spk_template(s: bytes):
    """(kind, [(start, end)]): the template of a spent script and the byte ranges of its data pushes"""
    n = len(s)
    if n == 25 and s[:3] == b"\x76\xa9\x14" and s[23:] == b"\x88\xac":
        return "p2pkh", [(3, 23)]
    if n == 23 and s[:2] == b"\xa9\x14" and s[22:] == b"\x87":
        return "p2sh", [(2, 22)]
    if n == 22 and s[:2] == b"\x00\x14":
        return "p2wpkh", [(2, 22)]
    if n == 34 and s[:2] == b"\x00\x20":
        return "p2wsh", [(2, 34)]
    if ((n == 35 and s[0] == 33) or (n == 67 and s[0] == 65)) and s[-1] == 0xAC:
        return "p2pk", [(1, n - 1)]
    if n >= 3 and s[-1] == 0xAE and 0x51 <= s[0] <= 0x60 and 0x51 <= s[-2] <= 0x60:
        pos, regions = 1, []
        while pos < n - 2:
            ln = s[pos]
            if ln not in (33, 65) or pos + 1 + ln > n - 2:
                return "other", []
            regions.append((pos + 1, pos + 1 + ln))
            pos += 1 + ln
        if len(regions) == s[-2] - 0x50 and s[0] <= s[-2]:
            return "multisig", regions
    return "other", []


def data_positions(s: bytes):
    _k, regions = spk_template(s)
    return [i for i in range(len(s)) if any(a <= i < b for a, b in regions)]


def data_diff_only(old: bytes, new: bytes) -> bool:
    """`new` has the template of `old` and differs from it, inside the data pushes only"""
    if len(old) != len(new) or old == new:
        return False
    inside = set(data_positions(old))
    return all(i in inside or old[i] == new[i] for i in range(len(old)))


def flip_data_bit(s: bytes, bit: int) -> bytes:
    pos = data_positions(s)
    if not pos:
        raise ValueError("no data push in this spent script")
    b = bit % (8 * len(pos))
    out = bytearray(s)
    out[pos[b // 8]] ^= 1 << (b % 8)
    return bytes(out)


def signed_info(coin, f0, us0, meta):
    """per signed input: (scriptSig, witness, spent script, [reference preimage per hash type], (witness closure?, code, hash types))"""
    res = []
    for k0 in range(len(f0[2])):
        w, code, hts = meta[k0]
        spent = None if (k0 >= len(us0) or us0[k0] is None) else us0[k0][1]
        res.append((f0[2][k0][2], list(f0[2][k0][4]), spent, [ref_preimage(coin, f0, us0, w, code, k0, h) for h in hts], (w, code, hts)))
    return res


def judge(coin, f, us, j, info, pres, code):
    """'1' every signed preimage is what its signature commits to at position j now; '0' one differs or is refused; 'E' every
    message computation raises (a field out of its wire range: is_solution_ok lets that escape); '?' some do, some do not"""
    w, _code, hts = info
    cur = [ref_preimage(coin, f, us, w, code, j, h) for h in hts]
    if cur and all(c == "raises" for c in cur):
        return "E"
    if any(c == "raises" for c in cur):
        return "?"
    return "1" if all(p is not None and p != "refused" and p != "raises" and c == p for c, p in zip(cur, pres)) else "0"


def expected(coin, signed, f, us, mp):
    """what the hash types dictate for every position of the current state (fields f, unspents us, mp[j] = index of the
    signed input whose unlocking data sits at j): '1' / '0', or '?' where no commitment decides"""
    exp = []
    for j in range(len(f[2])):
        e = "0"
        if mp[j] is None and j < len(us) and us[j] is not None and spk_template(us[j][1])[0] == "other":
            # no signed unlocking data sits here, but the script being satisfied is no standard template any more (an earlier
            # step rewrote it, e.g. NOPs around a witness program make it an anyone-can-spend script): the interpreter decides
            e = "?"
        if mp[j] is not None and j < len(us) and us[j] is not None:
            sol, wit, spent, pres, info = signed[mp[j]]
            w, code, _hts = info
            new = us[j][1]
            if not (f[2][j][2] == sol and list(f[2][j][4]) == list(wit)) or spent is None:
                e = "?"
            elif new == spent:
                e = judge(coin, f, us, j, info, pres, code)
            else:
                kind, _r = spk_template(spent)
                data_only = data_diff_only(spent, new)
                if kind in ("p2pkh", "p2sh", "p2wpkh", "p2wsh") and data_only:
                    e = "0"       # the unlocking data no longer hashes to what the spent script says
                elif (not w) and code == spent and kind in ("p2pkh", "p2pk", "multisig") and (
                        data_only or new == spent + b"\x61" or new == b"\x61" + spent):
                    # the spent script is the script code: the signatures commit to the new one
                    e = judge(coin, f, us, j, info, pres, new)
                    if e == "1" or (e == "E" and data_only):
                        e = "?"       # (a changed key may not even parse: then the message is never asked for)
                else:
                    e = "?"
        exp.append(e)
    return exp


def verdicts_of(tx, mask=(), count=True):
    """verdict vector ('1' / '0' / 'E' = the validation raised; '?' at the masked positions, whatever happened there) and
    bad_solution_count(): 'E' when it raised; '?' when only masked inputs could have decided it"""
    out = []
    for i in range(len(tx.txs_in)):
        if i in mask:
            try:
                tx.is_solution_ok(i)
            except Exception:  # noqa: BLE001
                pass
            out.append("?")
            continue
        try:
            r = "1" if tx.is_solution_ok(i) else "0"
        except Exception:  # noqa: BLE001
            r = "E"
        out.append(r)
    if not count:
        return "".join(out)
    try:
        bad = str(tx.bad_solution_count())
    except Exception:  # noqa: BLE001
        bad = "E"
    if "E" not in out and mask:
        bad = "?"
    return "".join(out) + "/" + bad


def fresh_copy(coin, tx):
    """a fresh object from the bytes of the transaction, with copies of the unspents"""
    T = TX(coin)
    t2 = T.from_bin(tx.as_bin())
    t2.unspents = [None if u is None else T.TxOut(u.coin_value, bytes(u.script)) for u in tx.unspents]
    return t2


def impl(op: str) -> str:
    a = op.split(" ")
    k = a[0]
    try:
        if k == "c06_sigchecked":
            coin, kinds, ht = a[1], a[2].split(","), int(a[3])
            tx = S.sign_tx(coin, kinds, ht, n_out=2)
            res = []
            for i in range(len(kinds)):
                trace, _vmap, _vals, outcome = S.observe_checksol(tx, i)
                res.append("%d/%d" % (1 if (outcome == "ok" and tx.is_solution_ok(i)) else 0, 1 if trace else 0))
            return "ok " + ",".join(res)
        if k in ("c06_hist", "c06_each"):
            coin, f0, us, meta = a[1], parse_fields(a[2]), parse_us(a[3]), parse_meta(a[4])
            signed = signed_info(coin, f0, us, meta)
            steps = [] if a[5] == "~" else a[5].split(";")

            def masked(tx, mp):
                exp = expected(coin, signed, txlib.fields_of(tx), S.us_of(tx), mp)
                return {j for j, e in enumerate(exp) if e == "?"}
            res = []
            if k == "c06_hist":
                tx = build(coin, f0, us)
                mp = list(range(len(tx.txs_in)))
                for cmd in [None] + steps:
                    if cmd is not None:
                        apply_step(coin, tx, mp, cmd)
                    mask = masked(tx, mp)
                    v = verdicts_of(tx, mask)
                    v2 = verdicts_of(tx, mask)                       # asked twice on the same object
                    try:
                        fresh = fresh_copy(coin, tx)                 # and on a fresh parse of its bytes
                    except Exception:  # noqa: BLE001  (a field out of its wire range: there are no bytes)
                        fresh = tx
                    v3 = verdicts_of(fresh, mask)
                    if not (v == v2 == v3):
                        v += "!STALE(%s,%s)" % (v2, v3)
                    res.append(v)
            else:
                base = build(coin, f0, us)
                res.append(verdicts_of(base, masked(base, list(range(len(base.txs_in))))))
                for cmd in steps:
                    tx = build(coin, f0, us)
                    mp = list(range(len(tx.txs_in)))
                    apply_step(coin, tx, mp, cmd)
                    res.append(verdicts_of(tx, masked(tx, mp), count=False))
            return "ok " + ";".join(res)
        if k == "c06_guards":
            coin, f, us = a[1], parse_fields(a[2]), parse_us(a[3])
            tx = build(coin, f, us)
            n = len(tx.txs_in)
            mu = "".join("1" if tx.missing_unspent(i) else "0" for i in range(n + 2))
            guard = []
            called = []
            orig = type(tx).check_solution

            def rec(self, idx, *args, **kw):
                called.append(idx)
                raise tx.SolutionChecker.ScriptError("stop")
            type(tx).check_solution = rec
            try:
                for i in range(n + 2):
                    called.clear()
                    r = tx.is_solution_ok(i)
                    guard.append("1" if (r is False and not called) else "0")
            finally:
                type(tx).check_solution = orig
            return "ok %s %d %s" % (mu, 1 if tx.missing_unspents() else 0, "".join(guard))
        if k == "c06_from_db":
            coin, f, ign, db = a[1], parse_fields(a[2]), a[3] == "1", parse_db(a[1], a[4])
            tx = build(coin, f, [])
            try:
                tx.unspents_from_db(db, ignore_missing=ign)
                head = "ok " + txlib.show_unspents(tx.unspents)
            except Exception as e:  # noqa: BLE001
                head = "err " + type(e).__name__
            return head + " " + guards_and_verdicts(tx)
        if k == "c06_set_unspents":
            coin, f, us = a[1], parse_fields(a[2]), parse_us(a[3])
            tx = build(coin, f, [])
            T = TX(coin)
            try:
                tx.set_unspents([None if u is None else T.TxOut(u[0], u[1]) for u in us])
                head = "ok"
            except Exception as e:  # noqa: BLE001
                head = "err " + type(e).__name__
            return head + " " + guards_and_verdicts(tx)
        if k == "c06_parse_unspents":
            coin, f, us = a[1], parse_fields(a[2]), parse_us(a[3])
            tx = build(coin, f, us)
            tx2 = TX(coin).from_bin(tx.as_bin(include_unspents=True))
            return "ok " + txlib.show_unspents(tx2.unspents) + " " + guards_and_verdicts(tx2)
        if k == "c06_cache":
            salt = int(a[1])
            hts = [] if a[2] == "~" else [int(x) for x in a[2].split(",")]
            calls, vals = [], []

            from pycoin.ecdsa.secp256k1 import secp256k1_generator as G

            class Gen:
                def __getattr__(self, name):
                    return getattr(G, name)

                def verify(self, pp, val, sig):
                    vals.append(val)
                    return True

            class VM:
                flags = 0
                VM_TRUE, VM_FALSE = b"\x01", b""

                def __init__(self):
                    self.stack = []

                def generator_for_signature_type(self, st):
                    return Gen()

                def signature_for_hash_type_f(self, st, blobs, vm):
                    calls.append(st)
                    return st * 7 + salt

                def append(self, x):
                    self.stack.append(x)
            sig = bytes.fromhex("3006020101020101")
            key = bytes.fromhex("0279be667ef9dcbbac55a06295ce870b07029bfcdb2dce28d959f2815b16f81798")
            checksigops.checksigs(VM(), [sig + bytes([h]) for h in hts], [key] * len(hts))
            return "ok %s %s" % (show_list(vals), show_list(calls))
    except Exception as e:  # noqa: BLE001
        return E(e)
    return "bad-op"


class Src:
    """a transaction as a database hands it out: the hash it reports and its outputs"""

    def __init__(self, h, txs_out):
        self._h = h
        self.txs_out = txs_out

    def hash(self):
        return self._h


def parse_db_spec(s):
    """[(key, reported hash, [(value, script)])]"""
    res = []
    if s == "~":
        return res
    for e in s.split("|"):
        k, h, outs = e.split("=")
        o = [] if outs == "~" else [(int(x.split(":")[0]), parse_bytes(x.split(":")[1])) for x in outs.split(",")]
        res.append((parse_bytes(k), parse_bytes(h), o))
    return res


def parse_db(coin, s):
    T = TX(coin)
    db = {}
    for k, h, outs in parse_db_spec(s):
        db.setdefault(k, Src(h, [T.TxOut(v, sc) for v, sc in outs]))
    return db


def show_db(entries):
    return "|".join("%s=%s=%s" % (hx(k), hx(h), ",".join("%d:%s" % (v, hx(sc)) for v, sc in outs) or "~") for k, h, outs in entries) or "~"


def guards_and_verdicts(tx):
    """which is_solution_ok(i) return False without running the checker, and the verdict vector ('?' where the checker ran)"""
    n = len(tx.txs_in)
    guard, called = [], []
    orig = type(tx).check_solution

    def rec(self, idx, *args, **kw):
        called.append(idx)
        raise tx.SolutionChecker.ScriptError("stop")
    type(tx).check_solution = rec
    try:
        for i in range(n):
            called.clear()
            try:
                r = tx.is_solution_ok(i)
            except Exception:  # noqa: BLE001
                r = None
            guard.append("1" if (r is False and not called) else "0")
    finally:
        type(tx).check_solution = orig
    verd = []
    for i in range(n):
        if guard[i] == "0":
            verd.append("?")
            continue
        try:
            verd.append("1" if tx.is_solution_ok(i) else "0")
        except Exception:  # noqa: BLE001
            verd.append("E")
    return "".join(guard) + " " + "".join(verd)


def never_valid(tx, missing):
    """the property on the implementation: the inputs in `missing` (no spent output in the source data) are not reported valid"""
    for i in missing:
        try:
            r = tx.is_solution_ok(i)
        except Exception:  # noqa: BLE001
            r = False
        if r:
            return "input %d is reported valid by is_solution_ok although its spent output does not exist in the source data (scriptSig %s)" % (
                i, hx(tx.txs_in[i].script))
    if not tx.is_coinbase():
        try:
            bad = tx.bad_solution_count()
        except Exception:  # noqa: BLE001
            return None
        if bad < len(missing):
            return "bad_solution_count() = %d although %d inputs have no spent output in the source data" % (bad, len(missing))
    return None


# ---------------------------------------------------------------- oracle

def parse_meta(s):
    res = []
    for x in s.split("|"):
        k, code, hts = x.split(":")
        res.append((k == "w", parse_bytes(code), [int(h) for h in hts.split("/")]))
    return res


def ref_preimage(coin, f, us, witness, code, idx, ht):
    """the consensus preimage a signature (hash type ht) on input idx commits to; 'refused' / 'bug' / bytes / None;
    'raises' when a field that goes into it does not fit its wire format (no such message exists)"""
    import struct
    try:
        return _ref_preimage(coin, f, us, witness, code, idx, ht)
    except (struct.error, OverflowError):
        return "raises"


def _ref_preimage(coin, f, us, witness, code, idx, ht):
    forkid = coin in ("bch", "btg")
    if witness or forkid:
        if idx >= len(f[2]) or idx >= len(us) or us[idx] is None:
            return None
        if (coin == "btg" or (forkid and not witness)) and not (ht & 0x40):
            return "refused"
        ht2 = ht | (S.BTG_FORK_ID << 8) if coin == "btg" else ht
        return S.bip143_preimage(coin, f, idx, code, us[idx][0], ht2)
    if idx >= len(f[2]):
        return None
    if (ht & 0x1F) == 3 and idx >= len(f[3]):
        return "bug"
    return S.legacy_preimage(f, idx, code, ht)


def oracle(op: str, out: str):
    a = op.split(" ")
    k = a[0]
    if k == "c06_sigchecked":
        if not out.startswith("ok "):
            return "signing or validating a transaction over standard puzzles raised: " + out
        for i, (kd, cell) in enumerate(zip(a[2].split(","), out[3:].split(","))):
            if cell == "1/0":
                return ("input %d (%s) of a transaction signed by the library is reported valid although its validation computed no "
                        "signature hash at all: nothing of the transaction is bound for it" % (i, kd))
            if cell != "1/1":
                return "input %d (%s) of a transaction signed by the library does not validate" % (i, kd)
        return None
    if k in ("c06_hist", "c06_each"):
        if not out.startswith("ok"):
            return "validation history raised " + out
        if "STALE" in out:
            return "repeating validation on the same object, or on a fresh object built from its bytes, gives a different verdict"
        coin, f0, us0, meta = a[1], parse_fields(a[2]), parse_us(a[3]), parse_meta(a[4])
        got = out[3:].split(";")
        steps = [] if a[5] == "~" else a[5].split(";")
        signed = signed_info(coin, f0, us0, meta)
        tx = build(coin, f0, us0)
        mp = list(range(len(tx.txs_in)))
        for n, cmd in enumerate([None] + steps):
            if cmd is not None:
                if k == "c06_each":
                    tx = build(coin, f0, us0)
                    mp = list(range(len(tx.txs_in)))
                apply_step(coin, tx, mp, cmd)
            f, us = txlib.fields_of(tx), S.us_of(tx)
            exp = expected(coin, signed, f, us, mp)
            want = "".join(exp)
            if k == "c06_hist" or cmd is None:
                cb = tx.is_coinbase()
                want += "/" + (("0" if cb else "E") if "E" in exp else "?" if "?" in exp else "0" if cb else str(exp.count("0")))
            if n >= len(got):
                return "validation history returned %d answers for %d states" % (len(got), len(steps) + 1)
            if got[n] != want:
                vec = got[n].split("/")[0]
                for j, (g, e) in enumerate(zip(vec, exp)):
                    if g != e:
                        unknown = j >= len(us) or us[j] is None
                        if g == "1" and unknown:
                            return "input %d is reported valid although its spent output is unknown (after step %d: %s)" % (j, n, cmd)
                        if g == "1":
                            return "input %d still validates after a change its hash type commits to (step %d: %s)" % (j, n, cmd)
                        if g == "0" and e == "E":
                            return "validating input %d returned False although its signed message cannot even be formed (step %d: %s)" % (j, n, cmd)
                        if g == "0":
                            return "input %d fails validation after a change outside what its hash type commits to (step %d: %s)" % (j, n, cmd)
                        return "validating input %d raised instead of returning a verdict (step %d: %s)" % (j, n, cmd)
                return "bad_solution_count disagrees with the per-input verdicts (step %d: got %s, expected %s)" % (n, got[n], want)
    if k == "c06_from_db":
        coin, f, ign, spec = a[1], parse_fields(a[2]), a[3] == "1", parse_db_spec(a[4])
        first = {}
        for key, h, outs in spec:
            first.setdefault(key, (h, outs))
        missing = []
        for i, (ph, pi, _s, _q, _w) in enumerate(f[2]):
            e = first.get(ph)
            if not (e is not None and e[0] == ph and 0 <= pi < len(e[1])):
                missing.append(i)
        tx = build(coin, f, [])
        try:
            tx.unspents_from_db(parse_db(coin, a[4]), ignore_missing=ign)
        except Exception:  # noqa: BLE001
            pass
        return never_valid(tx, missing)
    if k == "c06_set_unspents":
        coin, f, us = a[1], parse_fields(a[2]), parse_us(a[3])
        tx = build(coin, f, [])
        T = TX(coin)
        try:
            tx.set_unspents([None if u is None else T.TxOut(u[0], u[1]) for u in us])
            missing = [i for i in range(len(f[2])) if i >= len(us) or us[i] is None]
        except Exception:  # noqa: BLE001
            missing = list(range(len(f[2])))
        return never_valid(tx, missing)
    if k == "c06_parse_unspents":
        coin, f, us = a[1], parse_fields(a[2]), parse_us(a[3])
        tx = build(coin, f, us)
        try:
            tx2 = TX(coin).from_bin(tx.as_bin(include_unspents=True))
        except Exception as e:  # noqa: BLE001
            return None
        whole = len(us) == len(f[2]) and all(u is not None for u in us)
        missing = [i for i in range(len(f[2])) if not whole or us[i] is None]
        return never_valid(tx2, missing)
    if k == "c06_guards" and out.startswith("ok"):
        coin, f, us = a[1], parse_fields(a[2]), parse_us(a[3])
        mu, mus, guard = out[3:].split(" ")
        n = len(f[2])
        cb = n == 1 and f[2][0][0] == txlib.ZERO32 and f[2][0][1] == txlib.NULL_INDEX
        for i in range(n + 2):
            unknown = i >= len(us) or us[i] is None
            if unknown and guard[i] != "1":
                return "is_solution_ok(%d) runs the checker although the spent output is unknown" % i
            if not cb and (mu[i] == "1") != unknown:
                return "missing_unspent(%d) is wrong" % i
        if not cb and (mus == "1") != (len(us) != n or any(u is None for u in us)):
            return "missing_unspents() is wrong"
    if k == "c06_cache" and out.startswith("ok"):
        salt = int(a[1])
        hts = [] if a[2] == "~" else [int(x) for x in a[2].split(",")]
        vals = out[3:].split(" ")[0]
        if vals != show_list([h * 7 + salt for h in reversed(hts)]):
            return "the sighash cache of checksigs returned a message computed for another hash type"
    return None


def trivial(op: str) -> bool:
    a = op.split(" ")
    return a[0] in ("c06_hist", "c06_each") and a[5] == "~"


def neighbours(op, rng):
    a = op.split(" ")
    if a[0] == "c06_hist" and a[5] != "~":
        steps = a[5].split(";")
        for n in range(1, len(steps)):
            yield " ".join(a[:5] + [";".join(steps[:n])])
    if a[0] == "c06_each" and a[5] != "~":
        # every step of the table on its own, as a one-step history (with the repeat / fresh-object observations)
        for cmd in a[5].split(";"):
            yield " ".join(["c06_hist"] + a[1:5] + [cmd])


def _known_coinbase(v):
    """the history edits the only input into the null outpoint: the transaction is then a 'coinbase' for pycoin"""
    op = str(v.get("input", ""))
    a = op.split(" ")
    if a[0] not in ("c06_hist", "c06_each") or a[5] == "~":
        return False
    try:
        coin, f0, us0 = a[1], parse_fields(a[2]), parse_us(a[3])
        tx = build(coin, f0, us0)
        mp = list(range(len(tx.txs_in)))
        for cmd in a[5].split(";"):
            if a[0] == "c06_each":
                tx = build(coin, f0, us0)
                mp = list(range(len(tx.txs_in)))
            apply_step(coin, tx, mp, cmd)
            if tx.is_coinbase():
                return True
    except Exception:  # noqa: BLE001
        return False
    return False


KNOWN = {"coinbase-marker-input-valid": _known_coinbase}


# ---------------------------------------------------------------- generators

def meta_of(coin, tx):
    """per input: closure kind, script code, hash types — harvested from one observed run of check_solution"""
    res = []
    for i in range(len(tx.txs_in)):
        trace, _vmap, _vals, outcome = S.observe_checksol(tx, i)
        if outcome != "ok" or not trace:
            return None
        kinds = {t[0] for t in trace}
        codes = {S.script_code_for(t[2], t[3]) if (t[0] == "legacy" and coin != "bch") else t[2] for t in trace}
        if len(kinds) != 1 or len(codes) != 1:
            return None
        hts = sorted({t[1] for t in trace})
        res.append("%s:%s:%s" % ("w" if kinds == {"witness"} else "l", hx(codes.pop()), "/".join(str(h) for h in hts)))
    return "|".join(res)


def rand_step(rng, coin, tx, orig):
    """one mutation command for the current state (`orig` = fields of the signed state, to build reverting steps)"""
    n_in, n_out = len(tx.txs_in), len(tx.txs_out)
    fam = rng.choice(["ver", "lock", "seq", "seq", "pidx", "phash", "sol", "wit", "oval", "oval", "oscr", "delin", "insin", "swapin", "swapsol",
                      "delout", "insout", "swapout", "us_none", "us_val", "us_scr", "usdrop", "revert", "nop", "uskey", "uskey", "usnop", "uspre", "range"])
    i = rng.randrange(n_in) if n_in else 0
    j = rng.randrange(n_out) if n_out else 0
    if fam == "ver":
        return "ver:%d" % (tx.version ^ (1 << rng.randrange(32)))
    if fam == "lock":
        return "lock:%d" % (tx.lock_time ^ (1 << rng.randrange(32)))
    if fam == "seq" and n_in:
        return "seq:%d:%d" % (i, tx.txs_in[i].sequence ^ (1 << rng.randrange(32)))
    if fam == "pidx" and n_in:
        v = tx.txs_in[i].previous_index ^ (1 << rng.randrange(31))
        return "pidx:%d:%d" % (i, v)
    if fam == "phash" and n_in:
        h = bytearray(tx.txs_in[i].previous_hash)
        h[rng.randrange(32)] ^= 1 << rng.randrange(8)
        if bytes(h) == txlib.ZERO32:
            return "nop"
        return "phash:%d:%s" % (i, hx(bytes(h)))
    if fam == "sol" and n_in:
        s = bytearray(tx.txs_in[i].script)
        if s and rng.random() < 0.5:
            s[rng.randrange(len(s))] ^= 1 << rng.randrange(8)
        else:
            s = s + b"\x00" if rng.random() < 0.5 else bytearray(b"\x00") + s
        return "sol:%d:%s" % (i, hx(bytes(s)))
    if fam == "wit" and n_in:
        w = [bytes(x) for x in tx.txs_in[i].witness]
        if w and rng.random() < 0.6:
            p = rng.randrange(len(w))
            b = bytearray(w[p])
            if b:
                b[rng.randrange(len(b))] ^= 1 << rng.randrange(8)
            else:
                b = bytearray(b"\x01")
            w[p] = bytes(b)
        else:
            w = w + [b"\x01"]
        return "wit:%d:%s" % (i, "/".join(hx(x) for x in w) if w else "~")
    if fam == "oval" and n_out:
        v = tx.txs_out[j].coin_value
        return "oval:%d:%d" % (j, max(0, v + rng.choice([-1, 1, 1000])) if rng.random() < 0.7 else v ^ (1 << rng.randrange(63)))
    if fam == "oscr" and n_out:
        s = bytearray(tx.txs_out[j].script)
        if s and rng.random() < 0.6:
            s[rng.randrange(len(s))] ^= 1 << rng.randrange(8)
        else:
            s += b"\x51"
        return "oscr:%d:%s" % (j, hx(bytes(s)))
    if fam == "delin" and n_in > 1:
        return "delin:%d" % i
    if fam == "insin":
        p = rng.randrange(n_in + 1)
        return "insin:%d:%s,%d,%s,%d,~" % (p, hx(bytes([0x77 + rng.randrange(8)]) * 32), rng.randrange(4), rng.choice(["-", "51"]), rng.choice([0, 0xFFFFFFFF]))
    if fam == "swapin" and n_in > 1:
        return "swapin:%d:%d" % (i, (i + 1 + rng.randrange(n_in - 1)) % n_in)
    if fam == "swapsol" and n_in > 1:
        return "swapsol:%d:%d" % (i, (i + 1 + rng.randrange(n_in - 1)) % n_in)
    if fam == "delout" and n_out:
        return "delout:%d" % j
    if fam == "insout":
        return "insout:%d:%d,%s" % (rng.randrange(n_out + 1), rng.randrange(1, 10 ** 6), rng.choice(["51", "-", "6a"]))
    if fam == "swapout" and n_out > 1:
        return "swapout:%d:%d" % (j, (j + 1 + rng.randrange(n_out - 1)) % n_out)
    if fam == "us_none" and i < len(tx.unspents):
        return "us:%d:none" % i
    if fam in ("us_val", "us_scr") and i < len(tx.unspents) and tx.unspents[i] is not None:
        u = tx.unspents[i]
        if fam == "us_val":
            return "us:%d:%d,%s" % (i, u.coin_value + rng.choice([1, -1, 12345]), hx(u.script))
        s = bytearray(u.script)
        s[rng.randrange(len(s))] ^= 1 << rng.randrange(8)
        return "us:%d:%d,%s" % (i, u.coin_value, hx(bytes(s)))
    if fam == "usdrop" and len(tx.unspents) > 0:
        return "usdrop"
    if fam in ("uskey", "usnop", "uspre") and i < len(tx.unspents) and tx.unspents[i] is not None:
        if fam == "uskey":
            return "uskey:%d:%d" % (i, rng.randrange(520)) if data_positions(bytes(tx.unspents[i].script)) else "nop"
        return "%s:%d" % (fam, i)
    if fam == "range":
        return rng.choice(["ver:4294967296", "ver:-1", "lock:4294967296", "seq:%d:-1" % i, "pidx:%d:4294967296" % i, "oval:%d:-1" % j,
                           "oval:%d:18446744073709551616" % j]) if (n_in and n_out) else "nop"
    if fam == "revert":
        # put one field back to its signed value
        v, lock, ins, outs = orig
        c = rng.randrange(4)
        if c == 0:
            return "ver:%d" % v
        if c == 1:
            return "lock:%d" % lock
        if c == 2 and n_out and j < len(outs):
            return "oval:%d:%d" % (j, outs[j][0])
        if n_in and i < len(ins):
            return "seq:%d:%d" % (i, ins[i][3])
    return "nop"


def table_steps(tx):
    """one single-field mutation per family and position: the deterministic table of the property's first sentence"""
    n_in, n_out = len(tx.txs_in), len(tx.txs_out)
    st = ["ver:%d" % (tx.version ^ 2), "lock:%d" % (tx.lock_time ^ 0x10000)]
    for i, t in enumerate(tx.txs_in):
        h = bytearray(t.previous_hash)
        h[(5 * i + 1) % 32] ^= 0x40
        st += ["phash:%d:%s" % (i, hx(bytes(h))), "pidx:%d:%d" % (i, t.previous_index ^ 4), "seq:%d:%d" % (i, t.sequence ^ 0x100)]
    for j, o in enumerate(tx.txs_out):
        sc = bytearray(o.script)
        sc[-1] ^= 1
        st += ["oval:%d:%d" % (j, o.coin_value + 1), "oscr:%d:%s" % (j, hx(bytes(sc)))]
    new_in = "%s,1,-,4294967295,~" % ("ee" * 32)
    st += ["insin:%d:%s" % (p, new_in) for p in sorted({0, n_in // 2, n_in})]
    st += ["delin:%d" % i for i in range(n_in)]
    st += ["swapin:%d:%d" % p for p in sorted({(0, 1), (1, n_in - 1), (n_in - 2, n_in - 1)}) if p[0] != p[1]]
    st += ["insout:%d:777,51" % p for p in sorted({0, n_out})]
    st += ["delout:%d" % j for j in range(n_out)]
    st += ["swapout:%d:%d" % p for p in sorted({(0, 1), (n_out - 2, n_out - 1)}) if p[0] != p[1] and p[0] >= 0]
    st += ["swapsol:%d:%d" % p for p in sorted({(0, 1), (n_in - 2, n_in - 1)}) if p[0] != p[1]]
    for i, u in enumerate(tx.unspents):
        st += ["us:%d:%d,%s" % (i, u.coin_value + 1, hx(u.script)), "uskey:%d:%d" % (i, 8 * i + 3), "usnop:%d" % i, "uspre:%d" % i,
               "us:%d:none" % i]
    st.append("usdrop")
    # values that do not fit their wire format: no signed message exists, the validation raises (never True)
    st += ["ver:4294967296", "lock:-1", "seq:%d:4294967296" % (n_in - 1), "pidx:0:-1", "oval:0:-1", "oval:%d:18446744073709551616" % (n_out - 1),
           "us:1:-1,%s" % hx(tx.unspents[1].script)]
    return st


TABLE_GROUPS = [["p2pkh", "p2pkh_u", "p2pk", "ms"], ["p2sh_ms", "p2wpkh", "p2wsh_ms", "p2sh_p2wpkh"]]

KIND_SETS = [["p2pkh"], ["p2pkh", "p2pk"], ["p2pkh", "p2sh_ms", "p2pkh_u"], ["ms", "p2pkh"], ["p2wpkh"], ["p2wpkh", "p2pkh"],
             ["p2wsh_ms", "p2sh_p2wpkh", "p2pkh"], ["p2pkh", "p2wpkh", "p2sh_ms", "p2wsh_ms"]]


def gen(ctx, emit):
    rng = ctx.rng
    # ---- guards: every unspents pattern
    for coin in COINS:
        base = (1, 0, [(bytes([9]) * 32, 0, b"", 0, []), (bytes([8]) * 32, 1, b"\x51", 5, []), (bytes([7]) * 32, 2, b"", 0, [b"\x01"])], [(5, b"\x51")])
        u = (1000, b"\x51")
        for us in ([], [u], [u, u], [u, u, u], [u, u, u, u], [None, u, u], [u, None, u], [u, u, None], [None, None, None], [None], [u, None], [(0, b""), u, u]):
            emit("c06_guards %s %s %s" % (coin, show_fields(base), show_us(us)))
        cb = (1, 0, [(txlib.ZERO32, txlib.NULL_INDEX, b"\x51\x51", 0, [])], [(5, b"\x51")])
        for us in ([], [u], [None]):
            emit("c06_guards %s %s %s" % (coin, show_fields(cb), show_us(us)))
    # ---- how unspents get populated: databases that lack the tx, hold it with too few outputs, or under the wrong hash;
    # set_unspents with None / short lists; the include_unspents extension; scriptSig empty, OP_1, or a genuine sig+pubkey
    for coin in COINS:
        tx = S.sign_tx(coin, ["p2pkh", "p2pk", "p2pkh_u"], 1, n_out=2)
        f0 = txlib.fields_of(tx)
        us0 = S.us_of(tx)
        anyone = (777, b"\x51")
        for sol_mode in ("genuine", "empty", "op1"):
            ins = [(h, i, {"genuine": sc, "empty": b"", "op1": b"\x51"}[sol_mode], q, w) for h, i, sc, q, w in f0[2]]
            f = (f0[0], f0[1], ins, f0[3])
            t = show_fields(f)

            def entry(j, n_outs, wrong_hash=False, at=None):
                """source tx of input j with n_outs outputs; the real spent output sits at its index when that exists"""
                h, i = ins[j][0], ins[j][1]
                outs = [anyone] * n_outs
                if i < n_outs:
                    outs[i] = us0[j]
                return (h, bytes(32) if wrong_hash else h, outs)
            full = [entry(j, ins[j][1] + 2) for j in range(3)]
            variants = [full, full[:2], full[1:], [], [full[0], entry(1, ins[1][1]), full[2]],            # index == len
                        [full[0], full[1], entry(2, 1)], [entry(0, 0), full[1], full[2]],                    # index > len, no outputs
                        [full[0], entry(1, 5, wrong_hash=True), full[2]], [entry(0, 3, wrong_hash=True)] + full[1:]]
            for db in variants:
                for ign in "01":
                    emit("c06_from_db %s %s %s %s" % (coin, t, ign, show_db(db)))
            # indices far beyond any source transaction
            for big in (0xFFFFFFFE, 0xFFFFFFFF, 2, 3):
                ins2 = [(ins[0][0], big, ins[0][2], ins[0][3], ins[0][4])] + ins[1:]
                for ign in "01":
                    emit("c06_from_db %s %s %s %s" % (coin, show_fields((f[0], f[1], ins2, f[3])), ign, show_db(full)))
            for us in (us0, us0[:2], us0[:1], [], us0 + [anyone], [None] + us0[1:], [us0[0], None, us0[2]], [None, None, None], [anyone] * 3,
                       [(0, b"")] + us0[1:], [(0, b"\x51")] * 3):
                emit("c06_set_unspents %s %s %s" % (coin, t, show_us(us)))
                emit("c06_parse_unspents %s %s %s" % (coin, t, show_us(us)))
        for _ in range(ctx.n(20, 600)):
            ins = []
            db = []
            for j in range(rng.randint(1, 4)):
                h = bytes([0x30 + j]) * 32
                n_outs = rng.randint(0, 3)
                idx = rng.choice([0, 1, n_outs, max(0, n_outs - 1), n_outs + 1, 0xFFFFFFFE])
                ins.append((h, idx, rng.choice([b"", b"\x51", f0[2][0][2]]), 0xFFFFFFFF, []))
                mode = rng.randrange(5)
                if mode != 0:
                    db.append((h, bytes([7]) * 32 if mode == 1 else h, [rng.choice([anyone, us0[0], (5, b"")]) for _o in range(n_outs)]))
            emit("c06_from_db %s %s %s %s" % (coin, show_fields((1, 0, ins, [(5, b"\x51")])), rng.choice("01"), show_db(db)))
    # ---- the sighash cache of one checksigs execution
    for hts in ([], [1], [1, 1], [1, 2], [2, 1, 2], [1, 2, 3, 1, 2, 3], [0x81, 1, 0x81], [3, 3, 3, 2], [0x41, 0x42, 0x41, 0xC1]):
        emit("c06_cache %d %s" % (1 + len(hts), show_list(hts)))
    for _ in range(ctx.n(30, 1000)):
        emit("c06_cache %d %s" % (rng.randrange(1, 1000), show_list([rng.choice([1, 2, 3, 0x81, 0x82, 0x83, 0x41]) for _k in range(rng.randint(1, 12))])))
    # ---- every standard puzzle kind of every coin: the input the library signs validates, and validating it checks a signature
    for coin in COINS:
        names = sorted(n for n, _s, _e in S.puzzles(coin))
        for ht in (1, 3, 0x82):
            emit("c06_sigchecked %s %s %d" % (coin, ",".join(names), ht), "signature-checked")
    HTS = [1, 2, 3, 0x81, 0x82, 0x83]
    # ---- the table: every coin class (quick: Bitcoin, one fork-id class, Groestlcoin) x every hash type x every puzzle kind (two
    # transactions of four inputs and three outputs: the last input has no output at its position) x one single-step mutation
    # per family and position, each applied to the signed state on its own; the verdict of EVERY input is dictated
    for coin in (COINS if ctx.thorough else [c for c in COINS if c in ("btc", "bch", "grs")]):
        avail = {n for n, _s, _e in S.puzzles(coin)}
        for ht in HTS:
            for grp in TABLE_GROUPS:
                ks = [k0 for k0 in grp if k0 in avail]
                if len(ks) < 2:
                    continue
                tx = S.sign_tx(coin, ks, ht, n_out=len(ks) - 1, version=1, lock_time=0, sequences=[0xFFFFFFFE] * len(ks))
                if tx.bad_solution_count() != 0:
                    ctx.note("pycoin's own signature does not validate: %s %s 0x%x (table row skipped)" % (coin, ks, ht))
                    continue
                meta = meta_of(coin, tx)
                if meta is None:
                    continue
                emit("c06_each %s %s %s %s %s" % (coin, txlib.dump_tx(tx), show_us(S.us_of(tx)), meta, ";".join(table_steps(tx))), "table")
    # ---- histories
    per = ctx.n(2, 20)
    for coin in COINS:
        avail = {n for n, _s, _e in S.puzzles(coin)}
        for ht in HTS:
            for ks in KIND_SETS:
                if not set(ks) <= avail:
                    continue
                if not ctx.thorough and rng.random() < 0.45:
                    continue
                n_out = rng.choice([1, 2, len(ks), len(ks) + 1])
                tx = S.sign_tx(coin, ks, ht, n_out=n_out, version=rng.choice([1, 2]), lock_time=rng.choice([0, 499999999]),
                               sequences=[rng.choice([0xFFFFFFFF, 0xFFFFFFFE, 0, 7]) for _k in ks])
                if tx.bad_solution_count() != 0:
                    ctx.note("pycoin's own signature does not validate: %s %s 0x%x (not a C06 history; skipped)" % (coin, ks, ht))
                    continue
                meta = meta_of(coin, tx)
                if meta is None:
                    continue
                head = "c06_hist %s %s %s %s" % (coin, txlib.dump_tx(tx), show_us(S.us_of(tx)), meta)
                orig = txlib.fields_of(tx)
                emit(head + " ~")
                # one single-field mutation of every family on its own, then random sequences
                for _h in range(per):
                    work = build(coin, orig, S.us_of(tx))
                    mp = list(range(len(work.txs_in)))
                    steps = []
                    for _s in range(rng.randint(1, 7)):
                        cmd = rand_step(rng, coin, work, orig)
                        apply_step(coin, work, mp, cmd)
                        steps.append(cmd)
                    emit(head + " " + ";".join(steps))
    # ---- signatures with DIFFERENT hash types inside one multisig input (cosigners signed in separate passes), next to inputs
    # whose sequence numbers are then changed: what one digest computation leaves behind in the checker must not leak into
    # the next digest of the same check (the ALL signature commits to the other inputs' sequences although a NONE/SINGLE
    # signature of the same input, verified just before, does not)
    for coin in COINS:
        avail = {n for n, _s, _e in S.puzzles(coin)}
        for ks in (["ms", "p2pkh"], ["p2pkh", "ms", "p2pk"], ["p2pkh", "p2sh_ms"], ["p2wsh_ms", "p2pkh"]):
            if not set(ks) <= avail:
                continue
            for hts in ((2, 1), (3, 1), (0x82, 1), (1, 2), (2, 0x81)) if (ctx.thorough or coin == "btc") else (rng.choice([(2, 1), (3, 1), (1, 2)]),):
                for seqs in ([0] * len(ks), [0xFFFFFFFE] * len(ks)):
                    try:
                        tx = S.sign_tx_mixed(coin, ks, hts, n_out=len(ks), sequences=seqs)
                    except Exception as e:  # noqa: BLE001
                        ctx.note("mixed hash-type signing raised %s (%s %s)" % (type(e).__name__, coin, ks))
                        continue
                    if tx.bad_solution_count() != 0:
                        continue
                    meta = meta_of(coin, tx)
                    if meta is None:
                        continue
                    head = "c06_hist %s %s %s %s" % (coin, txlib.dump_tx(tx), show_us(S.us_of(tx)), meta)
                    emit(head + " ~", "mixed-hash-types")
                    for i in range(len(ks)):
                        emit(head + " seq:%d:%d" % (i, seqs[i] ^ 5), "mixed-hash-types")
                        emit(head + " seq:%d:%d;seq:%d:%d" % (i, seqs[i] ^ 5, i, seqs[i]), "mixed-hash-types")
                    emit(head + " oval:0:%d" % (tx.txs_out[0].coin_value + 1), "mixed-hash-types")
                    emit(head + " lock:%d" % 77, "mixed-hash-types")
    # ---- directed histories: another input's unspent missing while this one is tampered; revert restores validity
    for coin in COINS:
        for ht in (1, 0x81, 3):
            tx = S.sign_tx(coin, ["p2pkh", "p2pkh_u", "p2pk"], ht, n_out=3)
            meta = meta_of(coin, tx)
            if meta is None:
                continue
            head = "c06_hist %s %s %s %s" % (coin, txlib.dump_tx(tx), show_us(S.us_of(tx)), meta)
            v0 = tx.txs_out[0].coin_value
            for steps in (["us:1:none", "oval:0:%d" % (v0 + 1), "oval:0:%d" % v0, "us:1:1,51"],
                          ["usdrop", "seq:0:5", "lock:7"], ["usdrop", "usdrop", "usdrop", "oval:1:0"],
                          ["oval:0:%d" % (v0 + 1), "nop", "oval:0:%d" % v0, "nop"],
                          ["swapin:0:2", "swapin:0:2"], ["swapsol:0:1", "swapsol:0:1"], ["swapout:0:1", "swapout:0:1"],
                          ["delout:2", "insout:2:%d,%s" % (tx.txs_out[2].coin_value, hx(tx.txs_out[2].script))],
                          ["insin:3:%s,0,-,0,~" % ("ee" * 32), "delin:3"], ["delin:0"], ["pidx:1:9", "pidx:1:1"]):
                emit(head + " " + ";".join(steps))
