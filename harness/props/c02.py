"""C02 — elliptic-curve arithmetic is the group law on every curve and backend.

Ops are evaluated on the real pycoin objects (`Point + Point`, `-Point`, `int * Point`, `Generator * int`,
`Generator.raw_mul`, `points_for_x`, `generate_shared_public_key`) in two arithmetic configurations, each in its own
worker process (pycoin reads PYCOIN_NATIVE at import): `pure` (PYCOIN_NATIVE=none) and `openssl` (default; libcrypto).
The curve token carries the configuration (`secp256k1/pure`); the Lean model ignores it.
"""
from __future__ import annotations

from props import curve_common as cc
from props.curve_common import parse_pt, show_pt, consts, on_curve, reduced, split_curve

MANIFEST = {
    "text": "Lean theorems over an executable model of Curve.add/multiply/inverse_mod, Point.__neg__, Generator.raw_mul/__mul__/"
            "modular_sqrt/points_for_x: inverse_mod is correct and terminates; add refines Mathlib's Weierstrass group law over ZMod p "
            "(hence closure, commutativity, associativity, identity, inverse) for possibly unreduced on-curve inputs; the (e,3e) ladder "
            "computes e•P for every integer e; fixed-base table and blinded multiplication equal plain multiplication; p and n of "
            "secp256k1, secp256r1, BLS12-381 are prime (Pratt certificates checked in the kernel) and n•G = ∞ (kernel evaluation); "
            "#E(F_p) = n for secp256k1 and secp256r1 (proved without Hasse: #E <= 2p+1 < 3n, n | #E by Lagrange, #E = 2n excluded by "
            "Cauchy and a generated kernel-checked certificate that x^3+ax+b has no root mod p), hence order•P = ∞ and multiply(P, e) = "
            "e•P for every curve point, every point other than infinity has order n, no point has y = 0; "
            "points_for_x returns exactly the two points with that abscissa, even y first. "
            "NATIVE BACKENDS: the glue of native/openssl.py + native/bignum.py (Optimizations.multiply/raw_mul/inverse_mod, BignumType) "
            "and of native/secp256k1.py (__mul__, multiply) is modelled statement by statement (Model/NativeCurve.lean) with the C "
            "library an explicit parameter (LibCrypto / LibSecp256k1: the functions the glue calls, return codes included); what the "
            "library is assumed to do is the hypothesis LibCryptoOk / LibSecpOk (Proofs/NativeContract.lean, NativeSecp.lean), never an "
            "axiom, satisfiable by executable instances built from the pure model (C02_openssl_contract_satisfiable_*). Under it: "
            "OpenSSL multiply(P, e) returns the coordinates of the pure multiply (reduced mod p) for every curve point - infinity, "
            "unreduced/negative coordinates, a zero coordinate - and every integer e (C02_openssl_multiply_secp256k1/_secp256r1, no "
            "torsion hypothesis); raw_mul and the blinded __mul__ agree for every scalar and blinding factor; inverse_mod agrees on "
            "every operand for moduli > 1 (inverse, or AssertionError); Point + Point, generate_shared_public_key and the constructor "
            "agree. Models tied to the code by differential correspondence in both arithmetic configurations on every run - the pure "
            "model against the pure and OpenSSL classes, the GLUE model (over the pure-model libcrypto) against the real OpenSSL "
            "class on boundary inputs (ops ec_ossl_*) - the contract probed on the real libcrypto (ossl_probe), plus exhaustive "
            "toy-curve tables in the thorough tier (tests).",
    "note": "TRUSTED, as explicit hypotheses of the C02_openssl_* / C02_libsecp_* theorems: LibCryptoOk (EC_POINT_mul computes e•P for a "
            "finite reduced curve point and 0 < e < n; EC_POINT_get_affine_coordinates fails on infinity and leaves its outputs alone; "
            "BN_mod_inverse returns the inverse or NULL; BN_mpi2bn decodes MPI; c_ulong is BN_ULONG) - its observable clauses are "
            "checked against the real library on every run (group parameters of the NID = the Python constants, e = n and e = 0 give "
            "rc 0 and untouched outputs, NULL for operands without inverse, MPI round trip); OpenSSL's internals are not verified. "
            "libsecp256k1 is ABSENT from this sandbox: native/secp256k1.py is never executed, so its glue model and LibSecpOk are tied "
            "to the source and to the library documentation BY READING ONLY (no correspondence possible); evidence.coverage.libsecp256k1 "
            "says on every run whether the library is loadable in the environment of the run. Read-only findings in that glue: "
            "multiply does not reduce coordinates (OverflowError / returns the Python value False for unreduced operands); "
            "secp256k1_ecdsa_signature_normalize is called without argtypes. Fixed defect: OpenSSL inverse_mod ignored BN_mod_inverse's "
            "NULL and handed the operand back (pure: AssertionError). "
            "On a generic curve order•P = ∞ is stated for points "
            "with n•P = ∞ (C02_order_mul_partial); for secp256k1/secp256r1 it is proved for every curve point (C02_order_mul_secp256k1/_secp256r1); "
            "for BLS12-381 G1, which has a cofactor, it is refuted (known finding bls12-381-cofactor: r*(0,2) is reported as infinity).",
    "technique": "Lean 4 proof (Mathlib group law, ring/field identities, kernel-checked Pratt certificates; native glue over an explicit "
                 "library contract) + differential correspondence model vs implementation per backend, glue model vs OpenSSL class, "
                 "contract probes on the real library + exhaustive toy-curve enumeration (test)",
}
RULE = ("ops (optionally after calls the generator object refuses: failed_then) ec_add/ec_sub/ec_neg/ec_assoc/ec_mul/ec_mulr (P*k)/ec_rgenmul (k*G)/ec_rawmul/ec_blindmul/ec_genmul/ec_invmod(c)/ec_points_for_x/ec_on_curve/ec_sqrt/"
        "ec_shared on secp256k1, secp256r1 (both configurations), BLS12-381 (pure only), and toy curves built through pycoin's Generator; "
        "ec_ossl_mul/rawmul/inv/add/blindmul/shared: the glue model of native/openssl.py against the OpenSSL class (e in {0, ±1, n-1, n, n+1, "
        "2n, 2^256-1, -n}, P in {infinity, G, x = 0 on secp256r1, unreduced, off-curve}); ossl_probe: the library contract on the real libcrypto; "
        "ec_toy_* ops carry a whole addition / multiplication table of one toy curve; distinct = distinct op line; trivial = an operand is "
        "infinity or the scalar is 0/1")
ASSUMPTIONS = [
    "libsecp256k1 is not installed: the libsecp256k1 backend is never run; its glue model (Secp.mul, Secp.multiply) and the contract LibSecpOk "
    "are tied to native/secp256k1.py and the library documentation by reading only; pure Python and OpenSSL-accelerated configurations are run",
    "libcrypto does what LibCryptoOk says (hypothesis of every C02_openssl_* theorem): EC_POINT_mul = e•P for finite reduced P and 0 < e < n, "
    "get_affine fails on infinity leaving outputs untouched, BN_mod_inverse = inverse or NULL, BN_mpi2bn decodes MPI; probed on the real "
    "library on every run where observable from Python, not verified",
    "the EC_GROUP of NID_secp256k1 / NID_X9_62_prime256v1 is the curve the Python class is constructed with (probed: ossl_probe group)",
    "integers handed to BignumType have fewer than 2^34 bits (BN_mpi2bn takes an int length; the model has the limit, the theorems the hypothesis Fits/CurveFits)",
    "the certificates that x^3+ax+b has no root mod p (translate/gen_curves.py, plain Python) are checked in the Lean kernel, not trusted",
    "Python int arithmetic, pow(a, e, m), ctypes argument conversion and struct.pack are modelled, not verified",
    "toy-curve enumeration (all points/pairs/triples, k in [-2n, 2n]) is a test, not a theorem",
]
TRUSTED = ["translate/gen_curves.py reads (p,a,b,Gx,Gy,n) from the live generator objects; Pratt certificates come from sympy and are "
           "checked in the Lean kernel, so sympy is not trusted; likewise the no-root certificates noroot_* (inverse of X^p - X modulo the cubic)",
           "lean/Pycoin/Proofs/NativeContract.lean: LibCryptoSpec / LibCryptoOk - the statement about libcrypto every OpenSSL theorem assumes",
           "lean/Pycoin/Proofs/NativeSecp.lean: LibSecpSpec / LibSecpOk - the statement about libsecp256k1 (never compared with a real library)",
           "harness/props/curve_common.py:_ossl_probe - the raw ctypes calls that ask the real libcrypto what the contract says"]


def _bls_cofactor(v) -> bool:
    """BLS12-381 G1: multiply reduces the scalar modulo r, which is wrong for curve points outside the order-r subgroup"""
    a = str(v.get("input", "")).split(" ")
    if len(a) != 4 or a[0] != "ec_mul" or split_curve(a[1])[0] != "bls12_381" or "cofactor" not in str(v.get("what", "")):
        return False
    n = consts(a[1])[5]
    return cc.impl("ec_mul_orderless %s %s %d" % (a[1], a[2], n)) != "ok inf"


KNOWN = {"bls12-381-cofactor": _bls_cofactor}

BIG = ("secp256k1", "secp256r1")


def impl(op: str) -> str:
    return cc.impl(op)


def trivial(op: str) -> bool:
    a = op.split(" ")
    if a[0] == "failed_then":
        a = a[1:]
    if a[0] in ("ec_add", "ec_sub", "ec_assoc"):
        return "inf" in a[2:]
    if a[0] in ("ec_mul", "ec_mulr"):
        return a[2] == "inf" or a[3] in ("0", "1")
    if a[0] in ("ec_rawmul", "ec_genmul", "ec_rgenmul", "ec_ossl_rawmul"):
        return a[2] in ("0", "1")
    if a[0] == "ec_ossl_mul":
        return a[2] == "inf" or a[3] in ("0", "1")
    return False


# ------------------------------------------------------------------ oracle: the property on the implementation alone

def _ok_pt(out: str):
    if not out.startswith("ok "):
        return None
    return parse_pt(out[3:])


def _other(tok: str):
    name, cfg = split_curve(tok)
    if name in BIG:
        return name + "/" + ("openssl" if cfg == "pure" else "pure")
    return None


def _cross(op: str, out: str):
    """pure and OpenSSL return identical coordinates for identical inputs"""
    a = op.split(" ")
    o = _other(a[1])
    if o is None:
        return None
    out2 = cc.impl(" ".join([a[0], o] + a[2:]))

    def canon_out(t):
        # coordinates compared as field elements: with unreduced operands `1 * P` and `P + infinity` hand the operand back as given
        if not t.startswith("ok "):
            return t
        try:
            return "ok " + " ".join(_canon_s(a[1], w) for w in t[3:].split(" "))
        except ValueError:
            return t
    if canon_out(out2) != canon_out(out):
        return "configurations disagree: %s gives %s, %s gives %s" % (a[1], out[:200], o, out2[:200])
    return None


def _canon(tok, P):
    """the group element a coordinate pair denotes"""
    if P == (None, None):
        return P
    p = consts(tok)[0]
    return (P[0] % p, P[1] % p)


def _canon_s(tok, s: str) -> str:
    return show_pt(_canon(tok, parse_pt(s)))


def _in_quantifier(tok, *pts) -> bool:
    return all(on_curve(tok, P) for P in pts)


def oracle(op: str, out: str):
    """the property evaluated on the implementation alone; an auxiliary implementation call that raises where the property
    says it cannot (sum of two curve points, multiple of a curve point) makes the answer unparsable and is reported"""
    if op.startswith("failed_then "):
        op = op.split(" ", 1)[1]
    try:
        return _oracle(op, out)
    except (ValueError, IndexError, TypeError) as e:
        return "an auxiliary group operation on curve points raised or returned a malformed value (%s: %s)" % (type(e).__name__, str(e)[:80])


def _oracle(op: str, out: str):
    a = op.split(" ")
    k = a[0]
    if k in ("ec_add", "ec_sub"):
        tok = a[1]
        P, Q = parse_pt(a[2]), parse_pt(a[3])
        if not _in_quantifier(tok, P, Q):
            return None
        if k == "ec_sub" and Q == (None, None):
            return None  # -infinity raises TypeError in pycoin; subtraction of infinity is not an operation the property names
        R = _ok_pt(out)
        if R is None:
            return "%s of two curve points raised: %s" % (k, out)
        if not on_curve(tok, R):
            return "sum is not a point of the curve"
        p = consts(tok)[0]
        if P != (None, None) and Q != (None, None) and not reduced(tok, R):
            return "coordinates of a computed sum are not reduced"
        if k == "ec_add":
            if P == (None, None) and _canon(tok, R) != _canon(tok, Q) or Q == (None, None) and _canon(tok, R) != _canon(tok, P):
                return "infinity is not the identity"
            if P != (None, None) and Q != (None, None) and (P[0] - Q[0]) % p == 0 and (P[1] + Q[1]) % p == 0 and R != (None, None):
                return "P + (-P) is not infinity"
            out2 = cc.impl("ec_add %s %s %s" % (tok, a[3], a[2]))
            if not out2.startswith("ok ") or _canon_s(tok, out2[3:]) != _canon_s(tok, out[3:]):
                return "addition is not commutative: Q + P = %s" % out2
        return _cross(op, out)
    if k == "ec_assoc":
        tok = a[1]
        if not _in_quantifier(tok, *(parse_pt(s) for s in a[2:5])):
            return None
        if not out.startswith("ok "):
            return "addition raised: " + out
        l, r = out[3:].split(" ")
        if _canon_s(tok, l) != _canon_s(tok, r):
            return "addition is not associative: (P+Q)+R = %s, P+(Q+R) = %s" % (l, r)
        return _cross(op, out)
    if k == "ec_neg":
        tok = a[1]
        P = parse_pt(a[2])
        if P == (None, None) or not on_curve(tok, P):
            return None
        R = _ok_pt(out)
        if R is None:
            return "negation raised: " + out
        s = cc.impl("ec_add %s %s %s" % (tok, a[2], show_pt(R)))
        if s != "ok inf":
            return "P + (-P) = %s" % s
        return None
    if k == "ec_mul":
        tok = a[1]
        P = parse_pt(a[2])
        e = int(a[3])
        n = consts(tok)[5]
        if not on_curve(tok, P):
            return None
        if split_curve(tok)[0] == "bls12_381" and not _bls_in_subgroup(P):
            # the curve has a cofactor: `e %= order` is only right on the order-r subgroup.  Compared with the ladder of
            # the order-less curve object (k*P as repeated doubling/adding, no reduction of k)
            if e >= 0 and P != (None, None):
                ref = cc.impl("ec_mul_orderless %s %s %d" % (tok, a[2], e))
                if ref.startswith("ok ") and out.startswith("ok ") and _canon_s(tok, ref[3:]) != _canon_s(tok, out[3:]):
                    return "k*P differs from P added to itself k times on a point outside the order-r subgroup (cofactor): %s" % ref[:80]
            return None
        R = _ok_pt(out)
        if R is None:
            return "scalar multiplication raised: " + out
        if not on_curve(tok, R) or (reduced(tok, P) and not reduced(tok, R)):
            return "k*P is not a reduced point of the curve"
        if P == (None, None):
            return None if R == (None, None) else "k * infinity is not infinity"
        if -40 <= e <= 40:
            # repeated addition on the implementation
            acc = "inf"
            base = a[2] if e >= 0 else show_pt(_ok_pt(cc.impl("ec_neg %s %s" % (tok, a[2]))))
            for _ in range(abs(e)):
                acc = cc.impl("ec_add %s %s %s" % (tok, acc, base))[3:]
            if _canon_s(tok, acc) != _canon_s(tok, show_pt(R)):
                return "k*P differs from P added to itself k times (%s)" % acc
        else:
            # (k mod n)*P, and k*P + P = (k+1)*P
            r2 = cc.impl("ec_mul %s %s %d" % (tok, a[2], e % n))
            if not r2.startswith("ok ") or _canon_s(tok, r2[3:]) != _canon_s(tok, out[3:]):
                return "k*P differs from (k mod n)*P = %s" % r2
            nxt = cc.impl("ec_mul %s %s %d" % (tok, a[2], e + 1))
            s = cc.impl("ec_add %s %s %s" % (tok, show_pt(R), a[2]))
            if not (nxt.startswith("ok ") and s.startswith("ok ")) or _canon_s(tok, nxt[3:]) != _canon_s(tok, s[3:]):
                return "k*P + P differs from (k+1)*P"
        if e % n == 0 and R != (None, None):
            return "order*P is not infinity"
        return _cross(op, out)
    if k == "ec_mulr":
        # `P * k` (Point.__mul__) against `k * P` (Point.__rmul__), which carries the multiplication oracle
        ref = cc.impl("ec_mul " + " ".join(a[1:]))
        if out != ref:
            return "P * k differs from k * P: %s vs %s" % (out[:120], ref[:120])
        return None
    if k == "ec_rgenmul":
        ref = cc.impl("ec_genmul " + " ".join(a[1:]))
        if out != ref:
            return "k * G (Generator.__rmul__) differs from G * k: %s vs %s" % (out[:120], ref[:120])
        return None
    if k in ("ec_rawmul", "ec_genmul", "ec_blindmul"):
        tok = a[1]
        gx, gy = consts(tok)[3:5]
        ref = cc.impl("ec_mul %s %d,%d %s" % (tok, gx, gy, a[2]))
        if out != ref:
            return "%s differs from plain multiplication of the generator: %s" % (k, ref)
        return _cross(op, out)
    if k in ("ec_invmod", "ec_invmodc"):
        x, m = int(a[-2]), int(a[-1])
        from math import gcd
        if m > 1 and gcd(x, m) == 1:
            if not out.startswith("ok "):
                return "inverse_mod raised on coprime input"
            v = int(out[3:])
            if not (0 < v < m) or x * v % m != 1:
                return "inverse_mod result is not the inverse in [1, m-1]"
        return None
    if k == "ec_points_for_x":
        tok = a[1]
        p, ca, cb = consts(tok)[:3]
        x = int(a[2])
        if not 0 <= x < p:
            return None
        alpha = (x * x * x + ca * x + cb) % p
        if alpha == 0:
            return None  # 2-torsion abscissa: outside the quantifier (odd order), documentation only
        is_sq = pow(alpha, (p - 1) // 2, p) == 1
        if out.startswith("ok "):
            P0, P1 = (parse_pt(s) for s in out[3:].split(" "))
            if not is_sq:
                return "points returned although x^3+ax+b is not a square"
            if P0[0] != x or P1[0] != x or not on_curve(tok, P0) or not on_curve(tok, P1) or not reduced(tok, P0) or not reduced(tok, P1):
                return "returned points are not reduced curve points with the given x"
            if P0[1] % 2 != 0 or P0[1] + P1[1] != p:
                return "even y is not first / the two points are not the two roots"
            if p < 2000:
                ys = sorted(y for y in range(p) if (y * y - alpha) % p == 0)
                if sorted([P0[1], P1[1]]) != ys:
                    return "not exactly the curve points with this abscissa"
        else:
            if is_sq:
                return "no point reported although x^3+ax+b is a non-zero square"
            if out not in ("err ValueError", "err NoSuchPointError"):
                return "absence of a point is reported by %s, not by ValueError" % out
        return _cross(op, out)
    if k == "ec_shared":
        tok = a[1]
        Q = parse_pt(a[3])
        if not on_curve(tok, Q):
            return None
        ref = cc.impl("ec_mul %s %s %s" % (tok, a[3], a[2]))
        if ref != out:
            return "shared key differs from d*Q"
        return _cross(op, out)
    if k in _OSSL_TWIN:
        return _ossl_oracle(a, out)
    if k == "ec_toy_addtable":
        return _check_addtable(a[1], out)
    if k == "ec_toy_multable":
        return _check_multable(a[1], out)
    if k == "ec_toy_gentable":
        if not out.startswith("ok "):
            return "generator multiplication raised: " + out
        for i, cell in enumerate(out[3:].split(";")):
            b, r = cell.split("/")
            if b != r:
                return "blinded multiplication differs from raw_mul at k index %d" % i
        return None
    return None


# ops whose model is the GLUE model (Ossl.* over the pure-model libcrypto): the property on the implementation alone is
# "the OpenSSL class returns what the pure class returns for the same input"
_OSSL_TWIN = {"ec_ossl_mul": "ec_mul", "ec_ossl_rawmul": "ec_rawmul", "ec_ossl_inv": "ec_invmodc", "ec_ossl_add": "ec_add",
              "ec_ossl_blindmul": "ec_blindmul", "ec_ossl_shared": "ec_shared"}


def _ossl_oracle(a, out):
    k, tok = a[0], a[1]
    name = split_curve(tok)[0]
    if k == "ec_ossl_mul" and not on_curve(tok, parse_pt(a[2])):
        return None  # a raw off-curve tuple handed to the glue: outside the quantifier (error class compared with the model only)
    if k in ("ec_ossl_add",) and not _in_quantifier(tok, parse_pt(a[2]), parse_pt(a[3])):
        return None
    if k == "ec_ossl_shared" and not on_curve(tok, parse_pt(a[3])):
        return None
    if k == "ec_ossl_inv" and int(a[3]) <= 1:
        return None
    ref = cc.impl(" ".join([_OSSL_TWIN[k], name + "/pure"] + a[2:]))

    def canon_out(t):
        if not t.startswith("ok ") or k == "ec_ossl_inv":
            return t
        return "ok " + " ".join(_canon_s(tok, w) for w in t[3:].split(" "))
    if canon_out(ref) != canon_out(out):
        return "the OpenSSL class and the pure class disagree on identical input: OpenSSL %s, pure %s" % (out[:160], ref[:160])
    if k == "ec_ossl_mul" and out.startswith("ok ") and not reduced(tok, parse_pt(out[3:])):
        return "the OpenSSL multiply returned unreduced coordinates"
    return None


def _toy_pts(tok):
    p, a, b = consts(tok)[:3]
    return [(None, None)] + cc.curve_points(p, a, b)


def _check_addtable(tok, out):
    """closure, identity, inverse, commutativity, and the table is that of the cyclic group Z_N (hence associativity on
    all triples); all triples checked directly when the curve is small"""
    if not out.startswith("ok "):
        return "addition raised on a toy curve: " + out
    pts = _toy_pts(tok)
    N = len(pts)
    rows = [[c for c in r.split(";")] for r in out[3:].split("|")]
    names = [show_pt(P) for P in pts]
    idx = {s: i for i, s in enumerate(names)}
    if len(rows) != N or any(len(r) != N for r in rows):
        return "table shape"
    T = []
    for r in rows:
        if any(c not in idx for c in r):
            return "a sum is not a point of the curve (or raised): %s" % [c for c in r if c not in idx][:1]
        T.append([idx[c] for c in r])
    p = consts(tok)[0]
    for i in range(N):
        if T[0][i] != i or T[i][0] != i:
            return "infinity is not the identity at %s" % names[i]
        for j in range(N):
            if T[i][j] != T[j][i]:
                return "not commutative at %s, %s" % (names[i], names[j])
        if i:
            x, y = pts[i]
            j = idx[show_pt((x, (p - y) % p))]
            if T[i][j] != 0:
                return "P + (-P) is not infinity at %s" % names[i]
    if N <= 24:
        for i in range(N):
            for j in range(N):
                for k in range(N):
                    if T[T[i][j]][k] != T[i][T[j][k]]:
                        return "not associative at %s, %s, %s" % (names[i], names[j], names[k])
    if cc.is_prime(N):
        # discrete logarithms to base pts[1]; the table must be addition of logarithms mod N
        log = {0: 0}
        cur = 0
        for e in range(1, N):
            cur = T[cur][1]
            if cur in log:
                return "the first point does not generate a group of prime order %d" % N
            log[cur] = e
        exp = {e: i for i, e in log.items()}
        for i in range(N):
            for j in range(N):
                if T[i][j] != exp[(log[i] + log[j]) % N]:
                    return "addition table is not a group table at %s, %s" % (names[i], names[j])
    return None


def _check_multable(tok, out):
    """k*P = P added k times for every point and k in [-2n, 2n] (repeated addition on the implementation's own table)"""
    if not out.startswith("ok "):
        return "multiplication raised on a toy curve: " + out
    pts = _toy_pts(tok)
    n = consts(tok)[5]
    p = consts(tok)[0]
    add_out = cc.impl("ec_toy_addtable " + tok)
    if _check_addtable(tok, add_out):
        return None  # reported by the addition table itself
    names = [show_pt(P) for P in pts]
    idx = {s: i for i, s in enumerate(names)}
    T = [[idx[c] for c in r.split(";")] for r in add_out[3:].split("|")]
    rows = out[3:].split("|")
    for i, row in enumerate(rows):
        cells = row.split(";")
        neg = 0 if i == 0 else idx[show_pt((pts[i][0], (p - pts[i][1]) % p))]
        # expected by repeated addition
        pos = [0]
        for _ in range(2 * n):
            pos.append(T[pos[-1]][i])
        ng = [0]
        for _ in range(2 * n):
            ng.append(T[ng[-1]][neg])
        for ci, e in enumerate(range(-2 * n, 2 * n + 1)):
            want = pos[e] if e >= 0 else ng[-e]
            if cells[ci] != names[want]:
                return "%d * %s = %s, repeated addition gives %s" % (e, names[i], cells[ci], names[want])
        if cells[2 * n + n] != "inf":
            return "order * P is not infinity for P = %s" % names[i]
    return None


_BLS_SUB: set = set()


def _bls_in_subgroup(P) -> bool:
    return P == (None, None) or P in _BLS_SUB


# ------------------------------------------------------------------ neighbours

def neighbours(op: str, rng):
    if op.startswith("failed_then "):
        return []
    a = op.split(" ")
    res = []
    if a[0] in ("ec_add", "ec_sub") and "inf" not in a[2:]:
        res.append("ec_add %s %s %s" % (a[1], a[3], a[2]))
        res.append("ec_assoc %s %s %s %s" % (a[1], a[2], a[3], a[2]))
        res.append("ec_assoc %s %s %s %s" % (a[1], a[2], a[2], a[3]))
    if a[0] == "ec_mul":
        e = int(a[3])
        for d in (-1, 1, 2):
            res.append("ec_mul %s %s %d" % (a[1], a[2], e + d))
        res.append("ec_mul %s %s %d" % (a[1], a[2], e % 41))
    if a[0] == "ec_ossl_mul":
        e = int(a[3])
        res += ["ec_ossl_mul %s %s %d" % (a[1], a[2], e + d) for d in (-1, 1)]
        res.append("ec_mul %s %s %d" % (a[1], a[2], e))
    if a[0] == "ec_ossl_rawmul":
        res += ["ec_ossl_rawmul %s %d" % (a[1], int(a[2]) + d) for d in (-1, 1)]
        res.append("ec_rawmul %s %s" % (a[1], a[2]))
    if a[0] in ("ec_rawmul", "ec_genmul", "ec_blindmul"):
        e = int(a[2])
        gx, gy = consts(a[1])[3:5]
        res.append("ec_mul %s %d,%d %d" % (a[1], gx, gy, e))
        res.append("ec_rawmul %s %d" % (a[1], e + 1))
    return res


# ------------------------------------------------------------------ generators

def _shift(rng, P, p):
    """the same point with unreduced coordinates"""
    if P == (None, None):
        return P
    return (P[0] + rng.choice([-2, -1, 1, 1, 2, 3]) * p if rng.random() < 0.7 else P[0],
            P[1] + rng.choice([-2, -1, 1, 1, 2]) * p if rng.random() < 0.5 else P[1])


def _pt_of(tok, k):
    """k*G on the implementation (pure worker), as a tuple"""
    name = split_curve(tok)[0]
    gx, gy = consts(tok)[3:5]
    return _ok_pt(cc.impl("ec_mul %s/pure %d,%d %d" % (name, gx, gy, k)))


def _scalars(rng, n, p):
    return [0, 1, 2, 3, -1, -2, n - 1, n, n + 1, 2 * n - 1, 2 * n, 2 * n + 1, -n, -n + 1, -n - 1, p - 1, p, 2 ** 256 - 1, 2 ** 256, 2 ** 256 + 1,
            (n - 1) // 2, (n + 1) // 2, 2 ** 255, 2 ** 128, -(2 ** 256)]


def _gen_ossl(ctx, emit, tok, name, p, ca, cb, G, n, small):
    """boundary inputs of the glue of native/openssl.py, answered on the model side by the GLUE MODEL over the pure-model
    libcrypto; and probes of the contract on the real library"""
    rng = ctx.rng
    P3 = small[3]
    bnd = (0, 1, -1, n - 1, n, n + 1, 2 * n, 2 ** 256 - 1, -n)
    for e in bnd:
        emit("ec_ossl_mul %s %s %d" % (tok, show_pt(G), e), "ossl-glue")
        emit("ec_ossl_rawmul %s %d" % (tok, e), "ossl-glue")
    for e in (0, 5, n):
        emit("ec_ossl_mul %s inf %d" % (tok, e), "ossl-glue")
    # unreduced / negative coordinates (the glue reduces them before BignumType sees them)
    for sx, sy, e in ((p, 0, 2), (0, -p, n - 1), (-p, 2 * p, 1), (3 * p, -2 * p, n + 1), (p, p, n)):
        emit("ec_ossl_mul %s %d,%d %d" % (tok, P3[0] + sx, P3[1] + sy, e), "ossl-glue")
    # a zero coordinate (x = 0 exists on secp256r1): not the point at infinity
    y0 = pow(cb % p, (p + 1) // 4, p)
    if (y0 * y0 - cb) % p == 0 and y0 != 0:
        for e in (1, 2, n - 1, n, -1):
            emit("ec_ossl_mul %s 0,%d %d" % (tok, y0, e), "ossl-glue")
        emit("ec_ossl_add %s 0,%d 0,%d" % (tok, y0, y0), "ossl-glue")
        emit("ossl_probe %s mul 0,%d 3" % (tok, y0), "ossl-contract")
    # off the curve: the error class (NoSuchPointError from the final self.Point)
    emit("ec_ossl_mul %s %d,%d 5" % (tok, G[0], G[1] + 1), "ossl-glue")
    emit("ec_ossl_mul %s %d,%d %d" % (tok, G[0] + 1, G[1], n - 1), "ossl-glue")
    e = rng.randrange(1, n)
    emit("ec_ossl_mul %s %s %d" % (tok, show_pt(P3), e), "ossl-glue")
    emit("ec_ossl_mul %s %s %d" % (tok, show_pt(P3), -e - n), "ossl-glue")
    # inverse_mod: invertible, and the operands that have no inverse (0, multiples of m, a common factor)
    for m in (n, p):
        for x in (1, 2, m - 1, m + 1, -1, 2 ** 256 - 1, 0, m, -m, 2 * m):
            emit("ec_ossl_inv %s %d %d" % (tok, x, m), "ossl-glue")
    for x, m in ((3, 7), (-3, 7), (6, 9), (35, 49), (10, 15), (2 ** 300 + 1, 2 ** 255 - 19)):
        emit("ec_ossl_inv %s %d %d" % (tok, x, m), "ossl-glue")
    # Point + Point through OpenSSL's inverse_mod: doubling, generic, P + (-P), unreduced
    P1, P2 = small[1], small[2]
    for A, B in ((P1, P1), (P1, P2), (P1, (P1[0], p - P1[1])), ((P2[0] + p, P2[1] - p), (P2[0], P2[1] + 2 * p))):
        emit("ec_ossl_add %s %s %s" % (tok, show_pt(A), show_pt(B)), "ossl-glue")
    for e, b in ((5, 0), (n - 1, n - 5), (0, 7), (-1, 2 ** 256 - 1), (n, n)):
        emit("ec_ossl_blindmul %s %d %d" % (tok, e, b), "ossl-glue")
    emit("ec_ossl_shared %s %d %s" % (tok, n - 2, show_pt(P3)), "ossl-glue")
    emit("ec_ossl_shared %s 7 %d,%d" % (tok, P3[0] + p, P3[1]), "ossl-glue")
    # ---- the contract of the theorems (LibCryptoOk) asked of the real library: return codes and outputs of the raw calls
    emit("ossl_probe %s group" % tok, "ossl-contract")
    for e in (1, 2, n - 1, rng.randrange(1, n)):
        emit("ossl_probe %s mul %s %d" % (tok, show_pt(G), e), "ossl-contract")
    # e = n, e = 0: the product is infinity, get_affine reports failure and leaves the output bignums as they were
    emit("ossl_probe %s mul %s %d" % (tok, show_pt(G), n), "ossl-contract")
    emit("ossl_probe %s mul %s 0" % (tok, show_pt(P3)), "ossl-contract")
    for x, m in ((3, 7), (0, n), (n, n), (6, 9), (n - 1, n), (rng.randrange(1, p), p)):
        emit("ossl_probe %s inv %d %d" % (tok, x, m), "ossl-contract")
    for v in (0, 1, -1, 255, 256, -256, 2 ** 64 - 1, 2 ** 64, -(2 ** 64), 2 ** 255, p, -n, rng.getrandbits(521)):
        emit("ossl_probe %s bn %d" % (tok, v), "ossl-contract")


def gen(ctx, emit):
    rng = ctx.rng
    # libsecp256k1: its glue is tied to the source by reading only.  Whether the library IS present in this environment
    # is recorded in the evidence (a note, never a violation), so that the gap is visible where it matters
    hello = cc.worker_hello("openssl")
    ctx.extra_cov["libsecp256k1"] = {
        "present": "libsecp256k1=1" in hello, "worker": hello,
        "note": ("libsecp256k1 IS loadable here: native/secp256k1.py is executed by pycoin but its glue model (Model/NativeCurve.lean, "
                 "Secp.*) has never been compared with it - extend the correspondence before relying on C01/C02 in this environment")
                if "libsecp256k1=1" in hello else
                "libsecp256k1 not loadable: native/secp256k1.py is never executed; its glue model is tied to the source by reading only"}
    # ---------------- boundary corpus: inverse_mod
    for m in (2, 3, 7, 17, 97, 2 ** 31 - 1):
        for x in (1, 2, m - 1, m + 1, -1, -m + 1, 2 * m - 1, 5 * m + 1, -7 * m - 1, 0, m, -m, 2 * m):
            emit("ec_invmod %d %d" % (x, m))
    for m in (15, 21, 91):
        for x in (2, 3, 5, 7, 14, -3, 1, m - 1):
            emit("ec_invmod %d %d" % (x, m))
    for name in BIG + ("bls12_381",):
        p, ca, cb, gx, gy, n = consts(name)
        cfgs = ("pure", "openssl") if name in BIG else ("pure",)
        G = (gx, gy)
        # a few multiples of G computed once
        small = {k: _pt_of(name, k) for k in (1, 2, 3, 4, 5, 7, n - 1, n - 2, n - 3)}
        for P in small.values():
            _BLS_SUB.add(P)
        for cfg in cfgs:
            tok = name + "/" + cfg
            for m in (p, n):
                for x in (1, 2, 3, m - 1, m - 2, m + 1, -1, 2 * m - 1, -m + 1, (m + 1) // 2, 2 ** 256 - 1, 2 ** 255, rng.randrange(1, m), -rng.randrange(1, m)):
                    if x % m:
                        emit("ec_invmodc %s %d %d" % (tok, x, m))
            # addition: every branch — infinity operands, P = Q, P = -Q, generic, unreduced coordinates in each
            P1, P2, P3, Pm1 = small[1], small[2], small[3], small[n - 1]
            neg2 = small[n - 2]
            cases = [("inf", "inf"), ("inf", show_pt(P1)), (show_pt(P1), "inf"), (show_pt(P1), show_pt(P1)), (show_pt(P1), show_pt(Pm1)),
                     (show_pt(P1), show_pt(P2)), (show_pt(P2), show_pt(P1)), (show_pt(P2), show_pt(neg2)), (show_pt(P3), show_pt(P3))]
            for x, y in cases:
                emit("ec_add %s %s %s" % (tok, x, y))
            for A, B in ((P1, P1), (P1, Pm1), (P1, P2), (P2, neg2), (P3, P3), (Pm1, Pm1)):
                for sa, sb in (((p, 0), (0, 0)), ((0, 0), (p, 0)), ((0, p), (0, 0)), ((0, 0), (0, p)), ((p, p), (2 * p, -p)), ((-p, 0), (0, 0)),
                               ((0, -p), (0, 0)), ((0, 0), (-p, -p)), ((3 * p, 0), (-2 * p, p))):
                    if A[0] is None or B[0] is None:
                        continue  # only when a constant of the curve was changed: (n-1)*G is then not what it should be
                    emit("ec_add %s %d,%d %d,%d" % (tok, A[0] + sa[0], A[1] + sa[1], B[0] + sb[0], B[1] + sb[1]))
            emit("ec_sub %s %s %s" % (tok, show_pt(P3), show_pt(P1)))
            emit("ec_sub %s %s %s" % (tok, show_pt(P1), show_pt(P1)))
            emit("ec_sub %s inf %s" % (tok, show_pt(P1)))
            emit("ec_neg %s %s" % (tok, show_pt(P1)))
            emit("ec_neg %s %d,%d" % (tok, P2[0] + p, P2[1] - p))
            emit("ec_assoc %s %s %s %s" % (tok, show_pt(P1), show_pt(P1), show_pt(P1)))
            emit("ec_assoc %s %s %s %s" % (tok, show_pt(P1), show_pt(P2), show_pt(neg2)))
            emit("ec_assoc %s %s %s %s" % (tok, show_pt(P1), show_pt(Pm1), show_pt(P3)))
            emit("ec_on_curve %s %s" % (tok, show_pt(P1)))
            emit("ec_on_curve %s %d,%d" % (tok, P1[0], P1[1] + 1))
            emit("ec_on_curve %s %d,%d" % (tok, P1[0] - p, P1[1] + p))
            emit("ec_on_curve %s inf" % tok)
            # off-curve operands: NoSuchPointError from the constructor (outside the quantifier; correspondence only)
            emit("ec_add %s %d,%d %s" % (tok, P1[0], P1[1] + 1, show_pt(P2)))
            emit("ec_mul %s %d,%d 5" % (tok, P1[0] + 1, P1[1]))
            # scalar multiplication: boundary scalars on G and on another point, reduced and unreduced
            sc = _scalars(rng, n, p)
            for i, e in enumerate(sc):
                emit("ec_mul %s %s %d" % (tok, show_pt(G), e))
                emit("ec_rawmul %s %d" % (tok, e))
                if i % 2 == 0 or ctx.thorough:
                    emit("ec_genmul %s %d" % (tok, e))
            for e in sc[:12]:
                emit("ec_mul %s %s %d" % (tok, show_pt(P3), e))
                emit("ec_mul %s inf %d" % (tok, e))
            # the other operand order: `P * k` (Point.__mul__ called directly) and `k * G` (Generator.__rmul__)
            for e in (0, 1, 2, n - 1, n, n + 1, -1, 2 ** 256 - 1, rng.randrange(n)):
                emit("ec_mulr %s %s %d" % (tok, show_pt(P3), e))
                emit("ec_rgenmul %s %d" % (tok, e))
            emit("ec_mulr %s inf 5" % tok)
            emit("ec_mulr %s %d,%d 5" % (tok, P1[0] + 1, P1[1]))
            for e in (2, 5, n - 1, n + 2, -3):
                emit("ec_mul %s %d,%d %d" % (tok, P2[0] + p, P2[1], e))
                emit("ec_mul %s %d,%d %d" % (tok, P2[0], P2[1] - p, e))
                emit("ec_shared %s %d %s" % (tok, e, show_pt(P3)))
            for e, b in ((5, 0), (5, 1), (5, n - 1), (5, n), (n - 1, n - 5), (0, 7), (-1, 2 ** 256 - 1), (n, n), (2 ** 256 - 1, 2 ** 255)):
                emit("ec_blindmul %s %d %d" % (tok, e, b))
            # finite points with a ZERO coordinate (x = 0 exists when b is a square: secp256r1; none on secp256k1): a test
            # for infinity written as truthiness of the coordinates takes them for the point at infinity
            y0 = pow(cb % p, (p + 1) // 4, p)
            if name != "bls12_381" and (y0 * y0 - cb) % p == 0 and y0 != 0:
                for Z in ((0, y0), (0, p - y0)):
                    for e in (1, 2, 3, 7, -1, n - 1, n, n + 1, 2 ** 255 + 12345):
                        emit("ec_mul %s %s %d" % (tok, show_pt(Z), e), "zero-coordinate")
                    emit("ec_add %s %s %s" % (tok, show_pt(Z), show_pt(Z)), "zero-coordinate")
                    emit("ec_add %s %s %s" % (tok, show_pt(Z), show_pt((0, p - Z[1]))), "zero-coordinate")
                    emit("ec_add %s %s %s" % (tok, show_pt(Z), show_pt(P1)), "zero-coordinate")
                    emit("ec_neg %s %s" % (tok, show_pt(Z)), "zero-coordinate")
                    emit("ec_shared %s 5 %s" % (tok, show_pt(Z)), "zero-coordinate")
                    emit("ec_shared %s %d %s" % (tok, n - 2, show_pt(Z)), "zero-coordinate")
            if cfg == "openssl":
                _gen_ossl(ctx, emit, tok, name, p, ca, cb, G, n, small)
            for x in (0, 1, 2, 3, 4, 5, 6, 7, p - 1, p - 2, p - 3, P1[0], P2[0]):
                emit("ec_points_for_x %s %d" % (tok, x))
            for x in (p, p + 1, -1, 2 ** 256, P1[0] + p):  # outside 0 <= x < p: correspondence only
                emit("ec_points_for_x %s %d" % (tok, x))
            for v in (0, 1, 2, 4, p - 1, p - 4):
                emit("ec_sqrt %s %d" % (tok, v))
        # ---------------- random stream
        for cfg in cfgs:
            tok = name + "/" + cfg
            nrand = ctx.n(5, 120) if name != "bls12_381" else ctx.n(3, 40)
            pts = []
            for _ in range(nrand):
                k = rng.randrange(1, n)
                P = _pt_of(name, k)
                _BLS_SUB.add(P)
                pts.append(P)
            for i, P in enumerate(pts):
                Q = pts[(i + 1) % len(pts)]
                R = pts[(i + 2) % len(pts)]
                emit("ec_add %s %s %s" % (tok, show_pt(_shift(rng, P, p)), show_pt(_shift(rng, Q, p))))
                emit("ec_add %s %s %s" % (tok, show_pt(_shift(rng, P, p)), show_pt(_shift(rng, P, p))))
                emit("ec_add %s %s %s" % (tok, show_pt(_shift(rng, P, p)), show_pt(_shift(rng, (P[0], p - P[1]), p))))
                emit("ec_assoc %s %s %s %s" % (tok, show_pt(P), show_pt(Q), show_pt(R)))
                e = rng.choice([rng.randrange(n), rng.randrange(2 ** 256), -rng.randrange(2 ** 256), rng.randrange(2 ** 64), rng.randrange(-40, 41),
                                n + rng.randrange(-3, 4), rng.getrandbits(rng.randrange(1, 300))])
                emit("ec_mul %s %s %d" % (tok, show_pt(P if rng.random() < 0.7 else _shift(rng, P, p)), e))
                e2 = rng.choice([rng.randrange(n), rng.randrange(2 ** 256), -rng.randrange(n), 1 << rng.randrange(256), (1 << rng.randrange(1, 257)) - 1])
                emit("ec_rawmul %s %d" % (tok, e2))
                emit("ec_blindmul %s %d %d" % (tok, e2, rng.choice([rng.randrange(n), rng.randrange(2 ** 256), n - 1, 1])))
                emit("ec_genmul %s %d" % (tok, e2 + 1))
                emit("ec_points_for_x %s %d" % (tok, rng.randrange(p)))
                emit("ec_points_for_x %s %d" % (tok, P[0]))
                emit("ec_invmodc %s %d %d" % (tok, rng.randrange(1, p) * rng.choice([1, -1]) + rng.choice([0, p]), p))
                emit("ec_shared %s %d %s" % (tok, rng.randrange(1, n), show_pt(Q)))
    # ---------------- toy curves: constructed through pycoin's Generator class
    toy_small = []
    for p in cc.TOY_PRIMES_SMALL:
        toy_small += cc.toy_curves(p)
    if ctx.thorough:
        full = list(toy_small)
    else:
        full = [c for c in toy_small if cc.toy_params(c)[0] <= 11] + rng.sample(toy_small, 12)
    for tok in full:
        emit("ec_toy_addtable " + tok, "toy-table")
    mult_full = full if not ctx.thorough else [c for c in toy_small if cc.toy_params(c)[0] <= 31] + rng.sample(toy_small, 60)
    for tok in (mult_full if ctx.thorough else full[:10]):
        emit("ec_toy_multable " + tok, "toy-table")
        emit("ec_toy_gentable %s %d" % (tok, rng.randrange(0, 2 ** 256)), "toy-table")
    mids = []
    for p in (cc.TOY_PRIMES_MID if ctx.thorough else rng.sample(cc.TOY_PRIMES_MID, 3)):
        c = cc.toy_curve_random(rng, p)
        if c:
            mids.append(c)
    for tok in mids:
        if cc.toy_params(tok)[0] < 260:
            emit("ec_toy_addtable " + tok, "toy-table")
    # single ops on toy curves: unreduced coordinates, all scalars classes, points_for_x over the whole field
    for tok in rng.sample(toy_small, ctx.n(20, 300)) + mids:
        p, ca, cb, gx, gy, n = consts(tok)
        pts = [(None, None)] + cc.curve_points(p, ca, cb)
        for _ in range(ctx.n(6, 40)):
            P, Q, R = rng.choice(pts), rng.choice(pts), rng.choice(pts)
            emit("ec_add %s %s %s" % (tok, show_pt(_shift(rng, P, p)), show_pt(_shift(rng, Q, p))))
            emit("ec_assoc %s %s %s %s" % (tok, show_pt(_shift(rng, P, p)), show_pt(Q), show_pt(_shift(rng, R, p))))
            if P != (None, None):
                emit("ec_add %s %s %s" % (tok, show_pt(_shift(rng, P, p)), show_pt(_shift(rng, (P[0], (p - P[1]) % p), p))))
                emit("ec_add %s %s %s" % (tok, show_pt(_shift(rng, P, p)), show_pt(_shift(rng, P, p))))
                emit("ec_neg %s %s" % (tok, show_pt(_shift(rng, P, p))))
            e = rng.choice([rng.randrange(-3 * n, 3 * n), rng.randrange(2 ** 256), -rng.randrange(2 ** 64), n, 0, -n])
            emit("ec_mul %s %s %d" % (tok, show_pt(_shift(rng, P, p)), e))
            emit("ec_rawmul %s %d" % (tok, e))
            emit("ec_blindmul %s %d %d" % (tok, e, rng.randrange(2 ** 256)))
        for x in (range(p) if p < 64 else [rng.randrange(p) for _ in range(40)]):
            emit("ec_points_for_x %s %d" % (tok, x))
        emit("ec_gen_init %s %d" % (tok, rng.randrange(2 ** 256)))
    # ---------------- one curve, EVERY base point: generators that share (p, a, b, n) and differ in the base point only (a table
    # of doublings or any other per-curve memo shared between instances answers with multiples of the first base point); on the
    # production parameters too: secp256k1 with base 2G / 3G next to the shipped generator
    fam = [c for c in toy_small if cc.toy_params(c)[0] in (7, 11, 19)][:ctx.n(4, 40)]
    for tok0 in fam:
        p, ca, cb, _gx, _gy, n = consts(tok0)
        for (bx, by) in cc.curve_points(p, ca, cb):
            tok = "toy:%d:%d:%d:%d:%d:%d" % (p, ca, cb, bx, by, n)
            for e in list(range(-1, min(n, 6) + 1)) + [n - 1, n, n + 1, rng.randrange(2 ** 256)]:
                emit("ec_rawmul %s %d" % (tok, e), "same-curve-other-base")
                emit("ec_genmul %s %d" % (tok, e), "same-curve-other-base")
            emit("ec_blindmul %s %d %d" % (tok, rng.randrange(1, n), rng.randrange(2 ** 256)), "same-curve-other-base")
    for name in BIG:
        p, ca, cb, gx, gy, n = consts(name)
        emit("ec_genmul %s/pure 5" % name, "same-curve-other-base")
        for kk in (2, 3):
            B = _pt_of(name, kk)
            tok = "toy:%d:%d:%d:%d:%d:%d" % (p, ca, cb, B[0], B[1], n)
            for e in (1, 2, 3, n - 1, rng.randrange(1, n)):
                emit("ec_rawmul %s %d" % (tok, e), "same-curve-other-base")
                emit("ec_genmul %s %d" % (tok, e), "same-curve-other-base")
    # ---------------- a refused call first (scalar None / a string / a float), then the operation on the SAME generator object
    for name in BIG + ("bls12_381",):
        n = consts(name)[5]
        for cfg in (("pure", "openssl") if name in BIG else ("pure",)):
            for e in (1, 2, n - 1, rng.randrange(1, n), rng.randrange(2 ** 256)):
                emit("failed_then ec_genmul %s/%s %d" % (name, cfg, e), "after-refused-call")
                emit("failed_then ec_rgenmul %s/%s %d" % (name, cfg, e), "after-refused-call")
            emit("failed_then ec_blindmul %s/%s %d %d" % (name, cfg, rng.randrange(1, n), rng.randrange(2 ** 256)), "after-refused-call")
            emit("failed_then ec_rawmul %s/%s %d" % (name, cfg, rng.randrange(1, n)), "after-refused-call")
    for tok in rng.sample(toy_small, 6):
        n = consts(tok)[5]
        for e in range(0, min(n, 8)):
            emit("failed_then ec_genmul %s %d" % (tok, e), "after-refused-call")
        emit("failed_then ec_blindmul %s %d %d" % (tok, rng.randrange(1, n), rng.randrange(2 ** 256)), "after-refused-call")
    # ---------------- documentation stream (outside the quantifier; never judged by the oracle): curves of even order
    # (a point with y = 0), an order-less curve cannot be expressed through Generator; negative scalars there are an
    # AssertionError in Curve.multiply and are compared model-vs-implementation only in the model's own tests
    doc_ops = []
    for p in (7, 11, 19):
        for ca in range(p):
            for cb in range(p):
                if (4 * ca ** 3 + 27 * cb * cb) % p == 0:
                    continue
                pts = cc.curve_points(p, ca, cb)
                tors = [P for P in pts if P[1] == 0]
                if tors and len(pts) > 3:
                    G = next(P for P in pts if P[1] != 0)
                    tok = "toy:%d:%d:%d:%d:%d:%d" % (p, ca, cb, G[0], G[1], len(pts) + 1)
                    T = tors[0]
                    doc_ops += ["ec_add %s %s %s" % (tok, show_pt(T), show_pt(T)), "ec_neg %s %s" % (tok, show_pt(T)),
                                "ec_points_for_x %s %d" % (tok, T[0])]
                    break
            else:
                continue
            break
    # order-less curve, negative scalar: AssertionError in Curve.multiply (`_leftmost_bit` asserts x > 0)
    gx, gy = consts("secp256k1")[3:5]
    doc_ops += ["ec_mul_orderless secp256k1/pure %d,%d -5" % (gx, gy), "ec_mul_orderless secp256k1/pure %d,%d 5" % (gx, gy)]
    import lib
    doc_model = lib.run_driver(doc_ops)
    ctx.extra_cov["documentation_outside_quantifier"] = [
        {"op": o, "implementation": cc.impl(o), "model": m} for o, m in zip(doc_ops, doc_model)]
