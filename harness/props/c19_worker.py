"""Child process of the C19 harness: pycoin.encoding.hash is imported under one fixed configuration
(the choice of RIPEMD-160 implementation is made at import time).  Line protocol on stdin/stdout.

argv: <env> <alg> <works> <pycrypto>
  env      'none' or '=' + hex of the value of PYCOIN_USE_PYTHON_RIPEMD160
  alg      0: "ripemd160" removed from hashlib.algorithms_available before the import
  works    0: hashlib.new("ripemd160", …) raises ValueError (OpenSSL 3 without the legacy provider, as on Ubuntu 22)
  pycrypto 1: a stand-in Crypto.Hash.RIPEMD.RIPEMD160Hash is importable
The stdlib is patched, never pycoin."""
import hashlib
import os
import sys
import types

env, alg, works, pycrypto = sys.argv[1:5]
os.environ.pop("PYCOIN_USE_PYTHON_RIPEMD160", None)
if env != "none":
    os.environ["PYCOIN_USE_PYTHON_RIPEMD160"] = bytes.fromhex(env[1:]).decode("latin-1")
_real_new = hashlib.new
NATIVE_OK = True
try:
    _real_new("ripemd160", b"").digest()
except Exception:  # noqa: BLE001
    NATIVE_OK = False
if alg == "0":
    hashlib.algorithms_available = set(hashlib.algorithms_available) - {"ripemd160"}
if works == "0":
    def _new(name, data=b"", **kw):
        if name == "ripemd160":
            raise ValueError("unsupported hash type ripemd160")
        return _real_new(name, data, **kw)
    hashlib.new = _new


class _FakeRIPEMD160Hash:
    def __init__(self, data=b""):
        self._d = _real_new("ripemd160", data).digest()

    def digest(self):
        return self._d


if pycrypto == "1":
    m0, m1, m2 = types.ModuleType("Crypto"), types.ModuleType("Crypto.Hash"), types.ModuleType("Crypto.Hash.RIPEMD")
    m2.RIPEMD160Hash = _FakeRIPEMD160Hash
    m0.Hash, m1.RIPEMD = m1, m2
    sys.modules.update({"Crypto": m0, "Crypto.Hash": m1, "Crypto.Hash.RIPEMD": m2})
else:
    for k in [k for k in sys.modules if k == "Crypto" or k.startswith("Crypto.")]:
        del sys.modules[k]
    sys.modules["Crypto"] = None  # import raises ImportError

import pycoin.encoding.hash as H  # noqa: E402


def which():
    if H.ripemd160 is H.ripemd160_native:
        return "native"
    if H.ripemd160 is H._PurePythonRIPEMD160:
        return "python"
    return "pycrypto"


def unhx(s):
    return b"" if s == "-" else bytes.fromhex(s)


def history(script):
    """a history of calls on reused buffer objects; one answer per step, `.` for steps that print nothing"""
    import pycoin.contrib.ripemd160 as R
    import pycoin.bloomfilter as B
    bufs = {}      # name -> the object handed to pycoin
    backing = {}   # name -> the bytearray behind a memoryview
    kinds = {}
    filt = [None]

    def make(i, kind, data):
        kinds[i] = kind
        if kind == "y":
            bufs[i] = bytes(data)
        elif kind == "a":
            bufs[i] = bytearray(data)
        else:
            backing[i] = bytearray(data)
            bufs[i] = memoryview(backing[i])

    def one(st):
        p = st.split(":")
        k = p[0]
        if k in ("ny", "na", "nm"):
            make(int(p[1]), k[1], unhx(p[2]))
            return "."
        if k == "s":
            i, d = int(p[1]), unhx(p[2])
            kind = kinds[i]                     # KeyError when the name was never bound
            if kind == "a":
                bufs[i][:] = d                  # the SAME object, new contents
            elif kind == "m" and len(d) == len(backing[i]):
                backing[i][:] = d               # same memoryview, same backing object, new contents
            else:
                make(i, kind, d)                # bytes are immutable (and a memoryview cannot be resized): rebind
            return "."
        if k == "r":
            return H.ripemd160(bufs[int(p[1])]).digest().hex() or "-"
        if k == "h":
            return H.hash160(bufs[int(p[1])]).hex() or "-"
        if k == "d":
            return bytes(H.double_sha256(bufs[int(p[1])])).hex() or "-"
        if k == "c":
            return R.ripemd160(bufs[int(p[1])]).hex() or "-"
        if k == "m":
            return str(B.murmur3(bufs[int(p[1])], seed=int(p[2])))
        if k == "bn":
            filt[0] = B.BloomFilter(int(p[1]), int(p[2]), int(p[3]))
            return "."
        if k == "ba":
            f = filt[0]
            add = f.add_item                    # AttributeError when there is no filter
            add(bufs[int(p[1])])
            return "."
        if k == "bf":
            return bytes(filt[0].filter_bytes).hex() or "-"
        if k == "bc":
            f = filt[0]
            n = f.hash_function_count
            b = bufs[int(p[1])]
            ok = True
            for j in range(n):
                ok = f.check_bit(B.murmur3(b, seed=j * 0xFBA4C795 + f.tweak) % f.bit_count) and ok
            return "1" if ok else "0"
        raise ValueError("bad step")

    out = []
    for st in ([] if script == "~" else script.split(",")):
        try:
            out.append(one(st))
        except Exception as e:  # noqa: BLE001
            out.append("err:" + type(e).__name__)
    return "ok " + ";".join(out)


def answer(line):
    a = line.split(" ")
    try:
        if a[0] == "which":
            return "ok " + which()
        if a[0] == "facts":   # what the unpatched interpreter offers
            return "ok listed=%d works=%d" % ("ripemd160" in hashlib.algorithms_available, NATIVE_OK)
        if a[0] == "history":
            return history(a[1])
        if a[0] == "ripemd160":
            d = H.ripemd160(unhx(a[1])).digest()
            return "ok " + (d.hex() or "-")
        if a[0] == "hash160":
            d = H.hash160(unhx(a[1]))
            return "ok " + (d.hex() or "-")
    except Exception as e:  # noqa: BLE001
        return "err " + type(e).__name__
    return "bad-op"


for line in sys.stdin:
    sys.stdout.write(answer(line.rstrip("\n")) + "\n")
    sys.stdout.flush()
