"""C03M — model side of C03: the Lean model of pycoin's own script VM (lean/Pycoin/Model/VM/*) against the real code.

Here error codes ARE compared: the model mirrors the code that exists (deviations from consensus included).
The implementation-vs-consensus comparison is harness/props/c03.py (sibling builder)."""
from __future__ import annotations

import hashlib

from lib import hx, unhx, show_list

from pycoin.symbols.btc import network as BTC
from pycoin.coins.bitcoin.VM import BitcoinVM
from pycoin.coins.bitcoin.SolutionChecker import BitcoinSolutionChecker
from pycoin.coins.bitcoin.ScriptStreamer import BitcoinScriptStreamer
from pycoin.coins.SolutionChecker import ScriptError
from pycoin.satoshi import errno, der, checksigops, flags as F
from pycoin.satoshi.IntStreamer import IntStreamer
from pycoin.vm.ConditionalStack import ConditionalStack
from pycoin.vm.VM import conditional_error_f
from pycoin.ecdsa.secp256k1 import secp256k1_generator as G
from pycoin.encoding.sec import sec_to_public_pair, public_pair_to_sec

MANIFEST = {
    "text": "Lean model of pycoin's script VM (decoder, conditional counters, every opcode handler, CHECKSIG family, "
            "check_solution pipeline) tied to the code by generated tables and differential correspondence (stack, alt stack, "
            "op count, code-separator position, errno). Theorems C03M_*: the conditional counters abstract Core's vfExec for every "
            "op sequence; IntStreamer = CScriptNum, bool_from_script_bytes = CastToBool; get_opcode = GetScriptOp + CheckMinimalPush for "
            "every script and pc; check_valid_signature = IsValidSignatureEncoding, hash-type and public-key encoding checks = Core's "
            "predicates; sigdecode_der_lax = ecdsa_signature_parse_der_lax on every byte string; parse_and_check_signature_blob = "
            "CheckSignatureEncoding for every blob and flag set (DERSIG/LOW_S/STRICTENC); checksigs (pops keys and signatures from the "
            "end) = Core's CHECKMULTISIG matching loop for all signature and key lists with #sigs <= #keys, by induction on both lists; "
            "the four handlers CHECKSIG/CHECKSIGVERIFY/CHECKMULTISIG/CHECKMULTISIGVERIFY = Core's arms for every state (stack depth, "
            "4-byte minimal counts, ranges, NULLDUMMY, NULLFAIL, VERIFY suffix, op-count contribution of the key count); "
            "_delete_signature (bottom-most signature first) = FindAndDelete (top-most first) on EVERY script code, undecodable "
            "tail included (C03M_sigdel_eq, since the repair of delete_subscript); eval_instruction = one iteration of Core's loop for every state and ALL 256 opcode values "
            "(C03M_step_eq); eval_script = EvalScript (verdict and final stack) for EVERY script, decodable or not, every initial stack "
            "of items within 520 bytes, every flag set, both signature versions (C03M_eval_eq; C03M_eval_unwalkable: a script with an "
            "undecodable instruction fails on both sides); check_solution = VerifyScript for every scriptSig, scriptPubKey, witness, flag "
            "set and tx context with no hypothesis but ChkWF (C03M_verify_eq: SIGPUSHONLY, stack copy, P2SH, witness v0 20/32-byte rules, "
            "P2WPKH script, 520-byte items, malleation rules, upgradable versions, CLEANSTACK, WITNESS_UNEXPECTED; the "
            "MINIMALIF/WITNESS_PUBKEYTYPE-only-in-witness hypothesis is discharged from how check_solution builds its VMs).",
    "note": "Signature verification proper and the hash functions are parameters shared by model and spec (sig-oracle table computed "
            "by the real pycoin sighash + ECDSA on the Python side). The theorems ask of the checker only ChkWF (an empty signature, a "
            "signature the lax DER parser rejects, a key whose length does not fit its first byte never verify: the early exits of "
            "Core's CheckSig, proved for Spec/Secp256k1.checkSigWith in C03M_chk_wf_core; C03M_chk_wf_needed shows it is needed). "
            "C03M_eval_eq asks for initial stack items within 520 bytes (compile_push_data of a >= 4 GiB signature raises struct.error, "
            "which Core has no counterpart for; every stack check_solution builds satisfies it). "
            "C03M_step_eq_partial / C03M_eval_eq_partial (CHECKSIG family excluded) are kept as they were.",
    "technique": "Lean 4 proof over an executable model + differential correspondence model vs implementation",
}
RULE = ("ops vm_eval/vm_verify (+ unit ops vm_num_*, vm_getop, vm_cond, vm_der, vm_sigenc, ...); per-opcode x operand-class x "
        "executed/dead table, limits, flags, conditionals, signatures; distinct = distinct op line")
ASSUMPTIONS = [
    "sig oracle: table of (sig blob, pubkey blob, first 8 bytes of sha256(scriptCode||witnessByte)) for which pycoin's own "
    "sighash + secp256k1 verify succeed; every other triple is taken to be invalid (true up to a negligible probability: "
    "the generator only emits signatures it made itself)",
    "hash functions in the driver are the Lean SHA-1/SHA-256/RIPEMD-160 models validated by C19",
]
TRUSTED = ["harness/props/c03m.py generators compute the intended scriptCode of the signatures they make"]

Tx = BTC.tx
ERRNAME = {}
for _k, _v in sorted(vars(errno).items(), key=lambda kv: (kv[1] if isinstance(kv[1], int) else -1, kv[0])):
    if _k.isupper() and isinstance(_v, int) and _v not in ERRNAME:
        ERRNAME[_v] = _k


def err_tag(e: BaseException) -> str:
    if isinstance(e, ScriptError):
        c = e.error_code()
        if c is None:
            return "err None"
        return "err " + ERRNAME.get(c, "errno%s" % c)
    return "err " + type(e).__name__


def parse_list(s):
    return [] if s == "~" else [unhx(x) for x in s.split(",")]


def parse_ctx(s):
    a = [int(x) for x in s.split(":")]
    while len(a) < 4:
        a.append(0)
    return a


def make_tx(ctx, script_sig=b"", spk=b"", witness=()):
    lock, seq, ver, amount = ctx
    # the outpoint is fixed, so that the sighash of a script code depends on `ctx` only (the generator signs before
    # it knows the final scriptSig / scriptPubKey)
    tx_in = Tx.TxIn(b"\x11" * 32, 0, script_sig, sequence=seq)
    tx_in.witness = list(witness)
    return Tx(ver, [tx_in], [Tx.TxOut(amount, b"")], lock_time=lock, unspents=[Tx.TxOut(amount, spk)])


def code_key(code: bytes, wit: bool) -> bytes:
    return hashlib.sha256(code + (b"\1" if wit else b"\0")).digest()[:8]


def impl(op: str) -> str:
    a = op.split(" ")
    k = a[0]
    try:
        if k == "vm_eval":
            flags, wit, script, stack, ctx = int(a[1]), a[2] == "1", unhx(a[3]), parse_list(a[4]), parse_ctx(a[5])
            tx = make_tx(ctx)
            sc = BitcoinSolutionChecker(tx)
            tc = sc.tx_context_for_idx(0)
            f = sc._make_witness_sighash_f(0) if wit else sc._make_sighash_f(0)
            vm = BitcoinVM(script, tc, f, flags, initial_stack=list(stack))
            st = vm.eval_script()
            return "ok %s alt=%s ops=%d cs=%d" % (show_list(st, hx), show_list(vm.altstack, hx), vm.op_count, vm.begin_code_hash)
        if k == "vm_verify":
            flags, sig, spk, wit, ctx = int(a[1]), unhx(a[2]), unhx(a[3]), parse_list(a[4]), parse_ctx(a[5])
            tx = make_tx(ctx, sig, spk, wit)
            tx.check_solution(0, flags=flags)
            return "ok"
        if k == "vm_num_dec":
            return "ok %d" % IntStreamer.int_from_script_bytes(unhx(a[1]), require_minimal=a[2] == "1")
        if k == "vm_num_enc":
            return "ok " + hx(IntStreamer.int_to_script_bytes(int(a[1])))
        if k == "vm_bool":
            return "ok %d" % (1 if BitcoinVM.bool_from_script_bytes(unhx(a[1]), require_minimal=a[2] == "1") else 0)
        if k == "vm_getop":
            opcode, data, pc, is_ok = BitcoinScriptStreamer.get_opcode(unhx(a[1]), int(a[2]), verify_minimal_data=a[3] == "1")
            return "ok %d %s %d %d" % (opcode, "None" if data is None else hx(bytes(data)), pc, 1 if is_ok else 0)
        if k == "vm_pushdata":
            return "ok " + hx(BitcoinScriptStreamer.compile_push_data(unhx(a[1])))
        if k == "vm_delsig":
            return "ok " + hx(BitcoinSolutionChecker(None)._delete_signature(unhx(a[1]), unhx(a[2])))
        if k == "vm_pushonly":
            BitcoinSolutionChecker(None)._check_script_push_only(unhx(a[1]))
            return "ok"
        if k == "vm_der":
            try:
                r, s = der.sigdecode_der_lax(unhx(a[1]))
            except (der.UnexpectedDER, ValueError):
                return "err caught"
            return "ok %d %d" % (r, s)
        if k == "vm_sigenc":
            try:
                checksigops.parse_and_check_signature_blob(unhx(a[2]), int(a[1]), BitcoinVM)
            except (der.UnexpectedDER, ValueError):
                return "ok caught"
            return "ok parsed"
        if k == "vm_pubenc":
            checksigops.check_public_key_encoding(unhx(a[1]))
            return "ok"
        if k == "vm_secshape":
            return _secshape(unhx(a[1]))
        if k == "vm_wpv":
            v = BitcoinSolutionChecker(None)._witness_program_version(unhx(a[1]))
            return "ok %s" % v
        if k == "vm_p2sh":
            return "ok %d" % (1 if BitcoinSolutionChecker.is_pay_to_script_hash(unhx(a[1])) else 0)
        if k == "vm_cond":
            c = ConditionalStack(conditional_error_f)
            for ch in ("" if a[1] == "-" else a[1]):
                if ch in "Ii":
                    c.OP_IF(ch == "I")
                elif ch in "Nn":
                    c.OP_IF(ch == "N", reverse_bool=True)
                elif ch == "E":
                    c.OP_ELSE()
                elif ch == "F":
                    c.OP_ENDIF()
                elif ch == "Z":
                    c.check_final_state()
            return "ok %d %d %d" % (c.true_count, c.false_count, 1 if c.all_if_true() else 0)
    except Exception as e:  # noqa: BLE001
        return err_tag(e)
    return "bad-op"


class _ShapeProbe:
    """generator stand-in: public_pair_for_blob's length/prefix decision is observed with a curve that contains every point"""
    def p(self):
        return 1 << 256

    def points_for_x(self, x):
        return ((x, 0), (x, 1))

    def contains_point(self, x, y):
        return True


def _secshape(sec):
    blob = sec
    if len(blob) == 65 and blob[0] in (6, 7):
        # make the parity agree so that only the shape decides
        blob = blob[:-1] + bytes([(blob[-1] & 0xFE) | (blob[0] & 1)])
    return "ok %d" % (0 if checksigops.public_pair_for_blob(blob, _ShapeProbe()) is None else 1)


# ------------------------------------------------------------------ oracles (cheap invariants on the implementation)

# known answers (consensus facts, written by hand): script -> final stack; they give a concrete failing input when an
# opcode table entry is swapped (the model follows the table, so the correspondence alone stays green)
KAT = {
    "5253 93": "05", "5253 94": "81", "5253 9a": "01", "0053 9b": "01", "5353 9c": "01", "5253 9e": "01", "5253 9f": "01",
    "5253 a0": "-", "5253 a1": "01", "5253 a2": "-", "5253 a3": "02", "5253 a4": "03", "525153 a5": "01", "515253 a5": "-", "525254 a5": "01",
    "52 8b": "03", "52 8c": "01", "52 8f": "82", "4f 90": "01", "00 91": "01", "52 92": "01",
    "5152 6d": "~", "5152 6e": "01,02,01,02", "515253 6f": "01,02,03,01,02,03", "51525354 70": "01,02,03,04,01,02",
    "515253545556 71": "03,04,05,06,01,02", "51525354 72": "03,04,01,02", "51 73": "01,01", "00 73": "-", "5152 74": "01,02,02",
    "5152 75": "01", "51 76": "01,01", "5152 77": "02", "5152 78": "01,02,01", "51525351 79": "01,02,03,02", "51525351 7a": "01,03,02",
    "515253 7b": "02,03,01", "5152 7c": "02,01", "5152 7d": "02,01,02", "020102 82": "0102,02", "5151 87": "01", "5152 87": "-",
    "51 6b6c": "01", "51 63 52 67 53 68": "02", "00 63 52 67 53 68": "03", "51 64 52 67 53 68": "03", "51 69 52": "02", "51 61": "01",
    "00 a8": "e3b0c44298fc1c149afbf4c8996fb92427ae41e4649b934ca495991b7852b855",
    "00 a7": "da39a3ee5e6b4b0d3255bfef95601890afd80709", "00 a6": "9c1185a5c5e9fc54612808977ee8f548b2258d31",
    "00 a9": "b472a266d0bd89c13706a4132ccfb16f7c3b9fcb", "00 aa": "5df6e0e2761359d30a8275058e299fcc0381534545f55cf43e41983f5d4c9456",
}


def _kat_line(k):
    return "vm_eval 0 0 %s ~ 0:0:1:0 ~" % k.replace(" ", "")


KAT_LINES = {_kat_line(k): v for k, v in KAT.items()}


def oracle(op: str, out: str):
    a = op.split(" ")
    k = a[0]
    if op in KAT_LINES:
        want = KAT_LINES[op]
        got = out.split(" ")[1] if out.startswith("ok ") else out
        if got != want:
            return "known answer: script %s must leave the stack %s" % (a[3], want)
    if k == "vm_num_enc" and out.startswith("ok "):
        back = impl("vm_num_dec %s 1" % out[3:])
        if back != "ok %d" % int(a[1]):
            return "int_to_script_bytes is not minimally decodable back to its argument"
    if k == "vm_eval" and out.startswith("ok "):
        parts = out.split(" ")
        n = (0 if parts[1] == "~" else len(parts[1].split(","))) + (0 if parts[2] == "alt=~" else len(parts[2].split(",")))
        if n > BitcoinVM.MAX_STACK_SIZE and a[3] != "-":   # the limit is checked after each instruction (none for an empty script)
            return "evaluation succeeded with more than MAX_STACK_SIZE items"
        if int(parts[3][4:]) > BitcoinVM.MAX_OP_COUNT:
            return "evaluation succeeded with more than MAX_OP_COUNT counted operations"
        if len(unhx(a[3])) > BitcoinVM.MAX_SCRIPT_LENGTH:
            return "evaluation succeeded on an over-long script"
    return None


def trivial(op: str) -> bool:
    a = op.split(" ")
    return a[0] == "vm_eval" and a[3] == "-"


def neighbours(op, rng):
    return []


from props import c03m_gen as _gen  # noqa: E402


def gen(ctx, emit):
    for line in KAT_LINES:
        emit(line, "kat")
    _gen.gen(ctx, emit)
