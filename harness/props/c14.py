"""C14 — blocks round-trip, block id, merkle root = Bitcoin definition, BIP37 merkleblock proofs
accepted / corrupted proofs rejected (pycoin/merkle.py, pycoin/block.py, make_parser_and_packer.py)."""
from __future__ import annotations

import hashlib
import struct

from lib import hx, unhx, show_list

from pycoin.merkle import merkle as pycoin_merkle
from pycoin.encoding.hash import double_sha256
from pycoin.symbols.btc import network as BTC
from pycoin.symbols.ltc import network as LTC

import io
import msglib as M
from txlib import compact_size, ref_wire

from pycoin.symbols.btg import network as BTG
NET = {"btc": BTC, "ltc": LTC, "btg": BTG}

MANIFEST = {
    "text": "Lean theorems over models of merkle/merkle_pair, of post_unpack_merkleblock/_recurse and of Block.parse/stream/hash: the "
            "merkle loop equals the recursive Bitcoin definition for every n>=1; the BIP37 builder's proof (spec written from Core) is "
            "accepted with exactly the matched ids for every n and every subset; added/removed hashes, padding bits, root mismatch "
            "rejected; an accepted altered hash yields an explicit hash collision; headers are exactly 80 bytes and round-trip; blocks "
            "with >=1 transaction round-trip for every coin class; the id is the double SHA-256 of the 80 header bytes; a block whose "
            "header root differs from the merkle root of its transactions raises BadMerkleRootError. Models tied to the code by "
            "differential correspondence through merkle(), Block.from_bin/as_bin/id/parse_as_header (BTC and LTC classes) and "
            "network.message.parse('merkleblock', ..) on every run. Block.parse(include_offsets=True) records for every transaction "
            "the position the wire format gives it and parses the same block (C14_block_offsets; op block_offs, oracle: the bytes at each "
            "offset are the transaction). as_hex()/previous_block_id() ride in the object histories.",
    "note": "double_sha256 is a function symbol in the theorems; the Lean SHA-256 model is validated against hashlib by correspondence. "
            "Transactions inside blocks rely on the C07 transaction model and its prefix-parser law.",
    "technique": "Lean 4 proof (induction over tree height / prefix-parser law on an executable model) + differential correspondence "
                 "model vs implementation + independent reference builder and encoders in the harness",
}
RULE = ("ops merkle/merkle_spec/pmt_build/pmt_verify/block_rt/block_offs/header_rt/blk_seq (object histories: observers x mutators); boundary corpus (every n in 1..17 x matched subsets incl. "
        "right-edge leaves, every single-position corruption of small proofs, all subsets for n<=6 (thorough: n<=11), blocks of "
        "1..33 transactions across powers of two and odd sizes for BTC and LTC, tampered blocks) + seeded random trees/blocks; "
        "distinct = distinct op line; trivial = nothing matched / correspondence-only malformed blocks")
ASSUMPTIONS = ["hashlib.sha256 modelled by Pycoin.Hash.sha256 (validated by correspondence on every op that hashes)",
               "hashes reach post_unpack_merkleblock through the '#' codec, i.e. as 32-byte strings",
               "honest-proof acceptance is claimed for blocks without two equal sibling nodes (pycoin raises on equal siblings)",
               "LTC MWEB data (flag 0x08 / bytes after the last transaction) is read and dropped by LTCTx.parse / Block.parse: "
               "byte-level round trip is claimed for non-MWEB blocks only"]
KNOWN: dict = {}


def dsha(b: bytes) -> bytes:
    return hashlib.sha256(hashlib.sha256(b).digest()).digest()


# ----------------------------------------------------------------- independent reference (BIP37 / Core), hashlib only

def tree_width(n: int, h: int) -> int:
    return (n + (1 << h) - 1) >> h


def tree_height(n: int) -> int:
    h = 0
    while tree_width(n, h) > 1:
        h += 1
    return h


def calc_hash(txids, h, pos):
    if h == 0:
        return txids[pos]
    left = calc_hash(txids, h - 1, 2 * pos)
    right = calc_hash(txids, h - 1, 2 * pos + 1) if 2 * pos + 1 < tree_width(len(txids), h - 1) else left
    return dsha(left + right)


def ref_root(txids):
    return calc_hash(txids, tree_height(len(txids)), 0)


def ref_build(txids, matches):
    """BIP37 'Constructing a partial merkle tree object': returns (flag bytes, hashes, matched ids)"""
    n = len(txids)
    bits, hashes = [], []

    def trav(h, pos):
        parent = any(matches[p] for p in range(pos << h, min((pos + 1) << h, n)))
        bits.append(parent)
        if h == 0 or not parent:
            hashes.append(calc_hash(txids, h, pos))
        else:
            trav(h - 1, 2 * pos)
            if 2 * pos + 1 < tree_width(n, h - 1):
                trav(h - 1, 2 * pos + 1)

    trav(tree_height(n), 0)
    fl = bytearray((len(bits) + 7) // 8)
    for p, b in enumerate(bits):
        if b:
            fl[p // 8] |= 1 << (p % 8)
    return bytes(fl), hashes, [t for t, m in zip(txids, matches) if m], len(bits)


def compact(n: int) -> bytes:
    if n < 253:
        return bytes([n])
    if n <= 0xFFFF:
        return b"\xfd" + struct.pack("<H", n)
    if n <= 0xFFFFFFFF:
        return b"\xfe" + struct.pack("<L", n)
    return b"\xff" + struct.pack("<Q", n)


def merkleblock_bytes(total, hashes, flags, root):
    hdr = struct.pack("<L", 2) + b"\x11" * 32 + root + struct.pack("<LLL", 1700000000, 0x1D00FFFF, 12345)
    return hdr + struct.pack("<L", total) + compact(len(hashes)) + b"".join(hashes) + compact(len(flags)) + flags


def parse_hashes(s):
    return [] if s == "~" else [unhx(x) for x in s.split(",")]


# ----------------------------------------------------------------- implementation side

def impl(op: str) -> str:
    a = op.split(" ")
    k = a[0]
    try:
        if k == "merkle":
            return "ok " + hx(pycoin_merkle(parse_hashes(a[1]), double_sha256))
        if k == "merkle_spec":  # reference vs Lean spec (validates the spec)
            hs = parse_hashes(a[1])
            return "ok " + hx(ref_root(hs)) if hs else "err empty"
        if k == "pmt_build":  # reference builder vs Lean spec builder (validates the spec)
            hs = parse_hashes(a[1])
            ms = [c == "1" for c in a[2]]
            fl, hashes, ids, _ = ref_build(hs, ms)
            return "ok %s %s %s" % (hx(fl), show_list(hashes, hx), show_list(ids, hx))
        if k == "pmt_verify":
            total, hashes, flags, root = int(a[1]), parse_hashes(a[2]), unhx(a[3]), unhx(a[4])
            d = M.limited(BTC.message.parse, "merkleblock", merkleblock_bytes(total, hashes, flags, root))
            return "ok " + show_list(d["tx_hashes"], hx)
        if k == "pmt_verify_after":
            # in a FRESH process (forked from a zygote that only created the networks): another network parses a merkleblock
            # of ITS layout first (Bitcoin Gold: 140-byte header + solution; Litecoin: the Bitcoin layout), then Bitcoin does
            total, hashes, flags, root = int(a[2]), parse_hashes(a[3]), unhx(a[4]), unhx(a[5])
            body = merkleblock_bytes(total, hashes, flags, root)
            if a[1] in ("btg", "xtg"):
                hdr = M.btg_header_bytes(2, b"\x11" * 32, root, 491407, 1700000000, 0x1D00FFFF, b"\x07" * 32, b"\x09" * 100)
            else:
                hdr = body[:80]
            outs = M.zygote().run(["%s:parse:merkleblock:%s" % (a[1], (hdr + body[80:]).hex()), "btc:parse:merkleblock:" + body.hex()])
            if outs == ["HANG"]:
                return "err Hang"
            second = outs[1]
            if second.startswith("err:"):
                return "err " + second[4:]
            import re
            m = re.search(r"\+?tx_hashes=\[([^\]]*)\]", second)
            if not m:
                return "err no-tx_hashes"
            return "ok " + show_list([unhx(x[1:]) for x in m.group(1).split(",") if x], hx)
        if k == "block_rt":
            blk = M.limited(NET[a[1]].block.from_bin, bytes.fromhex(a[2]))
            return "ok %s %s %d" % (blk.as_bin().hex(), blk.id(), len(blk.txs))
        if k == "block_offs":
            data = bytes.fromhex(a[3])
            f = io.BytesIO(data)
            blk = M.limited(NET[a[1]].block.parse, f, include_offsets=True, check_merkle_hash=(a[2] == "1"))
            return "ok %s %d" % (show_list(tx.offset_in_block for tx in blk.txs), len(data) - f.tell())
        if k == "blk_seq":
            return blk_seq_impl(unhx(a[1]), a[2].split(","))
        if k == "header_rt":
            f = io.BytesIO(unhx(a[1]))
            blk = BTC.block.parse_as_header(f)
            g = io.BytesIO()
            blk.stream_header(g)
            return "ok %s %s %d" % (g.getvalue().hex(), blk.id(), len(f.getvalue()) - f.tell())
    except M.Hang:
        return "err Hang"
    except Exception as e:  # noqa: BLE001
        return "err " + type(e).__name__
    return "bad-op"


ATTR = {"version": "version", "prev": "previous_block_hash", "root": "merkle_root", "timestamp": "timestamp",
        "difficulty": "difficulty", "nonce": "nonce"}


def _step_answer(f):
    try:
        return f()
    except M.Hang:
        raise
    except Exception as e:  # noqa: BLE001
        return "err:" + type(e).__name__


def blk_seq_impl(hdr: bytes, steps) -> str:
    """one Block object through a history of calls; one answer per step"""
    try:
        blk = BTC.block.parse_as_header(io.BytesIO(hdr))
    except Exception as e:  # noqa: BLE001
        return "err " + type(e).__name__
    out = []
    for st in steps:
        p = st.split(":")
        if p[0] == "id":
            out.append(_step_answer(lambda: blk.id()))
        elif p[0] == "hash":
            out.append(_step_answer(lambda: hx(blk.hash())))
        elif p[0] == "as_bin":
            out.append(_step_answer(lambda: hx(blk.as_bin())))
        elif p[0] == "header":
            def sh():
                g = io.BytesIO()
                blk.stream_header(g)
                return hx(g.getvalue())
            out.append(_step_answer(sh))
        elif p[0] == "as_hex":
            out.append(_step_answer(lambda: blk.as_hex() or "-"))
        elif p[0] == "prev_id":
            out.append(_step_answer(lambda: blk.previous_block_id() or "-"))
        elif p[0] == "as_blockheader":
            blk = blk.as_blockheader()
            out.append("-")
        elif p[0] == "set_nonce":
            blk.set_nonce(int(p[1]))
            out.append("-")
        elif p[0] == "set":
            setattr(blk, ATTR[p[1]], bytes.fromhex(p[2][1:]) if p[2].startswith("x") else int(p[2]))
            out.append("-")
        else:
            return "bad-op"
    return "ok " + "|".join(out)


def ref_header_now(fields):
    """the 80 (or, with odd-sized hash fields, other) bytes the protocol assigns to the current fields; None if unrepresentable"""
    v, p, r, t, d, n = fields
    if not all(0 <= x < 2 ** 32 for x in (v, t, d, n)):
        return None
    return struct.pack("<L", v) + p[:32] + r[:32] + struct.pack("<LLL", t, d, n)


def blk_seq_oracle(op_args, out):
    hdr, steps = unhx(op_args[1]), op_args[2].split(",")
    if len(hdr) < 80 or not out.startswith("ok "):
        return None
    fields = [int.from_bytes(hdr[0:4], "little"), hdr[4:36], hdr[36:68], int.from_bytes(hdr[68:72], "little"),
              int.from_bytes(hdr[72:76], "little"), int.from_bytes(hdr[76:80], "little")]
    idx = {"version": 0, "prev": 1, "root": 2, "timestamp": 3, "difficulty": 4, "nonce": 5}
    answers = out[3:].split("|")
    if len(answers) != len(steps):
        return "blk_seq: %d answers for %d steps" % (len(answers), len(steps))
    for i, (st, ans) in enumerate(zip(steps, answers)):
        p = st.split(":")
        if p[0] == "set_nonce":
            fields[5] = int(p[1])
        elif p[0] == "set":
            fields[idx[p[1]]] = bytes.fromhex(p[2][1:]) if p[2].startswith("x") else int(p[2])
        elif p[0] == "prev_id":
            if ans != (fields[1][::-1].hex() or "-"):
                return "step %d (%s): previous_block_id() is not the reversed hex of the current previous_block_hash" % (i, st)
        elif p[0] in ("id", "hash", "header", "as_bin", "as_hex"):
            now = ref_header_now(fields)
            if now is None:
                if not ans.startswith("err:"):
                    return "step %d (%s): answer although the header fields cannot be streamed" % (i, st)
                continue
            want = {"id": dsha(now)[::-1].hex(), "hash": dsha(now).hex(), "header": now.hex(), "as_bin": now.hex(), "as_hex": now.hex()}[p[0]]
            if ans != want:
                if p[0] in ("id", "hash"):
                    return ("step %d (%s): block id/hash is not the double-SHA256 of the header bytes the object streams at "
                            "that moment (stale after %s)" % (i, st, ",".join(steps[:i])[-60:]))
                return "step %d (%s): streamed header differs from the wire format of the current fields" % (i, st)
    return None


def oracle(op: str, out: str):
    a = op.split(" ")
    k = a[0]
    if k == "blk_seq":
        return blk_seq_oracle(a, out)
    if k == "merkle":
        hs = parse_hashes(a[1])
        if not hs:
            return None if out.startswith("err") else "merkle([]) returned a value"
        if out != "ok " + hx(ref_root(hs)):
            return "merkle(hashes) differs from the recursive Bitcoin definition (hashlib reference)"
    if k == "block_rt" and len(a) > 3:
        data = bytes.fromhex(a[2])
        if a[3] == "honest":
            want_id = dsha(data[:80])[::-1].hex()
            if not out.startswith("ok "):
                return "honest block (canonical encoding, correct merkle root) rejected: " + out
            _, hexs, bid, ntx = out.split(" ")
            if hexs != a[2]:
                return "Block.from_bin(b).as_bin() != b"
            if bid != want_id:
                return "block id is not the double-SHA256 of the 80-byte header"
        elif a[3] == "tampered":
            if out != "err BadMerkleRootError":
                return "block whose transactions do not hash to the header's merkle root was not rejected with BadMerkleRootError: " + out[:40]
    if k == "block_offs" and out.startswith("ok "):
        data = bytes.fromhex(a[3])
        offs = [] if out.split(" ")[1] == "~" else [int(x) for x in out.split(" ")[1].split(",")]
        try:
            plain = NET[a[1]].block.parse(io.BytesIO(data), check_merkle_hash=(a[2] == "1"))
        except Exception:  # noqa: BLE001
            return "parse with include_offsets succeeded where the plain parse fails"
        if len(offs) != len(plain.txs):
            return "include_offsets changed the number of transactions"
        for o, tx in zip(offs, plain.txs):
            raw = tx.as_bin()
            if data[o:o + len(raw)] != raw:
                return "offset_in_block %d does not point at the transaction's bytes" % o
        if offs and offs != sorted(offs):
            return "offsets are not increasing"
    if k == "header_rt" and out.startswith("ok "):
        data = unhx(a[1])
        _, hexs, bid, left = out.split(" ")
        if bytes.fromhex(hexs) != data[:80] or int(left) != len(data) - 80:
            return "header does not round-trip as exactly 80 bytes"
        if bid != dsha(data[:80])[::-1].hex():
            return "block id is not the double-SHA256 of the 80-byte header"
    if k == "pmt_verify_after" and len(a) > 6:
        return oracle("pmt_verify " + " ".join(a[2:]), out)
    if k == "pmt_verify" and len(a) > 5:
        tag = a[5]
        if tag.startswith("honest:"):
            want = "ok " + tag[len("honest:"):]
            if out != want:
                return "honest BIP37 proof not accepted with exactly the matched ids in order"
        elif tag.startswith("reject:"):
            if not out.startswith("err"):
                return "corrupted proof accepted (%s)" % tag[len("reject:"):]
    return None


def trivial(op: str) -> bool:
    a = op.split(" ")
    if a[0] == "pmt_verify" and len(a) > 5:
        return a[5] == "honest:~"
    if a[0] == "pmt_build":
        return "1" not in a[2]
    if a[0] == "block_rt":
        return len(a) > 3 and a[3] == "any"
    return False


def neighbours(op, rng):
    a = op.split(" ")
    if a[0] == "merkle":
        hs = a[1].split(",") if a[1] != "~" else []
        for n in range(1, min(len(hs), 9) + 1):
            yield "merkle " + ",".join(hs[:n])
    return


# ----------------------------------------------------------------- generation

def verify_line(total, hashes, flags, root, tag):
    return "pmt_verify %d %s %s %s %s" % (total, show_list(hashes, hx), hx(flags), hx(root), tag)


def emit_proof_cases(emit, rng, txids, matches, corrupt: bool, every_position: bool):
    n = len(txids)
    root = ref_root(txids)
    flags, hashes, ids, nbits = ref_build(txids, matches)
    emit(verify_line(n, hashes, flags, root, "honest:" + show_list(ids, hx)))
    if not corrupt:
        return

    def positions(k):
        if every_position or k <= 3:
            return range(k)
        return sorted({0, k - 1, rng.randrange(k)})

    # alter one supplied hash (one bit / whole hash)
    for i in positions(len(hashes)):
        h2 = bytearray(hashes[i])
        h2[rng.randrange(32)] ^= 1 << rng.randrange(8)
        emit(verify_line(n, hashes[:i] + [bytes(h2)] + hashes[i + 1:], flags, root, "reject:altered-hash@%d" % i))
    # remove one hash / add one hash (a fresh one, or a duplicate of a neighbour)
    for i in positions(len(hashes)):
        emit(verify_line(n, hashes[:i] + hashes[i + 1:], flags, root, "reject:removed-hash@%d" % i))
    for i in positions(len(hashes) + 1):
        extra = rng.choice([dsha(b"extra%d" % i), hashes[min(i, len(hashes) - 1)]])
        emit(verify_line(n, hashes[:i] + [extra] + hashes[i:], flags, root, "reject:added-hash@%d" % i))
    # padding: any unconsumed bit of the last byte set, or a whole extra flag byte (zero or not), or a missing byte
    for b in range(nbits, len(flags) * 8):
        f2 = bytearray(flags)
        f2[b // 8] |= 1 << (b % 8)
        emit(verify_line(n, hashes, bytes(f2), root, "reject:padding-bit@%d" % b))
    emit(verify_line(n, hashes, flags + b"\x00", root, "reject:extra-flag-byte"))
    emit(verify_line(n, hashes, flags + bytes([rng.randrange(1, 256)]), root, "reject:extra-flag-byte-set"))
    if len(flags) > 1 or nbits <= 8:
        emit(verify_line(n, hashes, flags[:-1], root, "any:flag-byte-removed"))
    # root
    r2 = bytearray(root)
    r2[rng.randrange(32)] ^= 1 << rng.randrange(8)
    emit(verify_line(n, hashes, flags, bytes(r2), "reject:root-mismatch"))
    # outside the property's list: correspondence only
    for t2 in sorted({max(0, n - 1), n + 1, 2 * n, 0}):
        if t2 != n:
            emit(verify_line(t2, hashes, flags, root, "any:total-changed"))
    for b in positions(nbits):
        f2 = bytearray(flags)
        f2[b // 8] ^= 1 << (b % 8)
        emit(verify_line(n, hashes, bytes(f2), root, "any:flag-flipped@%d" % b))


def tampered_block(rng, ntx, segwit_ok=True):
    """an honest block in which one transaction is then changed in a field its txid commits to (header untouched)"""
    txf = [M.random_tx_fields(rng, segwit_ok) for _ in range(ntx)]
    root = M.ref_merkle([M.tx_hash_legacy(f) for f in txf])
    hdr = M.header_bytes(2, rng.randbytes(32), root, rng.randrange(2 ** 32), 0x1D00FFFF, rng.randrange(2 ** 32))
    i = rng.randrange(ntx)
    v, lock, ins, outs = txf[i]
    mode = rng.randrange(4)
    if mode == 0:
        lock = (lock + 1) % 2 ** 32
    elif mode == 1:
        outs = [(outs[0][0] ^ 1, outs[0][1])] + outs[1:]
    elif mode == 2:
        h, idx, sc, q, w = ins[0]
        ins = [(h, idx ^ 1, sc, q, w)] + ins[1:]
    else:
        v = (v + 1) % 2 ** 32
    txf[i] = (v, lock, ins, outs)
    if mode == 3 and ntx > 1 and rng.random() < 0.5:   # or: two transactions swapped
        txf[i] = (v - 1 if v else 2 ** 32 - 1, lock, ins, outs)
        j = (i + 1) % ntx
        if M.tx_hash_legacy(txf[i]) != M.tx_hash_legacy(txf[j]):
            txf[i], txf[j] = txf[j], txf[i]
        else:
            txf[i] = (v, lock, ins, outs)
    return hdr + compact_size(ntx) + b"".join(ref_wire(f) for f in txf)


def gen_blocks(ctx, emit):
    rng = ctx.rng
    # headers: exactly 80 bytes, with trailing bytes, truncated
    for _ in range(ctx.n(100, 4000)):
        hdr = M.header_bytes(rng.choice([0, 1, 2, 2 ** 32 - 1, rng.randrange(2 ** 32)]), rng.randbytes(32), rng.randbytes(32),
                             rng.choice([0, 2 ** 32 - 1, rng.randrange(2 ** 32)]), rng.randrange(2 ** 32), rng.choice([0, 2 ** 32 - 1, rng.randrange(2 ** 32)]))
        emit("header_rt " + hx(hdr))
        emit("header_rt " + hx(hdr + rng.randbytes(rng.choice([1, 5, 100]))))
        emit("header_rt " + hx(hdr[: rng.choice([0, 1, 4, 35, 36, 67, 68, 72, 76, 79])]))
    # blocks: 1..N transactions across powers of two and odd sizes, BTC and LTC classes
    sizes = [1, 2, 3, 4, 5, 7, 8, 9, 15, 16, 17] + ([31, 32, 33, 64, 100] if ctx.thorough else [33])
    for coin in ("btc", "ltc"):
        for n in sizes:
            blob = M.random_block(rng, n)[0]
            emit("block_rt %s %s honest" % (coin, blob.hex()))
            emit("block_rt %s %s tampered" % (coin, M.random_block(rng, n, bad_root=True)[0].hex()))
            emit("block_rt %s %s tampered" % (coin, tampered_block(rng, n).hex()))
        # a sweep transaction inside the block: input / output counts on both sides of the 1-byte / 3-byte count encoding,
        # with and without witness data (each coin's own transaction parser reads the counts)
        for nin_, nout_ in ((252, 1), (253, 1), (254, 2), (300, 1), (1, 253), (2, 300), (253, 253)):
            for wit in (False, True):
                emit("block_rt %s %s honest" % (coin, M.random_block(rng, rng.choice([1, 2, 3]), fat=(rng.randrange(3), nin_, nout_, wit))[0].hex()),
                     "fat-transaction")
        for _ in range(ctx.n(80, 4000)):
            n = rng.choice([1, 1, 2, 3, 5, 6, 11, 13])
            kind = rng.randrange(6)
            if kind <= 1:
                emit("block_rt %s %s honest" % (coin, M.random_block(rng, n)[0].hex()))
            elif kind == 2:
                emit("block_rt %s %s tampered" % (coin, tampered_block(rng, n).hex()))
            else:
                blob = bytearray(M.random_block(rng, n)[0])
                if kind == 3:
                    blob[rng.randrange(len(blob))] ^= 1 << rng.randrange(8)   # anywhere, incl. witness data and counts
                elif kind == 4:
                    del blob[rng.randrange(len(blob)):]
                else:
                    blob += rng.randbytes(3)                                   # bytes after the last transaction
                emit("block_rt %s %s any" % (coin, bytes(blob).hex()))
        # include_offsets: honest blocks, a bad root with and without the merkle check, truncated
        for n in (1, 2, 3, 5, 8):
            emit("block_offs %s 1 %s" % (coin, M.random_block(rng, n)[0].hex()))
            bad = M.random_block(rng, n, bad_root=True)[0]
            emit("block_offs %s 0 %s" % (coin, bad.hex()))
            emit("block_offs %s 1 %s" % (coin, bad.hex()))
        for _ in range(ctx.n(25, 1500)):
            blob = bytearray(M.random_block(rng, rng.choice([1, 2, 3, 4, 6]))[0])
            kind = rng.randrange(4)
            if kind == 1:
                del blob[rng.randrange(80, len(blob)):]
            elif kind == 2:
                blob += rng.randbytes(3)
            emit("block_offs %s %d %s" % (coin, rng.randrange(2), bytes(blob).hex()))
        # header only / zero transactions announced / count larger than the transactions present
        hdr = M.random_block(rng, 1)[1]
        emit("block_rt %s %s any" % (coin, hdr.hex()))
        emit("block_rt %s %s any" % (coin, (hdr + b"\x00").hex()))
        blob, hdr, txb, _ = M.random_block(rng, 2)
        emit("block_rt %s %s any" % (coin, (hdr + b"\x03" + b"".join(txb)).hex()))
        emit("block_rt %s %s any" % (coin, (hdr + b"\x01" + b"".join(txb)).hex()))
        emit("block_rt %s %s any" % (coin, (hdr + b"\xfd\x02\x00" + b"".join(txb)).hex()))   # non-canonical count


def gen_histories(ctx, emit):
    """Block objects through sequences of observers and mutators (caches must be transparent)"""
    rng = ctx.rng

    def hdr():
        return M.header_bytes(rng.choice([1, 2, 0x20000000]), rng.randbytes(32), rng.randbytes(32), rng.randrange(2 ** 32),
                              0x1D00FFFF, rng.randrange(2 ** 32))
    # every observer before and after every mutator
    muts = ["set_nonce:7", "set_nonce:0", "set_nonce:4294967295", "set:nonce:9", "set:version:3", "set:timestamp:1",
            "set:difficulty:486604799", "set:prev:x" + "ab" * 32, "set:root:x" + "cd" * 32, "as_blockheader"]
    for m in muts:
        emit("blk_seq %s %s" % (hx(hdr()), ",".join(["as_hex", "prev_id", m, "as_hex", "prev_id", "id"])))
    for obs in ("id", "hash"):
        for m in muts:
            emit("blk_seq %s %s" % (hx(hdr()), ",".join([obs, m, obs, "header", "as_bin"])))
            emit("blk_seq %s %s" % (hx(hdr()), ",".join([m, obs, m, obs])))
    emit("blk_seq %s id,hash,id,set_nonce:1,set_nonce:2,id,hash,as_blockheader,id" % hx(hdr()))
    emit("blk_seq %s set_nonce:4294967296,id,set_nonce:5,id" % hx(hdr()))        # out of range, then back in range
    emit("blk_seq %s set_nonce:-1,hash,header,set_nonce:5,hash" % hx(hdr()))
    emit("blk_seq %s id,set:prev:x%s,id,header" % (hx(hdr()), "ab" * 31))           # a 31-byte hash shifts the stream
    for _ in range(ctx.n(300, 20000)):
        steps = []
        for _s in range(rng.randint(2, 10)):
            r = rng.random()
            if r < 0.4:
                steps.append(rng.choice(["id", "hash", "id", "hash", "header", "as_bin", "as_hex", "prev_id"]))
            elif r < 0.7:
                steps.append("set_nonce:%d" % rng.choice([0, 1, 2 ** 32 - 1, rng.randrange(2 ** 32), 2 ** 32, -1]))
            elif r < 0.95:
                f = rng.choice(["version", "timestamp", "difficulty", "nonce", "prev", "root"])
                if f in ("prev", "root"):
                    steps.append("set:%s:x%s" % (f, rng.randbytes(32).hex()))
                else:
                    steps.append("set:%s:%d" % (f, rng.choice([0, 1, rng.randrange(2 ** 32), 2 ** 32 - 1])))
            else:
                steps.append("as_blockheader")
        steps.append(rng.choice(["id", "hash"]))
        emit("blk_seq %s %s" % (hx(hdr()), ",".join(steps)))


def gen(ctx, emit):
    rng = ctx.rng
    gen_blocks(ctx, emit)
    gen_histories(ctx, emit)

    def rh():
        return bytes(rng.randrange(256) for _ in range(32))

    # ---- merkle: every n in 0..33, some large
    emit("merkle ~")
    for n in list(range(1, 34)) + [63, 64, 65, 100, 127, 128, 129]:
        hs = [rh() for _ in range(n)]
        emit("merkle " + show_list(hs, hx))
        emit("merkle_spec " + show_list(hs, hx))
    # repeated elements (CVE-2012-2459 shapes): the definition still applies
    for n in (2, 3, 4, 6):
        h = rh()
        emit("merkle " + show_list([h] * n, hx))
    for _ in range(ctx.n(200, 6000)):
        n = rng.choice([rng.randint(1, 40), rng.randint(1, 300)])
        hs = [rh() for _ in range(n)]
        emit("merkle " + show_list(hs, hx))
        if rng.random() < 0.3:
            emit("merkle_spec " + show_list(hs, hx))

    # ---- proofs: every n in 1..17 with the subsets that exercise each tree edge; all single-position corruptions
    for n in range(1, 18):
        txids = [rh() for _ in range(n)]
        subsets = [[False] * n, [True] * n, [i == n - 1 for i in range(n)], [i == 0 for i in range(n)],
                   [i != n - 1 for i in range(n)], [i % 2 == 0 for i in range(n)]]
        for _ in range(2):
            subsets.append([rng.random() < 0.3 for _ in range(n)])
        for ms in subsets:
            emit("pmt_build %s %s" % (show_list(txids, hx), "".join("1" if m else "0" for m in ms)))
            emit_proof_cases(emit, rng, txids, ms, corrupt=True, every_position=(n <= 9))
    # ---- after ANOTHER network (own header layout: Bitcoin Gold; same layout: Litecoin) parsed a merkleblock in this process
    for other in ("btg", "ltc", "btg"):
        for n in (1, 2, 3, 5, 8):
            txids = [rh() for _ in range(n)]
            ms = [rng.random() < 0.5 for _ in range(n)]
            flags, hashes, ids, _nb = ref_build(txids, ms)
            emit("pmt_verify_after %s %d %s %s %s honest:%s" % (other, n, show_list(hashes, hx), hx(flags), hx(ref_root(txids)), show_list(ids, hx)),
                 "after-another-network")
    # all subsets for n <= 6 (honest only; thorough: n <= 11)
    for n in range(1, ctx.n(7, 12)):
        txids = [rh() for _ in range(n)]
        for mask in range(1 << n):
            ms = [bool(mask >> i & 1) for i in range(n)]
            emit_proof_cases(emit, rng, txids, ms, corrupt=False, every_position=False)
    # random larger trees
    for _ in range(ctx.n(500, 20000)):
        n = rng.choice([rng.randint(1, 70), rng.randint(1, 70), rng.choice([31, 32, 33, 63, 64, 65, 127, 128, 129, 255, 256, 257, 300])])
        txids = [rh() for _ in range(n)]
        p = rng.choice([0.02, 0.1, 0.5, 0.9])
        ms = [rng.random() < p for _ in range(n)]
        if rng.random() < 0.5:
            ms[-1] = True
        emit_proof_cases(emit, rng, txids, ms, corrupt=rng.random() < 0.5, every_position=False)
        if rng.random() < 0.2:
            emit("pmt_build %s %s" % (show_list(txids, hx), "".join("1" if m else "0" for m in ms)))
    # duplicate-sibling blocks (outside the honest-block hypothesis): correspondence only
    for n in (2, 4, 6, 8):
        a, b = rh(), rh()
        txids = ([a, b] * n)[:n] if n > 2 else [a, a]
        ms = [True] * n
        flags, hashes, ids, _ = ref_build(txids, ms)
        emit(verify_line(n, hashes, flags, ref_root(txids), "any:duplicate-siblings"))
    # malformed: random flags / counts
    for _ in range(ctx.n(600, 20000)):
        total = rng.choice([0, 1, 2, 3, 5, 8, rng.randint(0, 40), 2 ** 32 - 1, 2 ** 31])
        hashes = [rh() for _ in range(rng.randint(0, 6))]
        flags = bytes(rng.randrange(256) for _ in range(rng.randint(0, 3)))
        emit(verify_line(total, hashes, flags, rng.choice(hashes + [rh()]), "any:malformed"))
